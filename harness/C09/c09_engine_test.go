package outbounds

// C09 harness, unit "engine" (injected into extras/outbounds): NewACLEngineFromString +
// aclEngine.TCP/UDP/CheckUDP (=> aclEngine.handle) with stub outbounds, against the reference
// evaluator of c09_model_ob_test.go. Observed: WHICH outbound receives the request (first
// matching line's outbound, the default outbound when no line matches), through which method,
// and the address it receives (rewritten to the hijack address, otherwise untouched). The engine
// compiles its rule set with the production decision-cache size (aclCacheSize); every engine is
// asked the whole query set twice, so the second round is answered from the cache.

import (
	"encoding/json"
	"errors"
	"fmt"
	"net"
	"runtime/debug"
	"strings"
	"testing"

	"verif.local/engine/evidence"
)

const c09EngMaxViolationsPerPart = 1 // per shard: simplest-first enumeration, so this is the shard's minimal case

type c09Seen struct {
	stub, method string
	host         string
	port         uint16
	ri           *ResolveInfo
	riCopy       ResolveInfo
}

var c09Last *c09Seen

type c09Stub struct{ name string }

func (s *c09Stub) rec(method string, a *AddrEx) {
	c := &c09Seen{stub: s.name, method: method, host: a.Host, port: a.Port, ri: a.ResolveInfo}
	if a.ResolveInfo != nil {
		c.riCopy = *a.ResolveInfo
	}
	c09Last = c
}

func (s *c09Stub) TCP(a *AddrEx) (net.Conn, error) { s.rec("TCP", a); return nil, nil }
func (s *c09Stub) UDP(a *AddrEx) (UDPConn, error)  { s.rec("UDP", a); return nil, nil }
func (s *c09Stub) CheckUDP(a *AddrEx) error        { s.rec("CheckUDP", a); return nil }

type c09EngOp struct {
	Query c09Query `json:"query"`
	Entry string   `json:"entry"` // TCP | UDP | CheckUDP
}

func (o c09EngOp) String() string { return o.Entry + o.Query.String() }

type c09EngReplay struct {
	Rules   []c09Rule  `json:"rules"`
	Text    string     `json:"acl_text"`
	Config  string     `json:"config"` // explicit-default | first-is-default
	History []c09EngOp `json:"history,omitempty"`
	Op      c09EngOp   `json:"op"`
	Want    string     `json:"want"`
	Got     string     `json:"got"`
}

func c09EngIP(s string) net.IP {
	if s == "" {
		return nil
	}
	ip := net.ParseIP(strings.TrimPrefix(s, "b4:"))
	if ip == nil {
		panic("c09: bad ip " + s)
	}
	if strings.HasPrefix(s, "b4:") {
		return ip.To4() // the 4-byte form of the same address
	}
	return ip
}

// c09NewEngine: outbounds A, B and - in config explicit-default - an outbound named "default";
// in config first-is-default the default outbound is the first of the list (A), per the
// documentation comment on aclEngine.
func c09NewEngine(rules []c09Rule, config string) (PluggableOutbound, error) {
	obs := []OutboundEntry{{"A", &c09Stub{"A"}}, {"B", &c09Stub{"B"}}}
	if config == "explicit-default" {
		obs = append(obs, OutboundEntry{"default", &c09Stub{"D"}})
	}
	return NewACLEngineFromString(c09Text(rules), obs, nil)
}

var c09PartialErr = errors.New("c09: lookup of the other address family failed")

// c09EngRun performs one request and returns "" or the violated clause, plus what was observed.
func c09EngRun(eng PluggableOutbound, rules []c09Rule, config string, decided int, op c09EngOp) (clause, want, got string) {
	q := op.Query
	a := &AddrEx{Host: q.Name, Port: uint16(q.Port)}
	var ri *ResolveInfo
	var wantErr error
	if q.V4 != "" || q.V6 != "" {
		ri = &ResolveInfo{IPv4: c09EngIP(q.V4), IPv6: c09EngIP(q.V6)}
		if (q.V4 != "") != (q.V6 != "") {
			// a partial resolution, as the resolvers in front of the ACL produce when one of the
			// parallel A/AAAA lookups fails: addresses AND an error. The decision is made on what
			// was resolved (added after the independently seeded change C09-5: resolved addresses
			// ignored whenever the resolver also reported an error, so IP/CIDR rules stopped matching).
			ri.Err = c09PartialErr
		}
		wantErr = ri.Err
		a.ResolveInfo = ri
	}
	c09Last = nil
	var err error
	switch op.Entry {
	case "TCP":
		_, err = eng.TCP(a)
	case "UDP":
		_, err = eng.UDP(a)
	case "CheckUDP":
		err = eng.CheckUDP(a)
	default:
		panic("c09: entry " + op.Entry)
	}
	wantStub, wantHijack := "", ""
	if decided >= 0 {
		wantStub, wantHijack = rules[decided].Ob, rules[decided].Hijack
	} else if config == "explicit-default" {
		wantStub = "D"
	} else {
		wantStub = "A"
	}
	want = fmt.Sprintf("outbound %s.%s, address ", wantStub, op.Entry)
	if wantHijack == "" {
		want += "untouched"
	} else {
		want += "rewritten to " + wantHijack
	}
	if err != nil || c09Last == nil {
		return "request did not reach a configured outbound", want, fmt.Sprintf("err=%v", err)
	}
	s := c09Last
	got = fmt.Sprintf("outbound %s.%s, host %q port %d resolve-info %s", s.stub, s.method, s.host, s.port, c09RIString(s))
	if s.stub != wantStub {
		if decided < 0 {
			return "no line matches but the request did not go to the default outbound", want, got
		}
		return "request went to another outbound than the first matching line's", want, got
	}
	if s.method != op.Entry {
		return "request reached the outbound through another method", want, got
	}
	if s.port != uint16(q.Port) {
		return "port changed", want, got
	}
	if wantHijack == "" {
		same := s.host == q.Name && s.ri == ri
		if same && ri != nil {
			same = s.riCopy.IPv4.Equal(c09EngIP(q.V4)) && s.riCopy.IPv6.Equal(c09EngIP(q.V6)) && s.riCopy.Err == wantErr &&
				(s.riCopy.IPv4 == nil) == (q.V4 == "") && (s.riCopy.IPv6 == nil) == (q.V6 == "")
		}
		if !same {
			return "address changed although the deciding line has no hijack address", want, got
		}
		return "", want, got
	}
	hip := c09EngIP(wantHijack)
	if s.host != hip.String() || s.ri == nil {
		return "address not rewritten to the hijack address", want, got
	}
	if hip.To4() != nil {
		if !s.riCopy.IPv4.Equal(hip) || s.riCopy.IPv6 != nil {
			return "resolve info not rewritten to the hijack address", want, got
		}
	} else {
		if !s.riCopy.IPv6.Equal(hip) || s.riCopy.IPv4 != nil {
			return "resolve info not rewritten to the hijack address", want, got
		}
	}
	if s.riCopy.Err != nil {
		return "resolve info carries an error after hijack", want, got
	}
	return "", want, got
}

func c09RIString(s *c09Seen) string {
	if s.ri == nil {
		return "nil"
	}
	return fmt.Sprintf("{v4:%v v6:%v err:%v}", s.riCopy.IPv4, s.riCopy.IPv6, s.riCopy.Err)
}

type c09EngCtx struct {
	sh    *evidence.Shard
	env   *evidence.Env
	tbl   *c09Table
	qs    []c09Query
	ops   []c09EngOp // every query through every entry point of its protocol
	opq   []int      // query index of each op
	nviol map[string]int
}

func (c *c09EngCtx) violate(p *evidence.Part, clause string, rp *c09EngReplay) bool {
	rp.Text = c09Text(rp.Rules)
	hist := fmt.Sprint(rp.History)
	if len(rp.History) > 6 {
		hist = fmt.Sprintf("<%d requests: the whole query set in order, then again up to this one>", len(rp.History))
	}
	sig := fmt.Sprintf("%s: %s: config=%s rules=[%s] history=%s request=%v want=%s got=%s", p.Name, clause, rp.Config,
		strings.ReplaceAll(strings.TrimSpace(rp.Text), "\n", "; "), hist, rp.Op, rp.Want, rp.Got)
	detail := fmt.Sprintf("%s: ACL engine (%s) with rules\n%safter %d earlier requests, request %v: got %s, expected %s", clause, rp.Config, rp.Text, len(rp.History), rp.Op, rp.Got, rp.Want)
	c.sh.Violate(p.Name, sig, detail, rp)
	c.nviol[p.Name]++
	if c.nviol[p.Name] >= c09EngMaxViolationsPerPart {
		p.Exhaustive = false
		p.Note("stopped after %d violations in this shard", c.nviol[p.Name])
		return false
	}
	return true
}

// engineList: a new engine for the rule list; the whole request set in order, twice.
func (c *c09EngCtx) engineList(p *evidence.Part, list []int, rules []c09Rule, config string) bool {
	eng, err := c09NewEngine(rules, config)
	if err != nil {
		return c.violate(p, "grammar-accepted rule list rejected: "+err.Error(), &c09EngReplay{Rules: rules, Config: config, Op: c.ops[0], Want: "engine", Got: "error"})
	}
	var seen [4]bool
	for round := 0; round < 2; round++ {
		for oi, op := range c.ops {
			decided := c.tbl.eval(list, c.opq[oi])
			seen[decided+1] = true
			clause, want, got := c09EngRun(eng, rules, config, decided, op)
			p.Evaluations++
			if clause != "" {
				var hist []c09EngOp
				if round == 1 {
					hist = append(hist, c.ops...)
				}
				hist = append(hist, c.ops[:oi]...)
				return c.violate(p, clause, &c09EngReplay{Rules: rules, Config: config, History: hist, Op: op, Want: want, Got: got})
			}
		}
	}
	h := uint64(len(list))
	for _, r := range list {
		h = c09Mix(h, r/4)
	}
	for i, s := range seen {
		if s {
			p.ClassHash(c09Mix(c09Mix(h, i), len(config)))
			p.Count([]string{"decided_by_default", "decided_by_line_1", "decided_by_line_2", "decided_by_line_3"}[i], 1)
		}
	}
	p.Count("engines", 1)
	return true
}

func c09EngEnumerate(sh *evidence.Shard) {
	debug.SetGCPercent(800) // many short-lived allocations per lookup; heap stays small
	env := sh.Env()
	qs := c09Queries()
	c := &c09EngCtx{sh: sh, env: env, tbl: c09NewTable(qs), qs: qs, nviol: map[string]int{}}
	for qi, q := range qs {
		if q.Proto == c09ProtoTCP {
			c.ops, c.opq = append(c.ops, c09EngOp{q, "TCP"}), append(c.opq, qi)
		} else {
			c.ops, c.opq = append(c.ops, c09EngOp{q, "UDP"}, c09EngOp{q, "CheckUDP"}), append(c.opq, qi, qi)
		}
	}
	if aclCacheSize != 1024 {
		// not a property clause: the cache capacity is the implementation's choice
		sh.Assume(fmt.Sprintf("the outbound layer's cache size is %d on this tree; the directed production-size run of the acl unit uses 1024 (the size on the pinned tree)", aclCacheSize))
	}
	sh.Assume("stub outbounds record the request; real outbounds (direct/socks5/http) and the built-in direct/reject names are not part of this property")
	th := env.Thorough()
	alpha := map[string]any{"address_atoms": c09Atoms, "proto_port": c09PPs, "hijack": c09Hijacks, "outbounds": c09Obs, "rules": c09NRules,
		"requests": fmt.Sprintf("%d queries (names %v x v4 %v x v6 %v x ports %v): tcp through TCP(), udp through UDP() and CheckUDP() = %d requests, asked twice per engine",
			len(qs), c09Names, c09V4s, c09V6s, c09Ports, len(c.ops)),
		"configs": []string{"explicit-default (outbounds A, B, default)", "first-is-default (outbounds A, B)"}}

	expired := func(p *evidence.Part, idx int64) bool {
		if env.Expired() {
			p.Exhaustive = false
			p.Note("deadline: completed for list indexes < %d of this shard's share (canonical order)", idx)
			return true
		}
		return false
	}

	p1 := sh.Part("engine-len01", "enum")
	p1.Alphabet = alpha
	p1.Bounds = map[string]any{"rule_list_length": "0..1, full rule alphabet", "configs": 2, "cache_size": aclCacheSize}
	c09Lists2(1, func(idx int64, list []int) bool {
		if !env.Mine(idx) {
			return true
		}
		if expired(p1, idx) {
			return false
		}
		rules := c09RulesAt(list)
		if len(p1.Samples) < 1 && len(list) == 1 {
			p1.Sample(map[string]any{"acl": c09Text(rules), "requests": len(c.ops) * 2})
		}
		return c.engineList(p1, list, rules, "explicit-default") && c.engineList(p1, list, rules, "first-is-default")
	})

	p2 := sh.Part("engine-len2", "enum")
	p2.Alphabet = alpha
	p2.Bounds = map[string]any{"rule_list_length": 2, "cache_size": aclCacheSize, "config": "explicit-default",
		"lists": map[bool]string{false: "every pair of (atom, protoPort) pairs, labelled (A,-),(B,9.9.9.9) and (B,9.9.9.9),(A,-)", true: "every pair over the full rule alphabet"}[th]}
	len2 := func(idx int64, list []int) bool {
		if len(list) != 2 || !env.Mine(idx) {
			return true
		}
		if idx&15 == 0 && expired(p2, idx) {
			return false
		}
		rules := c09RulesAt(list)
		if len(p2.Samples) < 1 {
			p2.Sample(map[string]any{"acl": c09Text(rules), "requests": len(c.ops) * 2})
		}
		return c.engineList(p2, list, rules, "explicit-default")
	}
	if th {
		c09Lists2(2, len2)
	} else {
		c09ListsReduced2(len2)
	}

	// IPv6 hijack address: rewriting takes the other branch of handle
	p3 := sh.Part("engine-hijack-v6", "enum")
	p3.Bounds = map[string]any{"rule_list_length": 1, "lists": "every (atom, protoPort) pair with hijack address 2001:db8::9 to outbound B", "config": "explicit-default"}
	for ap := 0; ap < c09NAP; ap++ {
		if !env.Mine(int64(ap)) {
			continue
		}
		list := []int{ap*4 + 3}
		rules := c09RulesAt(list)
		rules[0].Hijack = "2001:db8::9"
		if !c.engineList(p3, list, rules, "explicit-default") {
			break
		}
	}
}

func c09EngReplayOne(part string, raw json.RawMessage) (bool, bool, string) {
	if !strings.HasPrefix(part, "engine-") {
		return false, false, ""
	}
	var rp c09EngReplay
	if err := json.Unmarshal(raw, &rp); err != nil {
		return true, false, err.Error()
	}
	ref, err := c09RefCompileAll(rp.Rules)
	if err != nil {
		return true, false, "reference rejects the rule list: " + err.Error()
	}
	eng, err := c09NewEngine(rp.Rules, rp.Config)
	if err != nil {
		return true, true, err.Error()
	}
	for i, op := range append(append([]c09EngOp{}, rp.History...), rp.Op) {
		clause, want, got := c09EngRun(eng, rp.Rules, rp.Config, c09RefEval(ref, op.Query), op)
		if clause != "" {
			return true, true, fmt.Sprintf("request #%d %v: %s: got %s, expected %s; ACL: %s", i+1, op, clause, got, want, strings.ReplaceAll(rp.Text, "\n", "; "))
		}
	}
	return true, false, "all requests of the recorded history agree with the reference"
}

func TestVerifC09Engine(t *testing.T) {
	evidence.Main(t, "C09", evidence.Seq{Run: c09EngEnumerate, Replay: c09EngReplayOne})
}
