package server

import (
	"bytes"
	"strings"

	"github.com/apernet/hysteria/core/v2/client"

	"verif.local/engine/explore"
	"verif.local/engine/vquic"
	"verif.local/engine/vsched"
	"verif.local/engine/vsync"
)

// Two relays of one client whose lifetimes overlap at the moment the first one ends.
//
// Relay A (a.example): the target sends "x" and closes, which ends the relay's target->client
// direction; the server then reports the end to the event logger and only afterwards closes the
// target connection and the stream. The event logger is slow (an environment behaviour: a logger
// that writes to a pipe/file): the server stays between "relay function returned" and "both ends
// closed" while
//   - relay B (b.example) starts and carries "bbbb" client->target and "yyyy" target->client,
//   - application A, whose stream is still open, writes "AAAA".
// Whatever the relay function of A gave back when it returned (buffers, counters) is now used by
// B while A's remaining copy direction is still alive. Every stream must still see a prefix of
// its own bytes.
func c06Overlap(e *vsched.Exec, logger bool) {
	const addrA, addrB = "a.example:80", "b.example:80"
	r := newRig(e, rigOpts{Traffic: logger})
	if r.srv == nil {
		return
	}
	release := false
	gateEntered := false
	r.TCPErrorGate = func(reqAddr string) func() bool {
		if reqAddr != addrA {
			return nil
		}
		gateEntered = true
		return func() bool { return release }
	}
	nt := vquic.GetNet(e)
	f := &c06Factory{}
	cl, _, err := client.NewClient(&client.Config{ConnFactory: f, ServerAddr: r.pc.LocalAddr(), Auth: "good"})
	if err != nil {
		e.Fail("NewClient: %v", err)
		return
	}
	var appAGot, appBGot, tgtAGot, tgtBGot bytes.Buffer
	var wg vsync.WaitGroup
	closed := func() bool { return nt.Conns[0].IsClosed() }
	target := func(addr, send string, closeAfter bool, got *bytes.Buffer) {
		wg.Add(1)
		vsched.GoNamed("target-"+addr[:1], func() {
			defer wg.Done()
			e.Point("env", func() bool { return r.Targets[addr] != nil || closed() }, "target waits for dial")
			t := r.Targets[addr]
			if t == nil {
				return
			}
			if _, err := t.Write([]byte(send)); err != nil {
				return
			}
			if closeAfter {
				_ = t.Close()
				return
			}
			buf := make([]byte, 16)
			for {
				n, err := t.Read(buf)
				got.Write(buf[:n])
				if err != nil {
					return
				}
			}
		})
	}
	// target A's read side: drained by its own thread (the target closes only its write side in
	// effect: vnet.Pipe Close ends both, so A's late bytes are observed at the relay end instead)
	target(addrA, "x", true, &tgtAGot)
	target(addrB, "yyyy", false, &tgtBGot)

	connA, err := cl.TCP(addrA)
	if err != nil {
		e.Fail("Client.TCP(A): %v", err)
		return
	}
	reader := func(name string, conn interface{ Read([]byte) (int, error) }, got *bytes.Buffer) {
		wg.Add(1)
		vsched.GoNamed(name, func() {
			defer wg.Done()
			buf := make([]byte, 16)
			for {
				n, err := conn.Read(buf)
				got.Write(buf[:n])
				if err != nil {
					return
				}
			}
		})
	}
	reader("app-A-reader", connA, &appAGot)
	// relay A has ended on the server and its handler is inside the slow logger
	e.Point("env", func() bool { return gateEntered || closed() }, "wait until relay A ended")
	connB, err := cl.TCP(addrB)
	if err != nil {
		e.Fail("Client.TCP(B): %v", err)
		return
	}
	reader("app-B-reader", connB, &appBGot)
	wg.Add(2)
	vsched.GoNamed("app-B-writer", func() {
		defer wg.Done()
		_, _ = connB.Write([]byte("bbbb"))
	})
	vsched.GoNamed("app-A-writer", func() {
		defer wg.Done()
		_, _ = connA.Write([]byte("AAAA"))
	})
	e.WaitIdle()
	release = true
	e.WaitIdle()
	_ = connA.Close()
	_ = connB.Close()
	wg.Wait()
	e.WaitIdle()

	fwd := func(addr string) string {
		if re := r.RelayEnds[addr]; re != nil {
			return string(re.Written)
		}
		return ""
	}
	// bytes the server wrote towards each target (the target of A is closed: what the relay
	// end accepted is what the server forwarded)
	for _, x := range []struct{ what, got, sent string }{
		{"target B received", tgtBGot.String(), "bbbb"},
		{"server forwarded to target B", fwd(addrB), "bbbb"},
		{"server forwarded to target A", fwd(addrA), "AAAA"},
		{"application A received", appAGot.String(), "x"},
		{"application B received", appBGot.String(), "yyyy"},
	} {
		if !strings.HasPrefix(x.sent, x.got) {
			e.Fail("(i) overlapping relays: %s %q, which is not a prefix of %q sent on that stream", x.what, x.got, x.sent)
		}
	}
	if tgtBGot.String() != "bbbb" || appBGot.String() != "yyyy" {
		e.Fail("(ii) relay B (started while relay A was ending) delivered %q / %q of \"bbbb\" / \"yyyy\" although nothing closed it", tgtBGot.String(), appBGot.String())
	}
	e.Logf("overlap appA<-%q appB<-%q tgtB<-%q fwdA=%q fwdB=%q %s", appAGot.String(), appBGot.String(), tgtBGot.String(), fwd(addrA), fwd(addrB), r.eventsString())
	_ = cl.Close()
	r.shutdown(true)
}

func c06OverlapScenarios() []*explore.Scenario {
	return []*explore.Scenario{
		{Name: "overlap-ending-relay/logger=true", Quick: explore.Bounds{P: 2}, Thorough: explore.Bounds{P: 3, MaxExec: 3000000}, Body: func(e *vsched.Exec) { c06Overlap(e, true) }},
		{Name: "overlap-ending-relay/logger=false", Quick: explore.Bounds{P: 1}, Thorough: explore.Bounds{P: 2, MaxExec: 3000000}, Body: func(e *vsched.Exec) { c06Overlap(e, false) }},
	}
}
