package server

// C06, unit "default-outbound": the relay harness gives the server a fake outbound; production's
// default outbound (defaultOutbound in config.go) hands it a real *net.TCPConn. The relay ends by
// closing that connection after its last Write, so "the whole of it when the sender finishes
// writing before either side closes" rests on one more thing: closing the connection the default
// outbound returns must DELIVER what was written, not abort it. Real loopback sockets, no clock:
// the peer starts reading only after Close has returned, and must get every byte and then EOF.
// Bounded enumeration over the amounts below (up to well beyond a loopback receive window).
// Added after the independently seeded change C06-9 (SetLinger(0) on every dialled connection: Close
// sent a reset and threw away what the kernel had not delivered yet).

import (
	"encoding/json"
	"errors"
	"fmt"
	"io"
	"net"
	"testing"
	"time"

	"verif.local/engine/evidence"
)

type c06DOCase struct {
	Bytes int `json:"bytes_written_before_close"`
}

var errC06NoLoopback = errors.New("c06: no loopback TCP in this environment")

func c06DORun(c *c06DOCase) (clause string, infra error) {
	ln, err := net.Listen("tcp", "127.0.0.1:0")
	if err != nil {
		return "", errC06NoLoopback
	}
	defer ln.Close()
	accepted := make(chan net.Conn, 1)
	go func() {
		s, err := ln.Accept()
		if err != nil {
			accepted <- nil
			return
		}
		accepted <- s
	}()
	ob := &defaultOutbound{}
	conn, err := ob.TCP(ln.Addr().String())
	if err != nil {
		return fmt.Sprintf("defaultOutbound.TCP(%s): %v", ln.Addr(), err), nil
	}
	peer := <-accepted
	if peer == nil {
		_ = conn.Close()
		return "", errC06NoLoopback
	}
	defer peer.Close()
	data := make([]byte, c.Bytes)
	for i := range data {
		data[i] = byte(i*7 + 3)
	}
	// the peer reads concurrently only as far as needed for the writer not to block for ever on
	// amounts above the socket buffers: it reads NOTHING until the writer is done, unless the write
	// has been stuck for two seconds (guard only; loopback buffers hold all amounts used here)
	wrote := make(chan error, 1)
	go func() {
		_, err := conn.Write(data)
		if err == nil {
			err = conn.Close()
		}
		wrote <- err
	}()
	var got []byte
	select {
	case err := <-wrote:
		if err != nil {
			return fmt.Sprintf("writing %d bytes and closing: %v", c.Bytes, err), nil
		}
	case <-time.After(2 * time.Second):
		return "", fmt.Errorf("c06: a write of %d bytes to a loopback socket whose peer does not read yet did not complete (socket buffers smaller than assumed)", c.Bytes)
	}
	_ = peer.SetReadDeadline(time.Now().Add(20 * time.Second)) // hang guard only
	got, err = io.ReadAll(peer)
	if err != nil {
		return fmt.Sprintf("the connection returned by the default outbound was written %d bytes and closed; the target then read %d bytes and got %v instead of the whole stream and EOF", c.Bytes, len(got), err), nil
	}
	if len(got) != len(data) || string(got) != string(data) {
		return fmt.Sprintf("the target read %d of the %d bytes written before Close", len(got), c.Bytes), nil
	}
	return "", nil
}

func c06DOEnumerate(sh *evidence.Shard) {
	env := sh.Env()
	p := sh.Part("default-outbound-close-delivers", "enum")
	sizes := []int{1, 1024, 16384, 65536, 131072, 196608, 262144}
	p.Alphabet = map[string]any{"bytes_written_before_close": sizes, "peer": "loopback TCP listener that reads only after the writer has closed", "connection": "as returned by defaultOutbound.TCP"}
	var item int64
	for _, n := range sizes {
		item++
		if !env.Mine(item) {
			continue
		}
		c := c06DOCase{Bytes: n}
		clause, infra := c06DORun(&c)
		if infra != nil {
			p.Exhaustive = false
			p.Note("not decided for %d bytes: %v", n, infra)
			continue
		}
		p.Evaluations++
		p.Class(n, clause == "")
		if clause != "" {
			cc := c
			sh.Violate(p.Name, fmt.Sprintf("default-outbound/close-does-not-deliver/bytes=%d", n), clause, &cc)
		}
	}
}

func TestVerifC06DefaultOutbound(t *testing.T) {
	evidence.Main(t, "C06", evidence.Seq{Run: c06DOEnumerate, Replay: func(part string, raw json.RawMessage) (bool, bool, string) {
		if part != "default-outbound-close-delivers" {
			return false, false, ""
		}
		var c c06DOCase
		if err := json.Unmarshal(raw, &c); err != nil {
			return true, false, err.Error()
		}
		clause, infra := c06DORun(&c)
		if infra != nil {
			return true, false, infra.Error()
		}
		return true, clause != "", clause
	}})
}
