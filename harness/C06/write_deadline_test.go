package server

import (
	"bytes"
	"errors"
	"fmt"
	"net"

	"github.com/apernet/hysteria/core/v2/client"

	"verif.local/engine/explore"
	"verif.local/engine/vquic"
	"verif.local/engine/vsched"
	"verif.local/engine/vsync"
	"verif.local/engine/vtime"
)

// The HISTORY OF WRITES on the proxied connection: one large Write that ends with a timeout after
// partial progress, then is resumed.
//
// The application hands the proxied net.Conn ONE buffer of Size bytes with a write deadline while
// the target is not reading: the target pipe, the server's copy buffer and the stream's flow-control
// window (Window bytes, mostly NOT a multiple of a power-of-two piece size) fill up, the
// Write stalls, the deadline expires and Write returns (n, timeout) with 0 < n < Size. As net.Conn
// permits, the application lifts the deadline and - the target reading again - goes on from
// payload[n:], then closes. What the application "sent" is, by the contract of Write, the first n
// bytes of every buffer it handed over; judged by the property's own clauses: (i) the target receives
// a prefix of that, nothing twice, (ii) the whole of it since the application finished writing before
// closing, (iv) the logger's count equals the bytes forwarded.
//
// Added after the independently seeded change C06-13 (QStream.Write fed buffers above 256 KiB to
// the stream in 256 KiB pieces and, when a piece failed part-way, reported only the pieces before it:
// the caller was told fewer bytes than were put on the stream and the resumed write duplicated them).
type c06WriteDeadlineCfg struct {
	Size     int // bytes of the single Write
	Window   int // stream flow-control window
	FastOpen bool
	Logger   bool
}

func (c c06WriteDeadlineCfg) name() string {
	return fmt.Sprintf("c2t-write-deadline-resume/write-size=%d/stream-window=%d/fastopen=%v/logger=%v", c.Size, c.Window, c.FastOpen, c.Logger)
}

// c06Payload: a pattern without short periods, so that a lost, repeated or displaced run of bytes
// shows at whatever offset it happens.
func c06Payload(n int) []byte {
	p := make([]byte, n)
	for i := range p {
		p[i] = byte(i*7 + i>>8 + i>>16)
	}
	return p
}

// payload = c06Payload(c.Size), made once per scenario and never written to.
func c06WriteDeadline(e *vsched.Exec, c c06WriteDeadlineCfg, payload []byte) {
	addr := c06Addr
	r := newRig(e, rigOpts{Traffic: c.Logger})
	if r.srv == nil {
		return
	}
	nt := vquic.GetNet(e)
	f := &c06Factory{}
	cl, _, err := client.NewClient(&client.Config{ConnFactory: f, ServerAddr: r.pc.LocalAddr(), Auth: "good", FastOpen: c.FastOpen})
	if err != nil {
		e.Fail("NewClient: %v", err)
		return
	}
	nt.Conns[0].StreamWindow = c.Window
	nt.Conns[0].Peer().StreamWindow = c.Window
	var tgtGot bytes.Buffer
	tgtGot.Grow(2 * len(payload))
	sent := 0 // what the Write calls reported as written so far is payload[:sent]
	var tgtReadErr, appReadErr error
	var appGot int
	reading := false // the target reads only once the application's write has timed out
	var wg vsync.WaitGroup
	wg.Add(1)
	vsched.GoNamed("target-reader", func() {
		defer wg.Done()
		e.Point("env", func() bool { return (reading && r.Targets[addr] != nil) || nt.Conns[0].IsClosed() }, "target is not reading")
		t := r.Targets[addr]
		if t == nil {
			return
		}
		buf := make([]byte, 32768)
		for {
			n, err := t.Read(buf)
			tgtGot.Write(buf[:n])
			if err != nil {
				tgtReadErr = err
				return
			}
		}
	})
	conn, err := cl.TCP(addr)
	if err != nil {
		e.Fail("Client.TCP failed: %v", err)
		reading = true
		wg.Wait()
		_ = cl.Close()
		r.shutdown(true)
		return
	}
	for _, s := range nt.Conns[0].Streams() {
		s.EOFWithData, s.Other().EOFWithData = true, true
	}
	wg.Add(1)
	vsched.GoNamed("app-reader", func() {
		defer wg.Done()
		buf := make([]byte, 16)
		for {
			n, err := conn.Read(buf)
			appGot += n
			if err != nil {
				appReadErr = err
				return
			}
		}
	})
	// the single large Write under a deadline; after a timeout the deadline is lifted, the target
	// starts reading and the application goes on from where Write said it stopped
	var writeErr error
	firstN, timeouts := -1, 0
	_ = conn.SetWriteDeadline(vtime.Now().Add(vtime.Second))
	for sent < len(payload) {
		n, err := conn.Write(payload[sent:])
		if n < 0 || n > len(payload)-sent {
			e.Fail("Write of %d bytes returned n=%d", len(payload)-sent, n)
			break
		}
		if firstN < 0 {
			firstN = n
		}
		sent += n
		if err == nil {
			if sent != len(payload) {
				e.Fail("Write returned (%d, nil) for a buffer of %d bytes", n, len(payload)-sent+n)
			}
			break
		}
		var ne net.Error
		if !errors.As(err, &ne) || !ne.Timeout() || timeouts > 0 {
			writeErr = err
			break
		}
		timeouts++
		_ = conn.SetWriteDeadline(vtime.Time{})
		reading = true
	}
	reading = true
	_ = conn.Close()
	wg.Wait()
	e.WaitIdle()

	// ---- oracle -------------------------------------------------------------------------
	diverge := func(got, want []byte) int {
		i := 0
		for i < len(got) && i < len(want) && got[i] == want[i] {
			i++
		}
		return i
	}
	got, want := tgtGot.Bytes(), payload[:sent]
	// (i) prefix, always
	if !bytes.HasPrefix(want, got) {
		e.Fail("(i) target received %d bytes, the application's Writes reported %d bytes sent (first Write of %d returned n=%d): not a prefix, streams diverge at offset %d",
			len(got), len(want), len(payload), firstN, diverge(got, want))
	} else if !bytes.Equal(got, payload) {
		// (ii) whole: the application wrote everything before closing, the target never closed (as in
		// c06Run, a Write that fails although nobody closed anything is judged by this clause too)
		e.Fail("(ii) target received %d of %d bytes although the application finished writing before closing (first Write returned n=%d, write error %v, target read error %v)",
			len(got), len(payload), firstN, writeErr, tgtReadErr)
	}
	if appGot != 0 {
		e.Fail("(i) application received %d bytes, the target sent none", appGot)
	}
	// (iv) accounting: the direction that ended the relay by EOF is counted exactly
	if c.Logger {
		var okTx uint64
		for _, ev := range r.Events {
			if ev.Kind == "traffic" && ev.OK {
				okTx += ev.N
			}
		}
		var fwdTx uint64
		if re := r.RelayEnds[addr]; re != nil {
			fwdTx = uint64(len(re.Written))
		}
		if okTx != fwdTx {
			e.Fail("(iv) tx accounting: logger approved %d bytes client->target, %d were forwarded to the target", okTx, fwdTx)
		}
		if uint64(len(got)) > okTx {
			e.Fail("(iv) the target received more bytes than the logger approved (%d/%d)", len(got), okTx)
		}
	}
	// harness expectation (a note, not a clause): on the default schedule the Write stalls part-way
	partial := "part-way"
	if timeouts == 0 {
		partial = "never"
	} else if firstN == 0 {
		partial = "before its first byte"
	}
	e.Logf("%s first Write timed out %s; tgt<-%d bytes of %d appReadErr=%v tgtReadErr=%v", c.name(), partial, len(got), len(want), appReadErr, tgtReadErr)
	_ = cl.Close()
	for _, pc := range f.pcs {
		if !pc.Closed() {
			e.Fail("client socket left open after Close")
		}
	}
	r.shutdown(true)
}

// c06WriteDeadlineScenarios: write sizes above 256 KiB (and one below) x stream windows that are
// not a multiple of 256 KiB (and one that is) and stall the Write in its first, second or third
// 256 KiB (the stall point is window + server copy buffer + target pipe = window + 96 KiB or so).
// Quick: three (size, window) pairs, the first under every schedule with one scheduling or
// environment deviation (which includes the deadline firing early, at every point of the Write), the
// others on the default schedule. Thorough: all three with one deviation, plus the whole size x
// window x fast-open x logger grid on the default schedule.
func c06WriteDeadlineScenarios(thorough bool) []*explore.Scenario {
	p0, p1 := explore.Bounds{P: 0}, explore.Bounds{P: 1, E: 1}
	payloads := map[int][]byte{}
	var scs []*explore.Scenario
	seen := map[string]bool{}
	add := func(c c06WriteDeadlineCfg, q, t explore.Bounds) {
		if seen[c.name()] {
			return
		}
		seen[c.name()] = true
		if payloads[c.Size] == nil {
			payloads[c.Size] = c06Payload(c.Size)
		}
		payload := payloads[c.Size]
		scs = append(scs, &explore.Scenario{Name: c.name(), Quick: q, Thorough: t, Body: func(e *vsched.Exec) { c06WriteDeadline(e, c, payload) }})
	}
	add(c06WriteDeadlineCfg{Size: 300000, Window: 100000, Logger: true}, p1, p1)
	add(c06WriteDeadlineCfg{Size: 600000, Window: 300000, Logger: true}, p0, p1)
	add(c06WriteDeadlineCfg{Size: 600000, Window: 100000, FastOpen: true}, p0, p1)
	if thorough {
		for _, fo := range []bool{false, true} {
			for _, lg := range []bool{true, false} {
				for _, size := range []int{200000, 262145, 300000, 600000, 900000} {
					for _, win := range []int{1000, 100000, 262144, 300000, 500000} {
						if win+150000 > size {
							continue // would not stall
						}
						add(c06WriteDeadlineCfg{Size: size, Window: win, FastOpen: fo, Logger: lg}, p0, p0)
					}
				}
			}
		}
	}
	return scs
}
