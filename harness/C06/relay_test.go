package server

// C06 harness: TCP relay preserves the byte stream and accounts it exactly. Both REAL halves:
// client.NewClient/TCP/tcpConn (package client) and handleTCPRequest/copyTwoWay(Ex)/QStream
// (package server), joined by the fake QUIC layer; the harness owns the application side, the
// target net.Conn handed out by Outbound.TCP, and the TrafficLogger.

import (
	"bytes"
	"errors"
	"fmt"
	"io"
	"net"
	"strings"
	"testing"

	"github.com/apernet/hysteria/core/v2/client"
	coreErrs "github.com/apernet/hysteria/core/v2/errors"
	"verif.local/engine/explore"
	"verif.local/engine/vnet"
	"verif.local/engine/vquic"
	"verif.local/engine/vsched"
	"verif.local/engine/vsync"
	"verif.local/engine/vtime"
)

type c06Cfg struct {
	Name     string
	AppSend  []string // chunks the application writes
	TgtSend  []string // chunks the target writes
	AppClose string   // "after-writes" | "after-reading-all" | "never"
	TgtClose string   // "after-writes" | "after-reading-all" | "never"
	FastOpen bool
	Logger   bool
	VetoAt   int    // veto the k-th LogTraffic call (0 = never)
	DialErr  string // non-empty: Outbound.TCP fails with this message
	Whole    string // "" | "c2t" | "t2c" | "both": directions in which complete delivery is required
	Window   int    // stream window (0 = default)
	Chunks   bool   // short reads as environment choices
	// ReadLate: the application's first Read happens only after target bytes were relayed onto
	// the stream (a target that speaks first, an application that is slow to read)
	ReadLate bool
	// DecliningHook: a request hook is configured (e.g. sniffing enabled) but declines this
	// request (Check returns false): the connection is one "no request hook intercepts", everything
	// must be exactly as without a hook
	DecliningHook bool
	// AddrLens / DialErrLens: lengths of the request address / of the dial error message the
	// execution chooses from (added after the independently seeded change C06-6: a frame buffer one
	// byte too long for a 63-byte address put a stray 0x00 in front of the client's first byte)
	AddrLens    []int
	DialErrLens []int
	// TCPLike: the outbound connection has net.TCPConn's ReadFrom/WriteTo (which generic copy
	// helpers delegate to, and which wrap errors in *net.OpError), as the direct outbound's has
	TCPLike bool
	// TgtEOFWithData: the outbound connection's Read hands over the target's last bytes TOGETHER
	// with io.EOF - (n > 0, io.EOF), which the io.Reader contract allows and TLS / buffered / custom
	// Outbound connections do, though a plain *net.TCPConn never does. (Added after the
	// independently seeded change C06-7: a QStream.ReadFrom picked up by the no-logger fast path's
	// io.Copy tested the Read error before the byte count and dropped that final chunk.)
	TgtEOFWithData bool
	// FirstReadTimesOut: the HISTORY OF READS on the proxied connection. The application's first
	// Read runs with a read deadline that has already expired, while (with fast open) the server's
	// outbound dial is still pending, so not one byte of the response is on the stream: it fails with
	// a timeout and consumes nothing. The application then lifts the deadline and reads on as usual.
	// Judged by the property's own clauses: nothing injected, nothing lost - the application receives
	// exactly the target's bytes. (Added after the independently seeded change C06-10: the fast-open
	// tcpConn.Read marked the connection established BEFORE parsing the lazily read response, so after
	// one timed-out Read the next Read handed the raw response frame to the application as target data.)
	FirstReadTimesOut bool
	// TgtEmptyReads: the NUMBER of empty reads - Read returning (0, nil), which the io.Reader contract
	// allows ("discouraged", not forbidden) and record-oriented / TLS / buffered connections from a
	// pluggable Outbound do - that the outbound connection hands the server over the whole life of
	// one relay direction, never two in a row: one empty read before each of N one-byte chunks the
	// target sends (and one before the Read that reports the target's close). The execution chooses N
	// from this list (cost-free choice). Judged by the property's own clauses: the application
	// receives the whole of what the target wrote before closing, the logger's counts match. (Added
	// after the independently seeded change C06-11: copyBufferLog gained a bufio-style "100 empty
	// reads" guard whose counter was never reset by a successful read, so the relay was torn down
	// with io.ErrNoProgress at the 100th empty read of the connection, mid-stream.)
	TgtEmptyReads []int
}

// c06EmptyReadsOutbound hands the server outbound connections that return (0, nil) once before
// every Read that waits for the target (c06Cfg.TgtEmptyReads); count = empty reads handed out.
type c06EmptyReadsOutbound struct {
	Outbound
	count *int
}

func (o c06EmptyReadsOutbound) TCP(reqAddr string) (net.Conn, error) {
	c, err := o.Outbound.TCP(reqAddr)
	if err != nil {
		return c, err
	}
	return &c06EmptyReadsConn{Conn: c, count: o.count}, nil
}

// c06EmptyReadsConn: every second Read with a non-empty buffer returns (0, nil) without waiting;
// the Reads in between hand over at most one byte (a short read), so that the number of empty reads
// of an execution is fixed by the number of bytes the target sends and not by the schedule. Nothing
// else differs from the connection underneath.
type c06EmptyReadsConn struct {
	net.Conn
	count *int
	empty bool // the previous Read was the empty one
}

func (c *c06EmptyReadsConn) Read(b []byte) (int, error) {
	if len(b) == 0 {
		return c.Conn.Read(b)
	}
	if !c.empty {
		c.empty = true
		*c.count++
		return 0, nil
	}
	c.empty = false
	return c.Conn.Read(b[:1])
}

// c06OneByteChunks returns n one-byte chunks (a pattern in which a lost, repeated or reordered byte
// shows).
func c06OneByteChunks(n int) []string {
	const abc = "0123456789abcdefghijklmnopqrstuvwxyzABCDEFGHIJKLMNOPQRSTUVWXYZ+"
	out := make([]string, n)
	for i := range out {
		out[i] = abc[i%len(abc) : i%len(abc)+1]
	}
	return out
}

// c06GatedOutbound: an outbound whose dial takes a while (c06Cfg.FirstReadTimesOut): Outbound.TCP
// does not return before the harness opens the gate (or the client connection is gone).
type c06GatedOutbound struct {
	Outbound
	e    *vsched.Exec
	open *bool
}

func (o c06GatedOutbound) TCP(reqAddr string) (net.Conn, error) {
	o.e.Point("env", func() bool { return *o.open }, "outbound dial pending")
	return o.Outbound.TCP(reqAddr)
}

// c06DecliningHook declines every request; its TCP/UDP methods must never be called.
type c06DecliningHook struct{ e *vsched.Exec }

func (h c06DecliningHook) Check(isUDP bool, reqAddr string) bool { return false }
func (h c06DecliningHook) TCP(stream HyStream, reqAddr *string) ([]byte, error) {
	h.e.Fail("RequestHook.TCP called for a request its Check declined")
	return nil, nil
}
func (h c06DecliningHook) UDP(data []byte, reqAddr *string) error {
	h.e.Fail("RequestHook.UDP called for a request its Check declined")
	return nil
}

// c06EOFOutbound hands the server outbound connections that return their last bytes together
// with io.EOF (c06Cfg.TgtEOFWithData).
type c06EOFOutbound struct {
	Outbound
	r *rig
}

func (o c06EOFOutbound) TCP(reqAddr string) (net.Conn, error) {
	c, err := o.Outbound.TCP(reqAddr)
	if err != nil {
		return c, err
	}
	return c06EOFConn{Conn: c, srv: o.r.RelayEnds[reqAddr], tgt: o.r.Targets[reqAddr]}, nil
}

// c06EOFConn: a Read that takes the last bytes the target wrote before closing returns them with
// io.EOF instead of (n, nil) now and (0, io.EOF) on the next call. Nothing else differs.
type c06EOFConn struct {
	net.Conn
	srv, tgt *vnet.Conn // the two ends of the target pipe
}

func (c c06EOFConn) Read(b []byte) (int, error) {
	n, err := c.Conn.Read(b)
	if err == nil && n > 0 && c.tgt.IsClosed() && len(c.srv.Received) == len(c.tgt.Written) {
		return n, io.EOF
	}
	return n, err
}

const c06Addr = "target.example:80"

func c06Run(e *vsched.Exec, c c06Cfg) {
	addr := c06Addr
	if c.AddrLens != nil {
		// "for every proxied TCP connection": the request address is an input. Every length around
		// the varint boundaries of the request frame (cost-free choice).
		n := c.AddrLens[e.Choose(len(c.AddrLens), vsched.KFree, "address-length")]
		addr = strings.Repeat("h", n-3) + ":80"
		e.Logf("address length %d", n)
	}
	if c.DialErrLens != nil {
		n := c.DialErrLens[e.Choose(len(c.DialErrLens), vsched.KFree, "dial-error-length")]
		c.DialErr = strings.Repeat("e", n)
		e.Logf("dial error message length %d", n)
	}
	emptyReads := 0
	if c.TgtEmptyReads != nil {
		// how many empty reads the server's outbound connection returns during this connection
		n := c.TgtEmptyReads[e.Choose(len(c.TgtEmptyReads), vsched.KFree, "target-empty-reads")]
		c.TgtSend = c06OneByteChunks(n)
		e.Logf("target sends %d one-byte chunks, one empty read (0, nil) before each", n)
	}
	opts := rigOpts{Traffic: c.Logger}
	if c.DecliningHook {
		opts.Mutate = func(cfg *Config) { cfg.RequestHook = c06DecliningHook{e} }
	}
	if c.TgtEmptyReads != nil {
		prev := opts.Mutate
		opts.Mutate = func(cfg *Config) {
			if prev != nil {
				prev(cfg)
			}
			cfg.Outbound = c06EmptyReadsOutbound{Outbound: cfg.Outbound, count: &emptyReads}
		}
	}
	var eofOut *c06EOFOutbound
	if c.TgtEOFWithData {
		prev := opts.Mutate
		opts.Mutate = func(cfg *Config) {
			if prev != nil {
				prev(cfg)
			}
			eofOut = &c06EOFOutbound{Outbound: cfg.Outbound}
			cfg.Outbound = eofOut
		}
	}
	// the outbound dial completes when the harness says so; without fast open Client.TCP itself
	// waits for the response, so the dial is held only with fast open
	dialOpen := !(c.FirstReadTimesOut && c.FastOpen)
	if c.FirstReadTimesOut {
		prev := opts.Mutate
		opts.Mutate = func(cfg *Config) {
			if prev != nil {
				prev(cfg)
			}
			cfg.Outbound = c06GatedOutbound{Outbound: cfg.Outbound, e: e, open: &dialOpen}
		}
	}
	r := newRig(e, opts)
	if eofOut != nil {
		eofOut.r = r
	}
	if r.srv == nil {
		return
	}
	if c.VetoAt > 0 {
		r.TrafficVeto = func(n int, id string, tx, rx uint64) bool { return n == c.VetoAt }
	}
	if c.DialErr != "" {
		r.DialErr[addr] = errors.New(c.DialErr)
	}
	r.TargetBuf = 8
	r.TCPLikeTarget = c.TCPLike
	nt := vquic.GetNet(e)
	f := &c06Factory{}
	cl, _, err := client.NewClient(&client.Config{ConnFactory: f, ServerAddr: r.pc.LocalAddr(), Auth: "good", FastOpen: c.FastOpen})
	if err != nil {
		e.Fail("NewClient: %v", err)
		return
	}
	appSent := strings.Join(c.AppSend, "")
	tgtSent := strings.Join(c.TgtSend, "")
	var appGot, tgtGot bytes.Buffer
	var appWritten, tgtWritten int
	var appReadErr, tgtReadErr, tcpErr, appWriteErr error
	var wg vsync.WaitGroup
	tgtReadDone := false
	if c.Window > 0 {
		nt.Conns[0].StreamWindow = c.Window
		nt.Conns[0].Peer().StreamWindow = c.Window
	}
	if c.DialErr == "" {
		wg.Add(2)
		vsched.GoNamed("target-writer", func() {
			defer wg.Done()
			e.Point("env", func() bool { return r.Targets[addr] != nil || nt.Conns[0].IsClosed() }, "target waits for dial")
			t := r.Targets[addr]
			if t == nil {
				return
			}
			for _, ch := range c.TgtSend {
				n, err := t.Write([]byte(ch))
				tgtWritten += n
				if err != nil {
					return
				}
			}
			switch c.TgtClose {
			case "after-writes":
				_ = t.Close()
			case "after-reading-all":
				e.Point("env", func() bool { return tgtGot.Len() >= len(appSent) || tgtReadDone }, "target waits for app data")
				_ = t.Close()
			}
		})
		vsched.GoNamed("target-reader", func() {
			defer wg.Done()
			e.Point("env", func() bool { return r.Targets[addr] != nil || nt.Conns[0].IsClosed() }, "target waits for dial")
			t := r.Targets[addr]
			if t == nil {
				tgtReadDone = true
				return
			}
			buf := make([]byte, 16)
			for {
				n, err := t.Read(buf)
				tgtGot.Write(buf[:n])
				if err != nil {
					tgtReadErr = err
					tgtReadDone = true
					return
				}
			}
		})
	}
	conn, err := cl.TCP(addr)
	tcpErr = err
	if err == nil {
		for _, s := range nt.Conns[0].Streams() {
			s.EOFWithData, s.Other().EOFWithData = true, true
			if c.Chunks {
				s.ChunkChoice, s.Other().ChunkChoice = true, true
			}
		}
		appReadDone := false
		wg.Add(2)
		vsched.GoNamed("app-writer", func() {
			defer wg.Done()
			for _, ch := range c.AppSend {
				n, err := conn.Write([]byte(ch))
				appWritten += n
				if err != nil {
					appWriteErr = err
					return
				}
			}
			switch c.AppClose {
			case "after-writes":
				_ = conn.Close()
			case "after-reading-all":
				e.Point("env", func() bool { return appGot.Len() >= len(tgtSent) || appReadDone }, "app waits for target data")
				_ = conn.Close()
			}
		})
		vsched.GoNamed("app-reader", func() {
			defer wg.Done()
			if c.ReadLate {
				// a slow application: its first Read comes after target bytes reached the stream
				e.Point("env", func() bool {
					for _, s := range nt.Conns[0].Peer().Streams() {
						if n, ok := c06ResponseLen(s.WrittenBytes()); ok && len(s.WrittenBytes()) > n {
							return true
						}
					}
					return nt.Conns[0].IsClosed() || tgtReadDone
				}, "app reads late")
			}
			buf := make([]byte, 16)
			if c.FirstReadTimesOut {
				// a first Read whose deadline has expired (with fast open: before the server wrote the
				// first byte of its response); whatever it hands over counts as received. Then the
				// deadline is lifted, the dial completes and the application reads on.
				_ = conn.SetReadDeadline(vtime.Now())
				n, err := conn.Read(buf)
				appGot.Write(buf[:n])
				if err == nil {
					e.Fail("harness: a Read with an expired read deadline returned (%d, nil)", n)
				}
				var ne net.Error
				if !errors.As(err, &ne) || !ne.Timeout() {
					appReadErr = err
					appReadDone = true
					dialOpen = true
					return
				}
				_ = conn.SetReadDeadline(vtime.Time{})
				dialOpen = true
			}
			for {
				n, err := conn.Read(buf)
				appGot.Write(buf[:n])
				if err != nil {
					appReadErr = err
					appReadDone = true
					return
				}
			}
		})
		if c.AppClose == "never" && c.TgtClose == "never" {
			// nobody closes: let everything settle, then tear down from the application side
			e.WaitIdle()
			_ = conn.Close()
		}
		wg.Wait()
	}
	dialOpen = true
	e.WaitIdle()

	// ---- oracle -------------------------------------------------------------------------
	sconn := nt.Conns[0].Peer()
	if c.DialErr != "" {
		// (iii) a failed dial reaches the client as a dial error carrying the server's message
		var de coreErrs.DialError
		got := tcpErr
		if c.FastOpen {
			got = appReadErr
		}
		if !errors.As(got, &de) || de.Message != c.DialErr {
			e.Fail("(iii) dial failure reached the client as %v (TCP err %v, first Read err %v), expected DialError{%q}", got, tcpErr, appReadErr, c.DialErr)
		}
		// ... and as a dial error only: an error that also says "the connection is closed" makes a
		// reconnecting client tear the whole connection down, cutting every other relay on it although
		// neither of their endpoints closed (added after the independently seeded change C06-8)
		var ce coreErrs.ClosedError
		if errors.As(got, &ce) {
			e.Fail("(iii) the server refused the dial (%q) and the client reports it as a closed connection: %v", c.DialErr, got)
		}
		if nt.Conns[0].IsClosed() {
			e.Fail("(iii) the server refused the dial (%q) and the QUIC connection was closed", c.DialErr)
		}
		if r.Targets[addr] != nil || tgtGot.Len() > 0 {
			e.Fail("(iii) bytes relayed after a failed dial")
		}
	} else if tcpErr != nil {
		e.Fail("Client.TCP failed: %v", tcpErr)
	}
	// (i) prefix, always
	if !strings.HasPrefix(appSent, tgtGot.String()) {
		e.Fail("(i) target received %q, application sent %q: not a prefix", tgtGot.String(), appSent)
	}
	if !strings.HasPrefix(tgtSent, appGot.String()) {
		e.Fail("(i) application received %q, target sent %q: not a prefix", appGot.String(), tgtSent)
	}
	vetoed := false
	for _, ev := range r.Events {
		if ev.Kind == "traffic" && !ev.OK {
			vetoed = true
		}
	}
	// (ii) whole
	if !vetoed && c.DialErr == "" {
		if (c.Whole == "c2t" || c.Whole == "both") && tgtGot.String() != appSent {
			e.Fail("(ii) target received %q of %q although the application finished writing before closing", tgtGot.String(), appSent)
		}
		if (c.Whole == "t2c" || c.Whole == "both") && appGot.String() != tgtSent {
			e.Fail("(ii) application received %q of %q although the target finished writing before closing (read error %v)", appGot.String(), tgtSent, appReadErr)
		}
	}
	// (iv) accounting
	if c.Logger && c.DialErr == "" {
		var okTx, okRx, maxTx, maxRx uint64
		for _, ev := range r.Events {
			if ev.Kind != "traffic" || !ev.OK {
				continue
			}
			okTx += ev.N
			okRx += ev.M
			if ev.N > maxTx {
				maxTx = ev.N
			}
			if ev.M > maxRx {
				maxRx = ev.M
			}
		}
		// bytes actually forwarded: accepted by the target socket / put on the client's stream
		var fwdTx, fwdRx uint64
		if re := r.RelayEnds[addr]; re != nil {
			fwdTx = uint64(len(re.Written))
		}
		for _, s := range sconn.Streams() {
			// the harness's own parser of the response frame (not the code under test)
			if n, ok := c06ResponseLen(s.WrittenBytes()); ok {
				fwdRx += uint64(len(s.WrittenBytes()) - n)
			}
		}
		if fwdTx > okTx || okTx-fwdTx > maxTx {
			e.Fail("(iv) tx accounting: logger approved %d bytes client->target, %d were forwarded to the target (largest chunk %d)", okTx, fwdTx, maxTx)
		}
		if fwdRx > okRx || okRx-fwdRx > maxRx {
			e.Fail("(iv) rx accounting: logger approved %d bytes target->client, %d were forwarded to the client (largest chunk %d)", okRx, fwdRx, maxRx)
		}
		if uint64(appGot.Len()) > okRx || uint64(tgtGot.Len()) > okTx {
			e.Fail("(iv) an endpoint received more bytes than the logger approved (app %d/%d, target %d/%d)", appGot.Len(), okRx, tgtGot.Len(), okTx)
		}
		if c.Whole == "c2t" && !vetoed && okTx != fwdTx {
			e.Fail("(iv) tx accounting not exact for the direction that ended the relay by EOF: approved %d, forwarded %d", okTx, fwdTx)
		}
		if c.Whole == "t2c" && !vetoed && okRx != fwdRx {
			e.Fail("(iv) rx accounting not exact for the direction that ended the relay by EOF: approved %d, forwarded %d", okRx, fwdRx)
		}
		if vetoed {
			if sconn.CloseCode != closeErrCodeTrafficLimitReached || !sconn.IsClosed() {
				e.Fail("(iv) logger veto did not close the client connection with the traffic-limit code (closed=%v code=%#x)", sconn.IsClosed(), uint64(sconn.CloseCode))
			}
		}
	}
	if c.TgtEmptyReads != nil {
		e.Logf("empty reads handed to the server by the outbound connection: %d", emptyReads)
	}
	e.Logf("%s app<-%q tgt<-%q tcpErr=%v appReadErr=%v tgtReadErr=%v wErr=%v %s", c.Name, appGot.String(), tgtGot.String(), tcpErr, appReadErr, tgtReadErr, appWriteErr, r.eventsString())
	_ = cl.Close()
	for _, pc := range f.pcs {
		if !pc.Closed() {
			e.Fail("client socket left open after Close")
		}
	}
	r.shutdown(true)
}

// c06ResponseLen returns the length of the TCPResponse frame at the start of b (PROTOCOL.md:
// status byte, varint message length, message, varint padding length, padding).
func c06ResponseLen(b []byte) (int, bool) {
	vi := func(off int) (uint64, int, bool) {
		if off >= len(b) {
			return 0, 0, false
		}
		n := 1 << (b[off] >> 6)
		if off+n > len(b) {
			return 0, 0, false
		}
		v := uint64(b[off] & 0x3f)
		for i := 1; i < n; i++ {
			v = v<<8 | uint64(b[off+i])
		}
		return v, n, true
	}
	off := 1
	l, n, ok := vi(off)
	if !ok {
		return 0, false
	}
	off += n + int(l)
	p, n, ok := vi(off)
	if !ok {
		return 0, false
	}
	off += n + int(p)
	if off > len(b) {
		return 0, false
	}
	return off, true
}

type c06Factory struct{ pcs []*c06PC }

type c06PC struct {
	net.PacketConn
	closed bool
}

func (p *c06PC) Close() error { p.closed = true; return p.PacketConn.Close() }
func (p *c06PC) Closed() bool { return p.closed }

func (f *c06Factory) New(net.Addr) (net.PacketConn, error) {
	pc := &c06PC{PacketConn: newRigSock(fmt.Sprintf("client-sock-%d", len(f.pcs)), 52000+len(f.pcs))}
	f.pcs = append(f.pcs, pc)
	return pc, nil
}

func c06Scenarios(thorough bool) []*explore.Scenario {
	var cfgs []c06Cfg
	// the target's last bytes arrive TOGETHER with io.EOF at the server's outbound connection
	// (environment answer (n > 0, io.EOF) of the target's Read), logger absent (fast path) and
	// present, fast-open off and on; every schedule decides how much of the target's stream that
	// final Read carries. Added after the independently seeded change C06-7 (an io.ReaderFrom on
	// QStream, used implicitly by the fast path's io.Copy, dropped bytes returned together with
	// io.EOF). These come first: they are cheap and must not fall behind the deadline on a loaded
	// machine.
	for _, lg := range []bool{false, true} {
		for _, fo := range []bool{false, true} {
			sfx := fmt.Sprintf("/fastopen=%v/logger=%v/target-eof-with-data", fo, lg)
			cfgs = append(cfgs, c06Cfg{Name: "t2c" + sfx, TgtSend: []string{"x", "yz0"}, TgtClose: "after-writes", AppClose: "never", FastOpen: fo, Logger: lg, Whole: "t2c", TgtEOFWithData: true})
			if !fo {
				cfgs = append(cfgs, c06Cfg{Name: "race-close" + sfx, AppSend: []string{"a", "bcd"}, TgtSend: []string{"x", "yz0"}, AppClose: "after-writes", TgtClose: "after-writes", Logger: lg, TgtEOFWithData: true})
			}
		}
	}
	// the history of Reads: the application's first Read times out (with fast open: while the
	// server's dial is still pending, before the response exists), the deadline is lifted and the
	// application reads on; fast-open on and off, target-to-client only and both directions. Added
	// after the independently seeded change C06-10 (tcpConn.Read set Established before parsing the
	// lazily read response: after a timed-out first Read the raw response frame reached the
	// application as target data). Cheap, so early.
	for _, fo := range []bool{true, false} {
		sfx := fmt.Sprintf("/fastopen=%v/logger=true/first-read-times-out", fo)
		cfgs = append(cfgs,
			c06Cfg{Name: "t2c" + sfx, TgtSend: []string{"x", "yz0"}, TgtClose: "after-writes", AppClose: "never", FastOpen: fo, Logger: true, Whole: "t2c", FirstReadTimesOut: true},
			c06Cfg{Name: "both-appcloses" + sfx, AppSend: []string{"a", "bcd"}, TgtSend: []string{"xyz"}, AppClose: "after-reading-all", TgtClose: "never", FastOpen: fo, Logger: true, Whole: "both", FirstReadTimesOut: true},
		)
		if fo {
			cfgs = append(cfgs,
				c06Cfg{Name: "both-tgtcloses" + sfx, AppSend: []string{"abc"}, TgtSend: []string{"x", "yz0"}, TgtClose: "after-reading-all", AppClose: "never", FastOpen: fo, Logger: true, Whole: "both", FirstReadTimesOut: true},
				c06Cfg{Name: "t2c/fastopen=true/logger=false/first-read-times-out", TgtSend: []string{"x", "yz0"}, TgtClose: "after-writes", AppClose: "never", FastOpen: fo, Whole: "t2c", FirstReadTimesOut: true},
			)
		}
	}
	// the number of empty reads (0, nil) of the outbound connection over the life of one relay
	// direction, never two in a row: one before each of N one-byte chunks of the target. Boundary
	// sweep over N (quick: a handful around the powers of two and the hundreds, thorough: every N up
	// to 300) on the default schedule, logger present and absent (fast path), fast-open, with and
	// without client data flowing the other way; N=3 also under schedule deviations. Added after the
	// independently seeded change C06-11 (copyBufferLog counted empty reads over the whole connection
	// without resetting after a successful read and gave up with io.ErrNoProgress at the 100th).
	ers := []int{1, 2, 31, 32, 33, 63, 64, 65, 98, 99, 100, 101, 127, 128, 129, 199, 200, 201, 255, 256, 257, 299, 300}
	if thorough {
		ers = nil
		for n := 1; n <= 300; n++ {
			ers = append(ers, n)
		}
	}
	for _, lg := range []bool{true, false} {
		cfgs = append(cfgs, c06Cfg{Name: fmt.Sprintf("t2c/fastopen=false/logger=%v/target-empty-reads-sweep", lg), TgtClose: "after-writes", AppClose: "never", Logger: lg, Whole: "t2c", TgtEmptyReads: ers})
	}
	cfgs = append(cfgs,
		c06Cfg{Name: "t2c/fastopen=true/logger=true/target-empty-reads-sweep", TgtClose: "after-writes", AppClose: "never", FastOpen: true, Logger: true, Whole: "t2c", TgtEmptyReads: ers},
		c06Cfg{Name: "both-tgtcloses/fastopen=false/logger=true/target-empty-reads-sweep", AppSend: []string{"abc"}, TgtClose: "after-reading-all", AppClose: "never", Logger: true, Whole: "both", TgtEmptyReads: ers},
		c06Cfg{Name: "t2c/fastopen=false/logger=true/target-empty-reads=3", TgtClose: "after-writes", AppClose: "never", Logger: true, Whole: "t2c", TgtEmptyReads: []int{3}},
	)
	for _, fo := range []bool{false, true} {
		for _, lg := range []bool{false, true} {
			sfx := fmt.Sprintf("/fastopen=%v/logger=%v", fo, lg)
			cfgs = append(cfgs,
				c06Cfg{Name: "c2t" + sfx, AppSend: []string{"a", "bcd"}, AppClose: "after-writes", TgtClose: "never", FastOpen: fo, Logger: lg, Whole: "c2t"},
				c06Cfg{Name: "t2c" + sfx, TgtSend: []string{"x", "yz0"}, TgtClose: "after-writes", AppClose: "never", FastOpen: fo, Logger: lg, Whole: "t2c"},
				c06Cfg{Name: "both-appcloses" + sfx, AppSend: []string{"a", "bcd"}, TgtSend: []string{"xyz"}, AppClose: "after-reading-all", TgtClose: "never", FastOpen: fo, Logger: lg, Whole: "both"},
				c06Cfg{Name: "both-tgtcloses" + sfx, AppSend: []string{"abc"}, TgtSend: []string{"x", "yz0"}, TgtClose: "after-reading-all", AppClose: "never", FastOpen: fo, Logger: lg, Whole: "both"},
				c06Cfg{Name: "race-close" + sfx, AppSend: []string{"a", "bcd"}, TgtSend: []string{"x", "yz0"}, AppClose: "after-writes", TgtClose: "after-writes", FastOpen: fo, Logger: lg},
				c06Cfg{Name: "dialerr" + sfx, AppSend: []string{"a"}, AppClose: "never", TgtClose: "never", FastOpen: fo, Logger: lg, DialErr: "connection refused by policy"},
			)
			cfgs = append(cfgs,
				c06Cfg{Name: "t2c-readlate" + sfx, TgtSend: []string{"x", "yz0"}, TgtClose: "after-writes", AppClose: "never", FastOpen: fo, Logger: lg, Whole: "t2c", ReadLate: true},
				c06Cfg{Name: "both-readlate" + sfx, AppSend: []string{"abc"}, TgtSend: []string{"xyz"}, AppClose: "after-reading-all", TgtClose: "never", FastOpen: fo, Logger: lg, Whole: "both", ReadLate: true},
			)
			if lg {
				for k := 1; k <= 3; k++ {
					cfgs = append(cfgs, c06Cfg{Name: fmt.Sprintf("veto%d%s", k, sfx), AppSend: []string{"a", "bcd"}, TgtSend: []string{"x", "yz0"}, AppClose: "never", TgtClose: "never", FastOpen: fo, Logger: true, VetoAt: k})
				}
			}
		}
	}
	// a configured request hook that declines the request (added after the seeded change C06-4: the
	// responses were skipped whenever a hook was configured, intercepting or not)
	for _, fo := range []bool{false, true} {
		sfx := fmt.Sprintf("/fastopen=%v/declining-hook", fo)
		cfgs = append(cfgs,
			c06Cfg{Name: "both-tgtcloses" + sfx, AppSend: []string{"abc"}, TgtSend: []string{"x", "yz0"}, TgtClose: "after-reading-all", AppClose: "never", FastOpen: fo, Logger: true, Whole: "both", DecliningHook: true},
			c06Cfg{Name: "t2c-readlate" + sfx, TgtSend: []string{"x", "yz0"}, TgtClose: "after-writes", AppClose: "never", FastOpen: fo, Logger: true, Whole: "t2c", ReadLate: true, DecliningHook: true},
			c06Cfg{Name: "dialerr" + sfx, AppSend: []string{"a"}, AppClose: "never", TgtClose: "never", FastOpen: fo, Logger: true, DialErr: "connection refused by policy", DecliningHook: true},
		)
	}
	// the outbound connection is TCP-like (ReaderFrom/WriterTo)
	for k := 1; k <= 3; k++ {
		cfgs = append(cfgs, c06Cfg{Name: fmt.Sprintf("veto%d/tcp-like-target", k), AppSend: []string{"a", "bcd"}, TgtSend: []string{"x", "yz0"}, AppClose: "never", TgtClose: "never", Logger: true, VetoAt: k, TCPLike: true})
	}
	cfgs = append(cfgs,
		c06Cfg{Name: "both-tgtcloses/tcp-like-target", AppSend: []string{"abc"}, TgtSend: []string{"x", "yz0"}, TgtClose: "after-reading-all", AppClose: "never", Logger: true, Whole: "both", TCPLike: true},
		c06Cfg{Name: "c2t/nologger/tcp-like-target", AppSend: []string{"a", "bcd"}, AppClose: "after-writes", TgtClose: "never", Whole: "c2t", TCPLike: true},
		c06Cfg{Name: "t2c/nologger/tcp-like-target", TgtSend: []string{"x", "yz0"}, TgtClose: "after-writes", AppClose: "never", Whole: "t2c", TCPLike: true},
	)
	// every address length and dial-error message length around the frame's varint boundaries
	var lens, elens []int
	for n := 4; n <= 130; n++ {
		lens = append(lens, n)
	}
	lens = append(lens, 255, 256, 257, 1023, 1024, 2047, 2048)
	for n := 1; n <= 130; n++ {
		elens = append(elens, n)
	}
	elens = append(elens, 255, 256, 1024, 2047, 2048)
	for _, fo := range []bool{false, true} {
		sfx := fmt.Sprintf("/fastopen=%v", fo)
		cfgs = append(cfgs,
			c06Cfg{Name: "address-lengths-both" + sfx, AppSend: []string{"abc"}, TgtSend: []string{"x", "yz0"}, TgtClose: "after-reading-all", AppClose: "never", FastOpen: fo, Logger: true, Whole: "both", AddrLens: lens},
			c06Cfg{Name: "address-lengths-c2t" + sfx, AppSend: []string{"a", "bcd"}, AppClose: "after-writes", TgtClose: "never", FastOpen: fo, Logger: true, Whole: "c2t", AddrLens: lens},
			c06Cfg{Name: "dial-error-lengths" + sfx, AppSend: []string{"a"}, AppClose: "never", TgtClose: "never", FastOpen: fo, Logger: true, DialErr: "x", DialErrLens: elens},
		)
	}
	// small windows and short reads (cursor/offset logic of the copy loops)
	cfgs = append(cfgs,
		c06Cfg{Name: "c2t-window2-chunks", AppSend: []string{"abcde", "fg"}, AppClose: "after-writes", TgtClose: "never", Logger: true, Whole: "c2t", Window: 2, Chunks: true},
		c06Cfg{Name: "t2c-window2-chunks", TgtSend: []string{"vwxyz", "01"}, TgtClose: "after-writes", AppClose: "never", Logger: true, Whole: "t2c", Window: 2, Chunks: true},
	)
	if thorough {
		big := strings.Repeat("0123456789abcdef", 2560) // 40960 bytes: crosses the 32 KiB copy buffer
		cfgs = append(cfgs,
			c06Cfg{Name: "c2t-40k", AppSend: []string{big, "tail"}, AppClose: "after-writes", TgtClose: "never", Logger: true, Whole: "c2t"},
			c06Cfg{Name: "t2c-40k", TgtSend: []string{big, "tail"}, TgtClose: "after-writes", AppClose: "never", Logger: true, Whole: "t2c"},
		)
	}
	// one large Write on the proxied connection that times out part-way behind flow control and is
	// resumed (write_deadline_test.go; added after the independently seeded change C06-13: QStream.Write
	// in 256 KiB pieces under-reported a partial write). Cheap, so first: they must not fall behind
	// the deadline on a loaded machine.
	scs := c06WriteDeadlineScenarios(thorough)
	for _, c := range cfgs {
		c := c
		// sized with explore.Probe: ~270 alternatives per default schedule (window scenarios ~1200)
		q := explore.Bounds{P: 1, E: 1}
		t := explore.Bounds{P: 2, E: 1}
		core := !c.FastOpen && c.Logger && !c.TgtEOFWithData && c.TgtEmptyReads == nil && (strings.HasPrefix(c.Name, "c2t/") || strings.HasPrefix(c.Name, "t2c/") || strings.HasPrefix(c.Name, "race-close/") || strings.HasPrefix(c.Name, "veto2/"))
		if core {
			q = explore.Bounds{P: 2, E: 1}
			t = explore.Bounds{P: 3, E: 1, MaxExec: 3000000}
		}
		if strings.Contains(c.Name, "window") {
			q, t = explore.Bounds{P: 1, E: 1}, explore.Bounds{P: 2, E: 1, MaxExec: 2000000}
		}
		if c.AddrLens != nil || c.DialErrLens != nil {
			q, t = explore.Bounds{P: 0}, explore.Bounds{P: 1}
		}
		if len(c.TgtEmptyReads) > 1 {
			// the sweep over the number of empty reads: every N on the default schedule
			q, t = explore.Bounds{P: 0}, explore.Bounds{P: 0}
		}
		if strings.Contains(c.Name, "40k") {
			q, t = explore.Bounds{P: 1}, explore.Bounds{P: 1, E: 1}
		}
		scs = append(scs, &explore.Scenario{Name: c.Name, Quick: q, Thorough: t, Body: func(e *vsched.Exec) { c06Run(e, c) }})
	}
	return append(scs, c06OverlapScenarios()...)
}

func TestVerifC06(t *testing.T) {
	explore.Main(t, "C06", c06Scenarios(strings.Contains(strings.ToLower(rigGetenvTier()), "thorough")))
}

func TestVerifC06Probe(t *testing.T) {
	for _, l := range explore.Probe(c06Scenarios(false)) {
		fmt.Println(l)
	}
}

var _ = io.EOF

func TestVerifC06Det(t *testing.T) {
	for _, sc := range c06Scenarios(false) {
		if strings.Contains(sc.Name, "window") {
			fmt.Println(sc.Name, explore.Determinism(sc))
		}
	}
}
