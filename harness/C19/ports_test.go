package utils

// C19 harness, unit "ports" (injected by overlay into extras/utils): bounded-exhaustive
// enumeration of port expressions on the real ParsePortUnion / Normalize / Ports / Contains,
// against a reference union computed by plain set arithmetic on a 65536-bit set.

import (
	"encoding/json"
	"fmt"
	"math/bits"
	"runtime/debug"
	"strings"
	"testing"

	"verif.local/engine/evidence"
)

// boundary alphabet of port values (from the code: uint16 limits, +1 adjacency in Normalize)
var c19Vals = []int{0, 1, 2, 3, 10, 11, 12, 65534, 65535}

// probes for Contains: the alphabet, its +-1 neighbours and two interior values
var c19Probes = []uint16{0, 1, 2, 3, 4, 5, 9, 10, 11, 12, 13, 14, 100, 32768, 65532, 65533, 65534, 65535}

// expressions outside the item grammar (plus the two wildcards)
var c19Extras = []string{
	"all", "*", "", "1-", "-1", "1-2-3", "a", "65536", " 1", "1 ", "1, 2",
	",", ",1", "1,", "1,,2", ",1,2", "1,2,", ",,",
	"-", "1--2", "65536-65537", "0-65536", "65536-1", "1-a", "a-1", "4294967297", "1-4294967297", "1-65537",
	"18446744073709551617", "-1-2", "1,-", "+1", "1-+2", "0x10", "1.0",
	// documentation silent: wildcard used as an item (recorded, not gated)
	"all,1", "1,*", "ALL",
}

type c19Set [1024]uint64

func (s *c19Set) addRange(a, b int) {
	for p := a; p <= b; {
		if p&63 == 0 && p+63 <= b {
			s[p>>6] = ^uint64(0)
			p += 64
			continue
		}
		s[p>>6] |= 1 << uint(p&63)
		p++
	}
}
func (s *c19Set) has(p int) bool { return s[p>>6]&(1<<uint(p&63)) != 0 }
func (s *c19Set) count() int {
	n := 0
	for _, w := range s {
		n += bits.OnesCount64(w)
	}
	return n
}

// runs returns the maximal runs of consecutive members, ascending (the canonical range list).
func (s *c19Set) runs() [][2]int {
	var r [][2]int
	start := -1
	for w := 0; w < 1024; w++ {
		x := s[w]
		if x == 0 {
			if start >= 0 {
				r = append(r, [2]int{start, w*64 - 1})
				start = -1
			}
			continue
		}
		if x == ^uint64(0) {
			if start < 0 {
				start = w * 64
			}
			continue
		}
		for b := 0; b < 64; b++ {
			p := w*64 + b
			if x&(1<<uint(b)) != 0 {
				if start < 0 {
					start = p
				}
			} else if start >= 0 {
				r = append(r, [2]int{start, p - 1})
				start = -1
			}
		}
	}
	if start >= 0 {
		r = append(r, [2]int{start, 65535})
	}
	return r
}

func c19Digits(s string) bool {
	if s == "" {
		return false
	}
	for i := 0; i < len(s); i++ {
		if s[i] < '0' || s[i] > '9' {
			return false
		}
	}
	return true
}

// c19Port: a port is a decimal number 0..65535 (no sign, no blanks).
func c19Port(s string) (int, bool) {
	if !c19Digits(s) || len(s) > 20 {
		return 0, false
	}
	v := 0
	for i := 0; i < len(s); i++ {
		v = v*10 + int(s[i]-'0')
		if v > 65535 {
			return 0, false
		}
	}
	return v, true
}

type c19Ref struct {
	valid    bool
	silent   string // non-empty: the documentation does not decide this input (why)
	set      c19Set // union; reversed ranges a-b (a>b) taken as [b,a]
	setEmpty c19Set // union; reversed ranges taken as empty
	literal  PortUnion
}

// c19Reference decides validity and the denoted set from the documented grammar:
// "a string of comma-separated port ranges (or single ports)"; "all" / "*" = every port;
// "Returns nil if the input is invalid".
func c19Reference(s string) *c19Ref {
	r := &c19Ref{}
	if s == "all" || s == "*" {
		r.valid = true
		r.set.addRange(0, 65535)
		r.setEmpty = r.set
		r.literal = PortUnion{{0, 65535}}
		return r
	}
	r.valid = true
	for _, it := range strings.Split(s, ",") {
		if it == "all" || it == "*" {
			r.silent = "wildcard as a list item"
			continue
		}
		if p, ok := c19Port(it); ok {
			r.set.addRange(p, p)
			r.setEmpty.addRange(p, p)
			r.literal = append(r.literal, PortRange{uint16(p), uint16(p)})
			continue
		}
		i := strings.IndexByte(it, '-')
		if i < 0 {
			r.valid = false
			continue
		}
		a, ok1 := c19Port(it[:i])
		b, ok2 := c19Port(it[i+1:])
		if !ok1 || !ok2 {
			r.valid = false
			continue
		}
		if a > b {
			if r.silent == "" {
				r.silent = "reversed range"
			}
			r.set.addRange(b, a)
			continue
		}
		r.set.addRange(a, b)
		r.setEmpty.addRange(a, b)
		r.literal = append(r.literal, PortRange{uint16(a), uint16(b)})
	}
	if !r.valid {
		r.silent = ""
	}
	return r
}

// c19CheckUnion checks a result against a reference set: canonical range list (sorted, merged
// overlapping AND adjacent), Ports() strictly ascending and equal to the set, Contains on probes.
func c19CheckUnion(got PortUnion, ref *c19Set, runs [][2]int, what string, ports bool) string {
	if len(got) != len(runs) {
		return fmt.Sprintf("%s: range list %v is not the merged, sorted union %v", what, got, runs)
	}
	for i, g := range got {
		if int(g.Start) != runs[i][0] || int(g.End) != runs[i][1] {
			return fmt.Sprintf("%s: range list %v is not the merged, sorted union %v", what, got, runs)
		}
	}
	if !ports {
		return ""
	}
	return c19CheckPortsMemo(got, ref, what)
}

// c19CheckPortsMemo: quick tier: Ports()/Contains are pure functions of the range list
// (portunion.go has no package state), so a wide union whose exact range list was already
// expanded and compared with the same set is not expanded again. (The reference set is itself
// determined by the range list here: callers have either just verified that the list is the
// canonical run list of ref, or derived ref from the list.)
func c19CheckPortsMemo(got PortUnion, ref *c19Set, what string) string {
	if c19Memo != nil && len(got) <= 4 {
		wide := 0
		var key [4]PortRange
		for i, g := range got {
			wide += int(g.End) - int(g.Start) + 1
			key[i] = g
		}
		if wide > 4096 {
			if c19Memo[key] {
				c19MemoHits++
				return ""
			}
			c := c19CheckPorts(got, ref, what)
			if c == "" {
				c19Memo[key] = true
			}
			return c
		}
	}
	return c19CheckPorts(got, ref, what)
}

// c19Memo (quick tier only; nil in the thorough tier where every case expands Ports()).
var (
	c19Memo     map[[4]PortRange]bool
	c19MemoHits int64
)

func c19CheckPorts(got PortUnion, ref *c19Set, what string) string {
	ports := got.Ports()
	// the ascending enumeration of the reference set is the only sorted duplicate-free slice
	// denoting it: compare element by element
	k := 0
	for w := 0; w < 1024; w++ {
		x := ref[w]
		if x == 0 {
			continue
		}
		for b := 0; b < 64; b++ {
			if x&(1<<uint(b)) == 0 {
				continue
			}
			v := w*64 + b
			if k >= len(ports) {
				return fmt.Sprintf("%s: Ports() has %d ports, the union has %d (first missing: %d)", what, len(ports), ref.count(), v)
			}
			if int(ports[k]) != v {
				switch {
				case k > 0 && ports[k] <= ports[k-1]:
					return fmt.Sprintf("%s: Ports() not strictly ascending (duplicate or unsorted) at %d after %d", what, ports[k], ports[k-1])
				case !ref.has(int(ports[k])):
					return fmt.Sprintf("%s: Ports() contains %d which is not in the union", what, ports[k])
				}
				return fmt.Sprintf("%s: Ports() has %d at position %d where the union's next member is %d (port missing)", what, ports[k], k, v)
			}
			k++
		}
	}
	if k != len(ports) {
		return fmt.Sprintf("%s: Ports() has %d ports, the union has %d (extra: %d)", what, len(ports), k, ports[k])
	}
	for _, p := range c19Probes {
		if got.Contains(p) != ref.has(int(p)) {
			return fmt.Sprintf("%s: Contains(%d)=%v but membership in the union is %v", what, p, got.Contains(p), ref.has(int(p)))
		}
	}
	return ""
}

// c19RunExpr runs one expression; returns the violated clause ("" = ok) and an outcome class.
func c19RunExpr(s string) (clause, class string) {
	val, stack := evidence.Catch(func() { clause, class = c19RunExprInner(s) })
	if val != nil {
		return fmt.Sprintf("panic: %v at %s", val, evidence.PanicSite(stack)), "panic"
	}
	return
}

func c19RunExprInner(s string) (string, string) {
	ref := c19Reference(s)
	got := ParsePortUnion(s)
	switch {
	case !ref.valid:
		if got != nil {
			return fmt.Sprintf("invalid expression accepted: ParsePortUnion(%q)=%v, want nil", s, got), "invalid"
		}
		return "", "invalid"
	case ref.silent != "":
		// not gated on the denotation; internal consistency (Ports sorted/dup-free, Contains
		// agrees with Ports) is still required of whatever is returned
		var own c19Set
		for _, r := range got {
			if r.Start <= r.End {
				own.addRange(int(r.Start), int(r.End))
			}
		}
		beh := "other"
		switch {
		case got == nil:
			beh = "nil"
		case own == ref.set:
			beh = "swapped"
		case own == ref.setEmpty:
			beh = "empty"
		}
		if got != nil {
			if c := c19CheckPortsMemo(got, &own, "self-consistency"); c != "" {
				return c, "silent"
			}
		}
		return "", "silent:" + ref.silent + ":" + beh
	}
	if got == nil {
		return fmt.Sprintf("valid expression rejected: ParsePortUnion(%q)=nil", s), "valid"
	}
	runs := ref.set.runs()
	if c := c19CheckUnion(got, &ref.set, runs, "ParsePortUnion", true); c != "" {
		return c, "valid"
	}
	// Normalize applied directly to the literal (unsorted, unmerged) range list, and idempotence
	lit := append(PortUnion(nil), ref.literal...)
	n1 := lit.Normalize()
	if c := c19CheckUnion(n1, &ref.set, runs, "Normalize(literal ranges)", false); c != "" {
		return c, "valid"
	}
	n2 := append(PortUnion(nil), n1...).Normalize()
	if c := c19CheckUnion(n2, &ref.set, runs, "Normalize(Normalize(x))", false); c != "" {
		return c, "valid"
	}
	return "", fmt.Sprintf("valid:%d", len(got))
}

func c19ClauseKind(clause string) string {
	for _, k := range []string{"range list", "Ports() not strictly", "Ports() contains", "Ports() has", "Contains(", "invalid expression accepted", "valid expression rejected", "panic"} {
		if strings.Contains(clause, k) {
			what := ""
			if i := strings.IndexByte(clause, ':'); i > 0 && i < 30 && !strings.HasPrefix(clause, "panic") {
				what = clause[:i] + " "
				if strings.Contains(what, k) {
					what = ""
				}
			}
			return what + k
		}
	}
	return clause
}

func c19ItemStrings() []string {
	var items []string
	for _, p := range c19Vals {
		items = append(items, fmt.Sprint(p))
	}
	for _, p := range c19Vals {
		for _, q := range c19Vals {
			items = append(items, fmt.Sprintf("%d-%d", p, q))
		}
	}
	return items
}

func c19EnumeratePorts(sh *evidence.Shard) {
	debug.SetGCPercent(300) // Ports() of wide ranges allocates 128 KiB slices per case
	env := sh.Env()
	if !env.Thorough() {
		c19Memo = map[[4]PortRange]bool{}
	}
	var item int64
	perKind := map[string]int{}
	run := func(p *evidence.Part, s string) {
		item++
		if !env.Mine(item) {
			return
		}
		p.Evaluations++
		clause, class := c19RunExpr(s)
		nItems := strings.Count(s, ",") + 1
		p.Class(p.Name, class, nItems, clause == "", c19Shape(s))
		if strings.HasPrefix(class, "silent:") {
			p.Count("undocumented_"+strings.ReplaceAll(strings.TrimPrefix(class, "silent:"), " ", "_"), 1)
		}
		if p.Evaluations%9973 == 7 || p.Name == "extras" && p.Evaluations%11 == 3 {
			p.Sample(map[string]any{"expr": s, "class": class})
		}
		if clause != "" {
			k := p.Name + "/" + c19ClauseKind(clause)
			perKind[k]++
			if perKind[k] <= 2 { // simplest first: keep the minimal cases of each failing clause
				sh.Violate(p.Name, k+"/expr="+s, clause, map[string]string{"expr": s})
			} else {
				p.Count("further_violations_not_written", 1)
			}
		}
	}
	silentNote := "documentation silent on reversed ranges (a-b with a>b) and on a wildcard used as a list item: behaviour recorded in counters undocumented_<case>:<nil|swapped|empty|other>, only self-consistency is gated there"

	px := sh.Part("extras", "enum")
	px.Alphabet = c19Extras
	px.Note("%s", silentNote)
	for _, s := range c19Extras {
		run(px, s)
	}

	items := c19ItemStrings()
	alpha := map[string]any{"port_values": c19Vals, "items": "p | p-q over the port values (90 items)", "contains_probes": c19Probes}
	p1 := sh.Part("expr-1-item", "enum")
	p1.Alphabet = alpha
	for _, a := range items {
		run(p1, a)
	}
	p2 := sh.Part("expr-2-items", "enum")
	p2.Alphabet = alpha
	for _, a := range items {
		for _, b := range items {
			run(p2, a+","+b)
		}
	}
	p3 := sh.Part("expr-3-items", "enum")
	p3.Alphabet = alpha
	p3.Note("%s", silentNote)
	stop := false
	for _, a := range items {
		for _, b := range items {
			if env.Expired() {
				stop = true
				break
			}
			for _, c := range items {
				run(p3, a+","+b+","+c)
			}
		}
		if stop {
			p3.Exhaustive = false
			p3.Note("deadline reached inside the 3-item expressions (1- and 2-item expressions and extras complete)")
			break
		}
	}
	if c19Memo != nil {
		p3.Count("wide_union_ports_expansions_memoised", c19MemoHits)
		p3.Note("quick tier: for unions wider than 4096 ports Ports()/Contains are expanded once per distinct resulting range list (range list itself compared in every case); the thorough tier expands every case")
	}
}

// c19Shape: structural shape of an expression (item kinds and order relations), for class counting.
func c19Shape(s string) string {
	var b strings.Builder
	for _, it := range strings.Split(s, ",") {
		i := strings.IndexByte(it, '-')
		switch {
		case i < 0:
			b.WriteByte('p')
		default:
			x, ok1 := c19Port(it[:i])
			y, ok2 := c19Port(it[i+1:])
			switch {
			case !ok1 || !ok2:
				b.WriteByte('?')
			case x < y:
				b.WriteByte('<')
			case x == y:
				b.WriteByte('=')
			default:
				b.WriteByte('>')
			}
		}
	}
	return b.String()
}

func c19ReplayPorts(part string, raw json.RawMessage) (bool, bool, string) {
	switch part {
	case "extras", "expr-1-item", "expr-2-items", "expr-3-items":
	default:
		return false, false, ""
	}
	var c map[string]string
	if err := json.Unmarshal(raw, &c); err != nil {
		return true, false, err.Error()
	}
	clause, _ := c19RunExpr(c["expr"])
	return true, clause != "", fmt.Sprintf("expr=%q: %s", c["expr"], clause)
}

func TestVerifC19Ports(t *testing.T) {
	evidence.Main(t, "C19", evidence.Seq{Run: c19EnumeratePorts, Replay: c19ReplayPorts})
}
