package udphop

// C19 harness, unit "hop" (injected by overlay into extras/transport/udphop, instrumented:
// vsync, vchan, vtime, vrand, vsched.Go): the real udpHopPacketConn over a fake ListenUDPFunc
// that hands out vnet sockets (census of every socket ever created), under the controlled
// scheduler. The hop timer is the virtual clock; whether a listen fails, which port index is
// drawn at a hop and the jitter draw are environment choices.
//
// Harness notes (false alarms fixed in the harness, oracle decisions):
//   - unit ports: the first version built no literal range list for "all"/"*" and reported
//     Normalize(literal) as wrong for the wildcards - harness bug, fixed (c19Reference).
//   - a packet that arrived on a socket is required to be delivered only while that socket is
//     still the current or the previous one at the next quiescent point and no Close intervened:
//     a hop landing (as a scheduling deviation) between arrival and the recvLoop's read closes the
//     socket with the datagram still in its buffer - ordinary UDP loss, covered by "until the
//     next hop".
//   - "at most two open between hops" is checked as: at every quiescent point (every other
//     thread blocked, hence the hop loop parked on its timer) exactly the newest two sockets
//     ever created are open; a failed listen creates nothing, so "changes nothing" is the same
//     check. Inside a hop (at socket creation) at most 3.
//   - hop-port and jitter draws are KEnv choices (cost E) except in hop-draws-range-3ports where
//     they are free and every draw sequence is enumerated.
//   - timeouts queued before Close count as "queued before Close" results of ReadFrom.

import (
	"errors"
	"fmt"
	"net"
	"os"
	"strings"
	"syscall"
	"testing"
	"time"

	"verif.local/engine/explore"
	"verif.local/engine/vchan"
	"verif.local/engine/vnet"
	"verif.local/engine/vrand"
	"verif.local/engine/vsched"
	"verif.local/engine/vsync"
	"verif.local/engine/vtime"
)

const (
	c19S = int64(time.Second)
	// c19Never as a close time: the closer thread is not started, main closes at the horizon
	c19Never = time.Duration(-1)
)

var c19HopServerIP = net.IPv4(10, 9, 8, 7)

type c19Cfg struct {
	name     string
	portExpr string // resolved through ResolveUDPHopAddr
	iv       HopIntervalConfig
	window   time.Duration // main sleeps window, then inspects the quiescent state; repeated windows times
	windows  int

	writer, reader, setter, injector bool
	// poller: after the first hop the caller lets a read deadline expire and then clears it (what
	// quic-go does to wake its read loop); the reader keeps reading afterwards
	poller     bool
	closeTimes []time.Duration // closer thread: Close after one of these (free choice); nil = no closer
	failChoice bool            // every listen after the first may fail (environment choice)
	failFirst  bool            // the constructor's listen may fail too
	// transportClose: main ends with the shutdown sequence of quic-go's Transport.Close on a conn it
	// does not own followed by hysteria's client Close: SetReadDeadline(now), wait until the reader
	// has seen the timeout and stopped, SetReadDeadline(zero), Close.
	transportClose bool
	// closeErrs: at the moment of the first Close, the Close of the newest socket, of the one before
	// it, of both or of none reports an error (free choice). The sockets are released all the same,
	// as close(2) does; what Close returns is then the implementation's business, what it leaves open
	// is not. (Added after the independently seeded change C19-7: Close returned at the first socket
	// close error, before closing the other socket and before marking the conn closed.)
	closeErrs bool
	// serverHost: the server's IP literal as written in the configuration ("" = 10.9.8.7). "Goes to
	// the server IP" holds for an IPv6 server as well (added after the independently seeded change
	// C19-8: the address list was built from IP.To4(), nil for a genuine IPv6 address).
	serverHost string
	// refuseWrites: the environment's ANSWER to a send - every WriteTo on an inner socket may be
	// refused with one of c19RefuseKinds (environment choice "send-refused": which send, which
	// error), as the local network stack refuses single datagrams; nothing leaves from the refusing
	// socket. "Every packet goes out from the newest local socket" then means that the packet does
	// not leave at all and the caller sees an error. (Added after the independently seeded change
	// C19-10: after a hop, WriteTo answered a non-timeout error of the newest socket by sending the
	// packet from the previous, draining socket and swallowed the error.)
	refuseWrites         bool
	portKind, jitterKind vsched.ChoiceKind
	quick, thorough      explore.Bounds
}

// c19RefuseKinds: the errors an inner socket refuses a datagram with (cfg.refuseWrites): the
// permanent errors a UDP send returns without anything going on the wire, and an expired write
// deadline.
var c19RefuseKinds = []struct {
	name string
	err  error
}{
	{"EPERM", &net.OpError{Op: "write", Net: "udp", Err: os.NewSyscallError("sendto", syscall.EPERM)}},
	{"ENETUNREACH", &net.OpError{Op: "write", Net: "udp", Err: os.NewSyscallError("sendto", syscall.ENETUNREACH)}},
	{"ENOBUFS", &net.OpError{Op: "write", Net: "udp", Err: os.NewSyscallError("sendto", syscall.ENOBUFS)}},
	{"timeout", vnet.ErrTimeout},
}

type c19Inj struct {
	payload string
	sock    int
}

type c19World struct {
	e        *vsched.Exec
	cfg      *c19Cfg
	serverIP net.IP
	set      map[int]bool // configured server ports

	socks       []*vnet.PacketConn // every socket ever created, in creation order
	listenCalls int
	listenFails int
	lastListen  int64 // virtual time of the previous hop attempt (-1: none)

	conn          *udpHopPacketConn
	closeCalled   bool // some thread has entered the first Close
	closeReturned bool // a Close call has returned
	tclosing      bool // transportClose sequence started: the reader stops at the next timeout
	polls         int  // read deadlines the poller let expire so far
	sent          map[string]int
	refused       map[string]error // payload -> the error an inner socket refused it with (cfg.refuseWrites)
	injected      []c19Inj
	injectedSet   map[string]bool
	delivered     map[string]int
	seq           int
}

func (w *c19World) open() int {
	n := 0
	for _, s := range w.socks {
		if !s.Closed() {
			n++
		}
	}
	return n
}

// listen is the fake ListenUDPFunc.
func (w *c19World) listen() (net.PacketConn, error) {
	e := w.e
	w.listenCalls++
	now := e.Now()
	if w.listenCalls > 1 {
		// hop attempts are spaced by at least the minimum interval (the timer is re-armed after
		// the hop; scheduling delay can only lengthen the spacing)
		if w.lastListen >= 0 && now-w.lastListen < int64(w.cfg.iv.Min) {
			e.Fail("hop attempts %.3fs apart, configured minimum interval %v", float64(now-w.lastListen)/1e9, w.cfg.iv.Min)
		}
		w.lastListen = now
	} else {
		w.lastListen = now // (0 in every scenario but the second connection of address-reuse)
	}
	if w.cfg.failChoice && (w.listenCalls > 1 || w.cfg.failFirst) {
		if e.Choose(2, vsched.KEnv, "listen-fail") == 1 {
			w.listenFails++
			e.Logf("listen#%d fails (open=%d)", w.listenCalls, w.open())
			return nil, errors.New("c19: listen failed")
		}
	}
	idx := len(w.socks)
	s := vnet.NewPacketConn(fmt.Sprintf("s%d", idx), 40000+idx)
	s.OnSend = func(_ *vnet.PacketConn, p vnet.Packet) { w.onSend(idx, p) }
	if w.cfg.refuseWrites {
		s.WriteErr = func(_ int, p vnet.Packet) error { return w.refuse(idx, p) }
	}
	w.socks = append(w.socks, s)
	if n := w.open(); n > 3 {
		e.Fail("%d local sockets open inside a hop (after creating s%d); at most 3 transiently", n, idx)
	}
	e.Logf("listen#%d -> s%d (open=%d)", w.listenCalls, idx, w.open())
	return s, nil
}

// refuse is the inner sockets' answer to a WriteTo when cfg.refuseWrites is set: success, or one
// of c19RefuseKinds (environment choice); a refused packet does not leave from that socket.
func (w *c19World) refuse(idx int, p vnet.Packet) error {
	k := w.e.Choose(1+len(c19RefuseKinds), vsched.KEnv, "send-refused")
	if k == 0 {
		return nil
	}
	kind := c19RefuseKinds[k-1]
	if w.refused == nil {
		w.refused = map[string]error{}
	}
	if newest := len(w.socks) - 1; idx != newest {
		w.e.Fail("packet %q offered to socket s%d while the newest local socket is s%d", p.Data, idx, newest)
	}
	w.refused[string(p.Data)] = kind.err
	w.e.Logf("send %s: refused by s%d with %s (created=%d)", p.Data, idx, kind.name, len(w.socks))
	return kind.err
}

// onSend observes every successful WriteTo on an inner socket.
func (w *c19World) onSend(idx int, p vnet.Packet) {
	newest := len(w.socks) - 1
	if idx != newest {
		w.e.Fail("packet %q sent from socket s%d while the newest local socket is s%d", p.Data, idx, newest)
	}
	ua, ok := p.Addr.(*net.UDPAddr)
	switch {
	case !ok:
		w.e.Fail("packet %q sent to %T %v, not a UDP address of the server", p.Data, p.Addr, p.Addr)
	case !ua.IP.Equal(w.serverIP):
		w.e.Fail("packet %q sent to IP %v, server IP is %v", p.Data, ua.IP, w.serverIP)
	case !w.set[ua.Port]:
		w.e.Fail("packet %q sent to port %d which is not in the configured set %s", p.Data, ua.Port, w.cfg.portExpr)
	default:
		w.e.Logf("send %s: s%d -> :%d", p.Data, idx, ua.Port)
	}
	w.sent[string(p.Data)]++
}

// write performs one WriteTo through the hopping conn and checks its result.
func (w *c19World) write(tag string, to net.Addr) {
	w.seq++
	payload := fmt.Sprintf("%s%d", tag, w.seq)
	closedBefore := w.closeReturned
	n, err := w.conn.WriteTo([]byte(payload), to)
	refusedWith := w.refused[payload]
	switch {
	case refusedWith != nil:
		// the newest socket refused the packet: it has not left from any socket and the caller is told
		if w.sent[payload] != 0 {
			w.e.Fail("WriteTo(%s): the newest socket refused the packet (%v) but it was sent all the same (%d times)", payload, refusedWith, w.sent[payload])
		}
		if err == nil {
			w.e.Fail("WriteTo(%s) returned n=%d err=nil although the newest socket refused the packet (%v); the caller must see the send fail", payload, n, refusedWith)
		}
		w.e.Logf("write %s: error %v", payload, err)
	case err == nil:
		if closedBefore {
			w.e.Fail("WriteTo(%s) succeeded after Close had returned", payload)
		}
		if n != len(payload) || w.sent[payload] != 1 {
			w.e.Fail("WriteTo(%s) returned n=%d err=nil but %d packets reached an inner socket", payload, n, w.sent[payload])
		}
	case errors.Is(err, net.ErrClosed):
		if !w.closeCalled {
			w.e.Fail("WriteTo(%s) returned net.ErrClosed before any Close", payload)
		}
		if w.sent[payload] != 0 {
			w.e.Fail("WriteTo(%s) returned net.ErrClosed but the packet was sent", payload)
		}
		w.e.Logf("write %s: closed", payload)
	default:
		if closedBefore {
			w.e.Fail("WriteTo(%s) after Close returned %v, want net.ErrClosed", payload, err)
		} else {
			w.e.Fail("WriteTo(%s) failed: %v", payload, err)
		}
	}
}

// inject delivers one packet to socket idx if it is open (a closed port receives nothing).
func (w *c19World) inject(tag string, idx int) {
	if idx < 0 || idx >= len(w.socks) || w.socks[idx].Closed() {
		return
	}
	w.seq++
	payload := fmt.Sprintf("%s%d@s%d", tag, w.seq, idx)
	w.socks[idx].Inject([]byte(payload), &net.UDPAddr{IP: w.serverIP, Port: 20000})
	w.injected = append(w.injected, c19Inj{payload, idx})
	w.injectedSet[payload] = true
}

// got records one packet returned by ReadFrom.
func (w *c19World) got(who string, b []byte, addr net.Addr) {
	p := string(b)
	w.delivered[p]++
	switch {
	case strings.HasPrefix(p, "late"):
		w.e.Fail("ReadFrom returned packet %q which arrived after Close", p)
	case !w.injectedSet[p]:
		w.e.Fail("ReadFrom returned %q which was never injected (corrupted or invented packet)", p)
	case w.delivered[p] > 1:
		w.e.Fail("ReadFrom returned packet %q twice", p)
	}
	if addr == nil {
		w.e.Fail("ReadFrom returned packet %q with a nil address", p)
	}
	w.e.Logf("%s got %s", who, p)
}

// drain lets the calling thread consume what is queued without blocking.
func (w *c19World) drain(who string) {
	buf := make([]byte, 64)
	for vchan.Len(w.conn.recvQueue) > 0 {
		n, addr, err := w.conn.ReadFrom(buf)
		if err != nil {
			if errors.Is(err, net.ErrClosed) && w.closeCalled {
				return
			}
			var ne net.Error
			if errors.As(err, &ne) && ne.Timeout() && w.polls > 0 {
				continue // a queued read-deadline expiry (poller scenario)
			}
			w.e.Fail("ReadFrom with %d queued packets failed: %v", vchan.Len(w.conn.recvQueue)+1, err)
			return
		}
		w.got(who, buf[:n], addr)
	}
}

// rest inspects a quiescent state: every other thread is blocked, so the hop loop is parked on
// its timer (no hop in progress).
func (w *c19World) rest(where string) {
	e := w.e
	e.WaitIdle()
	if w.closeCalled {
		if !w.closeReturned {
			e.Fail("%s: Close entered but not returned while every thread is blocked", where)
		}
		return
	}
	w.drain("main")
	n := len(w.socks)
	for i, s := range w.socks {
		wantOpen := i >= n-2
		if s.Closed() == wantOpen {
			if wantOpen {
				e.Fail("%s: between hops socket s%d (one of the newest two of %d) is closed; current and previous socket must stay open", where, i, n)
			} else {
				e.Fail("%s: between hops %d sockets open, s%d (of %d created) was never closed; at most two stay open", where, w.open(), i, n)
			}
		}
	}
	// every packet that arrived on a socket that is still the current or the previous one has
	// been delivered (all threads are idle, nothing is in flight)
	for _, in := range w.injected {
		if in.sock >= n-2 && w.delivered[in.payload] == 0 {
			e.Fail("%s: packet %s arrived on s%d (newest is s%d, no Close) but ReadFrom never delivered it", where, in.payload, in.sock, n-1)
		}
	}
	e.Logf("%s: t=%.1fs created=%d open=%d fails=%d", where, float64(e.Now())/1e9, n, w.open(), w.listenFails)
}

// probe: at a quiescent point send one packet and let one packet arrive on the current and on
// the previous socket; rest() then demands their delivery unless a hop or Close intervened.
func (w *c19World) probe(k int) {
	if w.closeCalled {
		return
	}
	w.write(fmt.Sprintf("probe%d-", k), &net.UDPAddr{IP: net.IPv4(9, 9, 9, 9), Port: 9})
	n := len(w.socks)
	w.inject("cur", n-1)
	w.inject("prev", n-2)
	w.rest(fmt.Sprintf("after-probe%d", k))
}

// afterClose: the final-state oracle, run by main after a Close has returned.
func (w *c19World) afterClose() {
	e := w.e
	e.WaitIdle()
	for i, s := range w.socks {
		if !s.Closed() {
			e.Fail("after Close returned socket s%d (of %d ever created) is still open", i, len(w.socks))
		}
	}
	// the conn's own goroutines (recvLoops, hopLoop) are gone once everything is idle after Close
	var stuck []string
	for _, a := range e.Alive() {
		if strings.Contains(a, "conn.go:") {
			stuck = append(stuck, a)
		}
	}
	if len(stuck) > 0 {
		if w.cfg.transportClose && !c19GateGoroutineLeak() {
			e.Logf("OBSERVATION goroutines of the conn blocked for ever after Close: %s", strings.Join(stuck, " | "))
		} else {
			e.Fail("goroutines of the conn still blocked after Close returned and everything is idle: %s", strings.Join(stuck, " | "))
		}
	}
	if w.cfg.transportClose {
		return // the queue holds timeout results; draining it would release the blocked goroutines
	}
	// packets arriving now must never be returned
	for i, s := range w.socks {
		s.Inject([]byte(fmt.Sprintf("late@s%d", i)), &net.UDPAddr{IP: w.serverIP, Port: 20000})
	}
	e.WaitIdle()
	w.write("post-close-", w.conn.Addr)
	// ReadFrom never blocks; packets queued before Close may still come out; once the queue is
	// empty the result is net.ErrClosed
	buf := make([]byte, 64)
	for i := 0; i < 3 && vchan.Len(w.conn.recvQueue) > 0; i++ {
		n, addr, err := w.conn.ReadFrom(buf)
		if err == nil {
			w.got("main(post-close)", buf[:n], addr)
		} else if !errors.Is(err, net.ErrClosed) {
			e.Fail("ReadFrom after Close returned %v, want a queued packet or net.ErrClosed", err)
		}
	}
	if vchan.Len(w.conn.recvQueue) == 0 {
		if _, _, err := w.conn.ReadFrom(buf); !errors.Is(err, net.ErrClosed) {
			e.Fail("ReadFrom after Close with an empty queue returned err=%v, want net.ErrClosed", err)
		}
	}
	if err := w.conn.Close(); err != nil {
		e.Fail("second Close returned %v, want nil", err)
	}
	for i, s := range w.socks {
		if !s.Closed() {
			e.Fail("after the second Close socket s%d is open", i)
		}
	}
	e.WaitIdle()
	if alive := e.Alive(); len(alive) > 0 {
		e.Logf("threads alive after Close: %s", strings.Join(alive, " | "))
	}
	e.Logf("end: created=%d listens=%d fails=%d injected=%d", len(w.socks), w.listenCalls, w.listenFails, len(w.injected))
}

// c19GateGoroutineLeak: VERIF_C19_GATE_LEAK=1 turns the goroutine-leak observation of the
// transport-close scenarios (see c19TransportCloseScenario) into a reported violation.
func c19GateGoroutineLeak() bool { return os.Getenv("VERIF_C19_GATE_LEAK") == "1" }

func c19Body(cfg *c19Cfg) func(e *vsched.Exec) {
	return func(e *vsched.Exec) {
		w := &c19World{e: e, cfg: cfg, set: map[int]bool{}, sent: map[string]int{}, injectedSet: map[string]bool{}, delivered: map[string]int{}, lastListen: -1}
		vrand.SetSource(e, func(e *vsched.Exec, tag string, bound int64) int64 {
			switch tag {
			case "math/rand.Intn":
				v := e.Choose(int(bound), cfg.portKind, "hop-port")
				e.Logf("draw port index %d of %d", v, bound)
				return int64(v)
			case "math/rand.Int63n":
				if e.Choose(2, cfg.jitterKind, "jitter") == 1 {
					e.Logf("draw jitter max")
					return bound - 1
				}
				e.Logf("draw jitter min")
				return 0
			}
			e.Fail("unexpected random draw %s bound %d", tag, bound)
			return 0
		})
		host := "10.9.8.7"
		if cfg.serverHost != "" {
			host = cfg.serverHost
		}
		w.serverIP = net.ParseIP(strings.Trim(host, "[]"))
		addr, err := ResolveUDPHopAddr(host + ":" + cfg.portExpr)
		if err != nil {
			e.Fail("ResolveUDPHopAddr(%s): %v", cfg.portExpr, err)
			return
		}
		for _, p := range addr.Ports {
			w.set[int(p)] = true
		}
		pc, err := NewUDPHopPacketConn(addr, cfg.iv, w.listen)
		if err != nil {
			if w.listenFails == 0 || len(w.socks) != 0 || pc != nil {
				e.Fail("NewUDPHopPacketConn failed: %v (listen failures %d, sockets %d)", err, w.listenFails, len(w.socks))
			}
			e.WaitIdle()
			return
		}
		w.conn = pc.(*udpHopPacketConn)
		far := vtime.Epoch.Add(time.Hour)
		var wg vsync.WaitGroup // harness threads (the conn's own goroutines are NOT waited for: they must exit by themselves)
		spawn := func(name string, f func()) {
			wg.Add(1)
			vsched.GoNamed(name, func() { defer wg.Done(); f() })
		}

		readerDone := make(chan struct{})
		if cfg.reader {
			spawn("reader", func() {
				defer vchan.Close(readerDone)
				buf := make([]byte, 64)
				for i := 0; i < 64; i++ {
					n, a, err := w.conn.ReadFrom(buf)
					if err != nil {
						if errors.Is(err, net.ErrClosed) {
							if !w.closeCalled {
								e.Fail("ReadFrom returned net.ErrClosed before any Close")
							}
							return
						}
						var ne net.Error
						if errors.As(err, &ne) && ne.Timeout() && w.tclosing {
							e.Logf("reader: timeout, stops")
							return
						}
						if errors.As(err, &ne) && ne.Timeout() && w.polls > 0 {
							e.Logf("reader: read deadline expired, reads on")
							i--
							e.Sleep(int64(2 * time.Millisecond)) // (the caller clears the deadline before it reads again)
							continue
						}
						e.Fail("ReadFrom failed: %v", err)
						return
					}
					w.got("reader", buf[:n], a)
				}
			})
		}
		if cfg.writer {
			spawn("writer", func() {
				w.write("w", w.conn.Addr)
				e.Sleep(int64(cfg.window))
				w.write("w", &net.UDPAddr{IP: net.IPv4(9, 9, 9, 9), Port: 9})
			})
		}
		if cfg.setter {
			spawn("setter", func() {
				_ = w.conn.SetReadDeadline(far)
				_ = w.conn.SetReadBuffer(1 << 20)
				e.Sleep(int64(cfg.window))
				_ = w.conn.SetWriteBuffer(1 << 20)
				_ = w.conn.SetDeadline(far)
				_ = w.conn.SetWriteDeadline(far)
				if la := w.conn.LocalAddr(); la == nil {
					e.Fail("LocalAddr returned nil")
				}
				_, _ = w.conn.SyscallConn()
			})
		}
		if cfg.poller {
			spawn("poller", func() {
				e.Sleep(int64(cfg.window) / 2)
				for k := 0; k < 2; k++ {
					e.Sleep(int64(cfg.window))
					if w.closeCalled {
						return
					}
					w.polls++
					// one read-deadline expiry seen by each open socket (as when the caller sets a
					// deadline that passes and then clears it); injected as a one-shot timeout on the
					// sockets so that the receive loops do not spin on a deadline left in the past
					if n := len(w.socks); n >= 2 && !w.socks[n-2].Closed() {
						w.socks[n-2].FailNextRead(vnet.ErrTimeout)
					}
					if n := len(w.socks); n >= 1 && !w.socks[n-1].Closed() {
						w.socks[n-1].FailNextRead(vnet.ErrTimeout)
					}
					e.Sleep(int64(time.Millisecond))
					// a packet that arrives on the previous socket after the expired deadline was cleared
					w.inject("ipoll", len(w.socks)-2)
					w.inject("ipollcur", len(w.socks)-1)
				}
			})
		}
		if cfg.injector {
			spawn("injector", func() {
				for r := 0; r < 2; r++ {
					n := len(w.socks)
					w.inject("icur", n-1)
					w.inject("iprev", n-2)
					e.Sleep(int64(cfg.window))
				}
			})
		}
		if len(cfg.closeTimes) > 0 {
			at := cfg.closeTimes[e.Choose(len(cfg.closeTimes), vsched.KFree, "close-at")]
			if at != c19Never {
				e.Logf("closer: Close at %v", at)
				spawn("closer", func() {
					e.Sleep(int64(at))
					w.closeCalled = true
					err := w.conn.Close()
					w.closeReturned = true
					if err != nil {
						e.Fail("first Close returned %v", err)
					}
					e.Logf("closer: closed at t=%.1fs created=%d", float64(e.Now())/1e9, len(w.socks))
					w.write("closer-post-", w.conn.Addr)
				})
			}
		}

		w.rest("start")
		for k := 1; k <= cfg.windows && !w.closeCalled; k++ {
			e.Sleep(int64(cfg.window))
			w.rest(fmt.Sprintf("window%d", k))
			w.probe(k)
		}
		if cfg.transportClose && !w.closeCalled {
			w.tclosing = true
			_ = w.conn.SetReadDeadline(vtime.Now())
			vchan.Recv(readerDone)
			_ = w.conn.SetReadDeadline(time.Time{})
			e.Logf("transport closed: queued=%d", vchan.Len(w.conn.recvQueue))
		}
		first := !w.closeCalled
		w.closeCalled = true
		injected := false
		if cfg.closeErrs && first {
			k := e.Choose(4, vsched.KFree, "socket-close-errors")
			for i, s := range w.socks {
				if s.Closed() {
					continue
				}
				newest := i == len(w.socks)-1
				if (k == 1 && newest) || (k == 2 && !newest) || k == 3 {
					s.CloseErr = errors.New("c19: close: input/output error")
					injected = true
				}
			}
			e.Logf("socket close errors: choice %d", k)
		}
		err = w.conn.Close()
		w.closeReturned = true
		if err != nil && !injected {
			e.Fail("Close returned %v (first=%v)", err, first)
		}
		w.afterClose()
		wg.Wait()
		e.WaitIdle()
		for i, s := range w.socks {
			if !s.Closed() {
				e.Fail("at the end socket s%d (of %d ever created) is open", i, len(w.socks))
			}
		}
	}
}

func c19Scenarios() []*explore.Scenario {
	fixed := HopIntervalConfig{Min: 5 * time.Second, Max: 5 * time.Second}
	ranged := HopIntervalConfig{Min: 5 * time.Second, Max: 7 * time.Second}
	q := explore.Bounds{P: 2, E: 1}
	cfgs := []*c19Cfg{
		// reads, writes and arriving packets against two hops
		{name: "hop-rw-fixed-2ports", portExpr: "20000,20002", iv: fixed, window: 5500 * time.Millisecond, windows: 2,
			writer: true, reader: true, injector: true,
			portKind: vsched.KEnv, jitterKind: vsched.KEnv,
			quick: q, thorough: explore.Bounds{P: 3, E: 2, MaxExec: 600000}},
		// three hops, any of the four listens may fail
		{name: "hop-fail-fixed-3ports", portExpr: "20000-20002", iv: fixed, window: 5500 * time.Millisecond, windows: 3,
			reader: true, failChoice: true, failFirst: true,
			portKind: vsched.KEnv, jitterKind: vsched.KEnv,
			quick: q, thorough: explore.Bounds{P: 3, E: 2, MaxExec: 600000}},
		// Close at any point: before start-up completes, just before / at the instant of a hop, later
		{name: "hop-close-fixed-3ports", portExpr: "20000-20002", iv: fixed, window: 5500 * time.Millisecond, windows: 2,
			writer: true, reader: true,
			closeTimes: []time.Duration{c19Never, 0, 5*time.Second - 1, 5 * time.Second, 10 * time.Second},
			portKind:   vsched.KEnv, jitterKind: vsched.KEnv,
			quick: q, thorough: explore.Bounds{P: 3, E: 1, MaxExec: 600000}},
		// deadline / buffer setters and arriving packets, jittered interval, listen failures
		{name: "hop-set-range-2ports", portExpr: "20000-20001", iv: ranged, window: 7500 * time.Millisecond, windows: 2,
			setter: true, reader: true, injector: true, failChoice: true,
			portKind: vsched.KEnv, jitterKind: vsched.KEnv,
			quick: q, thorough: explore.Bounds{P: 3, E: 2, MaxExec: 600000}},
		// a read deadline expires after a hop and is cleared again (the caller's read loop being woken):
		// packets arriving on the previous socket afterwards are still delivered until the next hop
		// (added after the seeded change C19-4: the previous socket's receive loop ended on a timeout)
		{name: "hop-poll-fixed-2ports", portExpr: "20000,20002", iv: fixed, window: 5500 * time.Millisecond, windows: 3,
			reader: true, poller: true,
			portKind: vsched.KEnv, jitterKind: vsched.KEnv,
			quick: explore.Bounds{P: 1, E: 1}, thorough: explore.Bounds{P: 2, E: 2, MaxExec: 600000}},
		// an IPv6 server, and an IPv4 server written in IPv4-mapped form
		{name: "hop-rw-ipv6-server-2ports", portExpr: "20000,20002", iv: fixed, window: 5500 * time.Millisecond, windows: 2,
			writer: true, reader: true, injector: true, serverHost: "[2001:db8::53]",
			portKind: vsched.KEnv, jitterKind: vsched.KEnv,
			quick: explore.Bounds{P: 1, E: 1}, thorough: explore.Bounds{P: 2, E: 2, MaxExec: 600000}},
		{name: "hop-rw-ipv4-mapped-server-2ports", portExpr: "20000,20002", iv: fixed, window: 5500 * time.Millisecond, windows: 2,
			writer: true, reader: true, serverHost: "[::ffff:10.9.8.7]",
			portKind: vsched.KEnv, jitterKind: vsched.KEnv,
			quick: explore.Bounds{P: 0, E: 1}, thorough: explore.Bounds{P: 1, E: 1, MaxExec: 600000}},
		// a socket's Close reports an error at shutdown
		{name: "hop-close-errors-3ports", portExpr: "20000-20002", iv: fixed, window: 5500 * time.Millisecond, windows: 2,
			writer: true, reader: true, closeErrs: true,
			portKind: vsched.KEnv, jitterKind: vsched.KEnv,
			quick: explore.Bounds{P: 1, E: 1}, thorough: explore.Bounds{P: 2, E: 1, MaxExec: 600000}},
		// a send refused by the local socket, before the first hop or after one, two or three hops
		{name: "hop-write-refused-EPERM-ENETUNREACH-ENOBUFS-timeout-3ports", portExpr: "20000-20002", iv: fixed, window: 5500 * time.Millisecond, windows: 3,
			writer: true, reader: true, refuseWrites: true,
			portKind: vsched.KEnv, jitterKind: vsched.KEnv,
			quick: explore.Bounds{P: 1, E: 1}, thorough: explore.Bounds{P: 2, E: 2, MaxExec: 600000}},
		{name: "hop-draws-range-3ports", portExpr: "20000,20001,20005", iv: ranged, window: 7500 * time.Millisecond, windows: 2,
			portKind: vsched.KFree, jitterKind: vsched.KFree,
			quick: explore.Bounds{P: 1, E: 0}, thorough: explore.Bounds{P: 2, E: 0, MaxExec: 600000}},
	}
	var scs []*explore.Scenario
	for _, c := range cfgs {
		scs = append(scs, &explore.Scenario{Name: c.name, Quick: c.quick, Thorough: c.thorough,
			Opt: vsched.Options{HorizonNS: 200 * c19S, MaxSteps: 20000}, Body: c19Body(c)})
	}
	scs = append(scs, c19JitterScenario())
	scs = append(scs, c19ReuseScenario())
	// one directed run (default schedule only) of the transport-close sequence at the REAL queue
	// size; the scaled unit "hop-deadline" explores its schedules
	scs = append(scs, c19TransportCloseScenario(fmt.Sprintf("transport-close-directed-queue%d", packetQueueSize), explore.Bounds{}, explore.Bounds{}))
	return scs
}

// c19TransportCloseScenario: one hop, then the shutdown sequence of quic-go's Transport.Close
// (read deadline := now until the read loop has stopped, then cleared) and Close. Everything
// the property states is gated as in the other scenarios.
//
// OBSERVATION (candidate finding, NOT claimed under C19, not gated unless VERIF_C19_GATE_LEAK=1):
// in the default schedule, at the real packetQueueSize=1024 as well as scaled, a recvLoop
// goroutine stays blocked for ever after Close:
//  1. one hop -> sockets s0 (previous), s1 (current), two recvLoops, a reader in ReadFrom;
//  2. the owner shuts down like core/client/client.go clientImpl.Close: tr.Close() - quic-go
//     Transport.Close on a conn it did not create (transport.go:490-496) calls
//     conn.SetReadDeadline(time.Now()), waits for its read loop, then SetReadDeadline(zero) -
//     followed by pktConn.Close();
//  3. with the deadline in the past conn.ReadFrom in recvLoop (conn.go:126) returns a timeout
//     immediately, every time; recvLoop treats timeouts as non-fatal (conn.go:127-136):
//     `u.recvQueue <- &udpPacket{nil, 0, nil, netErr}; continue` - a BLOCKING send in a loop that
//     no longer blocks in ReadFrom: it spins until the queue is full, then blocks in the send
//     (log line "transport closed: queued=1024");
//  4. the reader sees one timeout and stops, the deadline is cleared, Close (conn.go:256) closes
//     both sockets and closeChan;
//  5. recvLoop is blocked in the channel send, not in ReadFrom: closing its socket does not wake
//     it, the send has no closeChan arm, nobody reads recvQueue any more -> the goroutine (and
//     its buffer, and the queue) is never released; one or two per closed client connection.
//
// Under the Go scheduler the past-deadline window lasts two goroutine hand-offs; the queue fills
// only if recvLoop gets ~1000 iterations (0.1-0.3 ms CPU) inside it - plausible under load.
// Every socket IS closed and reads/writes DO fail, which is all C19 states ("leaks no sockets"),
// hence an observation: the execution log carries "OBSERVATION goroutines of the conn blocked
// for ever after Close: T1(conn.go:106): chan send" and the scenario has LeakOK=true.
// A send with a `case <-u.closeChan: return` arm would remove it.
func c19TransportCloseScenario(name string, quick, thorough explore.Bounds) *explore.Scenario {
	c := &c19Cfg{name: name, portExpr: "20000-20001", iv: HopIntervalConfig{Min: 5 * time.Second, Max: 5 * time.Second},
		window: 5500 * time.Millisecond, windows: 1, reader: true, transportClose: true,
		portKind: vsched.KEnv, jitterKind: vsched.KEnv}
	return &explore.Scenario{Name: name, Quick: quick, Thorough: thorough, LeakOK: !c19GateGoroutineLeak(),
		Opt: vsched.Options{HorizonNS: 200 * c19S, MaxSteps: 40000}, Body: c19Body(c)}
}

// TestVerifC19HopDeadline is the entry point of unit "hop-deadline" (packetQueueSize scaled down
// so that the receive queue can fill within an explorable number of steps).
func TestVerifC19HopDeadline(t *testing.T) {
	explore.Main(t, "C19", []*explore.Scenario{
		c19TransportCloseScenario(fmt.Sprintf("transport-close-queue%d", packetQueueSize), explore.Bounds{P: 2, E: 0}, explore.Bounds{P: 3, E: 1, MaxExec: 600000}),
	})
}

// c19ReuseForm: how the address value of the SECOND connection of c19ReuseScenario relates to the
// one the first connection was built from.
type c19ReuseForm struct {
	name  string
	copy  bool     // built from a struct copy (b := *a) instead of the same *UDPHopAddr
	host  string   // the exported IP is changed to this ("" = unchanged)
	ports []uint16 // the exported Ports are changed to these (nil = unchanged)
}

var c19ReuseForms = []c19ReuseForm{
	{name: "same-unchanged"},
	{name: "same-ip-changed", host: "10.9.8.99"},
	{name: "same-ports-changed-same-count", ports: []uint16{30000, 30002}},
	{name: "same-ip-and-ports-changed", host: "10.9.8.99", ports: []uint16{30000, 30002}},
	{name: "same-ports-changed-other-count", ports: []uint16{30000, 30001, 30002}},
	{name: "copy-unchanged", copy: true},
	{name: "copy-ip-changed", copy: true, host: "10.9.8.99"},
	{name: "copy-ports-changed-same-count", copy: true, ports: []uint16{30000, 30002}},
	{name: "copy-ip6-and-ports-changed", copy: true, host: "2001:db8::53", ports: []uint16{30001, 30002}},
}

// c19ReuseScenario: the history dimension "address reuse" - a SECOND connection built from a
// UDPHopAddr value that an earlier (hopped, used and closed) connection was already built from,
// as the client does on every reconnect; between the two the exported IP and/or Ports of the value
// are changed, or the value is copied and the copy changed (every form of c19ReuseForms, a free
// choice; every port-index draw of both connections is a free choice too). Both connections are
// judged by the same clauses as everywhere else (c19World: every packet to the server IP on a port
// of the set - as the address value says when the connection is built - from the newest socket;
// census between hops; final state after Close).
// (Added after the independently seeded change C19-9: addrs() memoized the per-port address list in
// an unexported field of the UDPHopAddr and revalidated it by its length only, so a later
// connection from the same value or a copy of it sent every packet to the earlier IP / ports.)
func c19ReuseScenario() *explore.Scenario {
	fixed := HopIntervalConfig{Min: 5 * time.Second, Max: 5 * time.Second}
	window := 5500 * time.Millisecond
	return &explore.Scenario{Name: fmt.Sprintf("address-reuse-second-conn-%dforms", len(c19ReuseForms)),
		Quick: explore.Bounds{P: 0, E: 0}, Thorough: explore.Bounds{P: 1, E: 0, MaxExec: 600000},
		Opt: vsched.Options{HorizonNS: 200 * c19S, MaxSteps: 20000},
		Body: func(e *vsched.Exec) {
			f := c19ReuseForms[e.Choose(len(c19ReuseForms), vsched.KFree, "reuse-form")]
			e.Logf("reuse form: %s", f.name)
			vrand.SetSource(e, func(e *vsched.Exec, tag string, bound int64) int64 {
				if tag != "math/rand.Intn" {
					e.Fail("unexpected random draw %s bound %d", tag, bound)
					return 0
				}
				v := e.Choose(int(bound), vsched.KFree, "hop-port")
				e.Logf("draw port index %d of %d", v, bound)
				return int64(v)
			})
			// one connection's life: write, hop `windows` times with a probe after each, Close
			run := func(tag string, a *UDPHopAddr, windows int) bool {
				cfg := &c19Cfg{name: tag, portExpr: fmt.Sprintf("%s %v", tag, a.Ports), iv: fixed, window: window, windows: windows}
				w := &c19World{e: e, cfg: cfg, set: map[int]bool{}, sent: map[string]int{}, injectedSet: map[string]bool{}, delivered: map[string]int{}, lastListen: -1}
				w.serverIP = append(net.IP(nil), a.IP...)
				for _, p := range a.Ports {
					w.set[int(p)] = true
				}
				e.Logf("%s connection: server %v ports %v", tag, w.serverIP, a.Ports)
				pc, err := NewUDPHopPacketConn(a, fixed, w.listen)
				if err != nil {
					e.Fail("%s connection: NewUDPHopPacketConn failed: %v", tag, err)
					return false
				}
				w.conn = pc.(*udpHopPacketConn)
				w.write(tag+"-w", w.conn.Addr)
				w.rest(tag + "-start")
				for k := 1; k <= windows; k++ {
					e.Sleep(int64(window))
					w.rest(fmt.Sprintf("%s-window%d", tag, k))
					w.probe(k)
				}
				w.closeCalled = true
				err = w.conn.Close()
				w.closeReturned = true
				if err != nil {
					e.Fail("%s connection: Close returned %v", tag, err)
				}
				w.afterClose()
				return true
			}
			addr, err := ResolveUDPHopAddr("10.9.8.7:20000,20002")
			if err != nil {
				e.Fail("ResolveUDPHopAddr: %v", err)
				return
			}
			if !run("first", addr, 1) {
				return
			}
			second := addr
			if f.copy {
				c := *addr
				second = &c
			}
			if f.host != "" {
				second.IP = net.ParseIP(f.host)
			}
			if f.ports != nil {
				second.Ports = append([]uint16(nil), f.ports...)
				second.PortStr = strings.Trim(strings.ReplaceAll(fmt.Sprint(f.ports), " ", ","), "[]")
			}
			run("second", second, 2)
		}}
}

// c19JitterScenario: every hop interval the conn computes lies in [Min,Max], for the extreme and
// some interior draws of the random source (sequential; the draws are free choices).
func c19JitterScenario() *explore.Scenario {
	ivs := []HopIntervalConfig{{5 * time.Second, 5 * time.Second}, {5 * time.Second, 7 * time.Second}, {5 * time.Second, 5*time.Second + 1}, {30 * time.Second, time.Hour}}
	return &explore.Scenario{Name: "jitter-in-range", Quick: explore.Bounds{P: 0, E: 0}, Thorough: explore.Bounds{P: 1, E: 0},
		Opt: vsched.Options{HorizonNS: 200 * c19S, MaxSteps: 20000},
		Body: func(e *vsched.Exec) {
			iv := ivs[e.Choose(len(ivs), vsched.KFree, "interval-config")]
			draws := 0
			vrand.SetSource(e, func(e *vsched.Exec, tag string, bound int64) int64 {
				if tag != "math/rand.Int63n" {
					return 0
				}
				draws++
				if bound <= 0 {
					e.Fail("jitter drawn with bound %d for interval %v..%v", bound, iv.Min, iv.Max)
					return 0
				}
				opts := []int64{0, bound - 1, bound / 2, 1, bound - 2}
				k := e.Choose(len(opts), vsched.KFree, "jitter")
				v := opts[k]
				if v < 0 || v >= bound {
					v = 0
				}
				e.Logf("draw %d: option %d of bound %d", draws, k, bound)
				return v
			})
			n := 0
			pc, err := NewUDPHopPacketConn(&UDPHopAddr{IP: c19HopServerIP, Ports: []uint16{20000}, PortStr: "20000"}, iv, func() (net.PacketConn, error) {
				n++
				return vnet.NewPacketConn(fmt.Sprintf("s%d", n), 40000+n), nil
			})
			if err != nil {
				e.Fail("NewUDPHopPacketConn(%v): %v", iv, err)
				return
			}
			u := pc.(*udpHopPacketConn)
			e.WaitIdle()
			for i := 0; i < 2; i++ {
				d := u.nextHopInterval()
				if d < iv.Min || d > iv.Max {
					e.Fail("hop interval %v outside the configured range [%v,%v]", d, iv.Min, iv.Max)
				}
				e.Logf("interval %v in [%v,%v] min=%v max=%v", d, iv.Min, iv.Max, d == iv.Min, d == iv.Max)
			}
			if iv.Min == iv.Max && draws != 0 {
				e.Logf("fixed interval drew randomness %d times", draws)
			}
			_ = u.Close()
			e.WaitIdle()
		}}
}

func TestVerifC19Hop(t *testing.T) {
	explore.Main(t, "C19", c19Scenarios())
}

// TestVerifC19Probe prints the size of every scenario's default schedule (sizing aid, not run by vcheck).
func TestVerifC19Probe(t *testing.T) {
	for _, l := range explore.Probe(c19Scenarios()) {
		t.Log(l)
	}
}

type c19Zero struct{}

func (c19Zero) Choose(*vsched.Choice) int { return 0 }

// TestVerifC19Trace prints the observation log of the default schedule of the scenarios whose
// name contains $VERIF_ONLY (debugging aid, not run by vcheck).
func TestVerifC19Trace(t *testing.T) {
	scs := append(c19Scenarios(), c19TransportCloseScenario(fmt.Sprintf("transport-close-queue%d", packetQueueSize), explore.Bounds{}, explore.Bounds{}))
	for _, sc := range scs {
		if only := os.Getenv("VERIF_ONLY"); only == "" || !strings.Contains(sc.Name, only) {
			continue
		}
		o := vsched.Run(c19Zero{}, sc.Opt, func() { sc.Body(vsched.Cur()) })
		t.Logf("%s: %s %s leaked=%v steps=%d", sc.Name, o.Kind, o.Detail, o.Leaked, o.Steps)
		for _, l := range o.Log {
			t.Logf("   %s", l)
		}
	}
}
