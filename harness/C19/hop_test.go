package udphop

import "testing"

func TestVerifC19Hop(t *testing.T) {}
