package udphop

// C19 harness, unit "addr" (injected by overlay into extras/transport/udphop, NOT instrumented):
// (1) ResolveUDPHopAddr / UDPHopAddr.addrs over every port expression of <=2 items (the 3-item
//     space is covered on ParsePortUnion itself in unit "ports"): one UDPAddr per port of the
//     reference union, server IP on each, ascending, duplicate-free; invalid => InvalidPortError.
// (2) HopIntervalConfig.normalized over all (Min,Max) pairs of a boundary alphabet against the
//     documented rule; a rejected configuration never opens a socket.

import (
	"crypto/sha256"
	"encoding/json"
	"errors"
	"fmt"
	"net"
	"strings"
	"testing"
	"time"
	"unsafe"

	"verif.local/engine/evidence"
)

var c19AddrVals = []int{0, 1, 2, 3, 10, 11, 12, 65534, 65535}

var c19AddrExtras = []string{
	"all", "*", "", "1-", "-1", "1-2-3", "a", "65536", " 1", "1 ", "1, 2",
	",", ",1", "1,", "1,,2", ",1,2", "1,2,", ",,", "-", "1--2", "65536-65537", "0-65536", "+1", "0x10",
	"all,1", "1,*",
}

func c19APort(s string) (int, bool) {
	if s == "" || len(s) > 20 {
		return 0, false
	}
	v := 0
	for i := 0; i < len(s); i++ {
		if s[i] < '0' || s[i] > '9' {
			return 0, false
		}
		v = v*10 + int(s[i]-'0')
		if v > 65535 {
			return 0, false
		}
	}
	return v, true
}

// c19ARef: reference denotation of a port expression (same documented grammar as unit "ports",
// written independently on a plain boolean set). silent = documentation does not decide.
func c19ARef(s string) (valid, silent bool, ports []uint16) {
	var set [65536]bool
	add := func(a, b int) {
		for p := a; p <= b; p++ {
			set[p] = true
		}
	}
	valid = true
	if s == "all" || s == "*" {
		add(0, 65535)
	} else {
		for _, it := range strings.Split(s, ",") {
			if it == "all" || it == "*" {
				silent = true
				continue
			}
			if p, ok := c19APort(it); ok {
				add(p, p)
				continue
			}
			i := strings.IndexByte(it, '-')
			if i < 0 {
				valid = false
				break
			}
			a, ok1 := c19APort(it[:i])
			b, ok2 := c19APort(it[i+1:])
			if !ok1 || !ok2 {
				valid = false
				break
			}
			if a > b {
				silent = true
				continue
			}
			add(a, b)
		}
	}
	if !valid {
		return false, false, nil
	}
	for p := 0; p < 65536; p++ {
		if set[p] {
			ports = append(ports, uint16(p))
		}
	}
	return valid, silent, ports
}

var c19ServerIP = net.IPv4(10, 9, 8, 7)

func c19RunAddr(expr string) (clause, class string) {
	val, stack := evidence.Catch(func() { clause, class = c19RunAddrInner(expr) })
	if val != nil {
		return fmt.Sprintf("panic: %v at %s", val, evidence.PanicSite(stack)), "panic"
	}
	return
}

func c19RunAddrInner(expr string) (string, string) {
	valid, silent, want := c19ARef(expr)
	a, err := ResolveUDPHopAddr("10.9.8.7:" + expr)
	if !valid {
		if err == nil {
			return fmt.Sprintf("invalid port expression %q accepted (%d ports)", expr, len(a.Ports)), "invalid"
		}
		var ipe InvalidPortError
		if !errors.As(err, &ipe) || ipe.PortStr != expr {
			return fmt.Sprintf("invalid port expression %q rejected with %T %v, want InvalidPortError{%q}", expr, err, err, expr), "invalid"
		}
		return "", "invalid"
	}
	if silent {
		if err != nil {
			return "", "silent:rejected"
		}
		want = a.Ports // only the addrs()/Ports agreement is gated
	} else if err != nil {
		return fmt.Sprintf("valid port expression %q rejected: %v", expr, err), "valid"
	}
	if !a.IP.Equal(c19ServerIP) || a.PortStr != expr || a.Network() != "udphop" {
		return fmt.Sprintf("address fields: IP=%v PortStr=%q Network=%q", a.IP, a.PortStr, a.Network()), "valid"
	}
	if len(a.Ports) != len(want) {
		return fmt.Sprintf("%q resolves to %d ports, the union has %d", expr, len(a.Ports), len(want)), "valid"
	}
	for i := range want {
		if a.Ports[i] != want[i] {
			return fmt.Sprintf("%q: port %d at position %d, the union's %d-th member is %d", expr, a.Ports[i], i, i, want[i]), "valid"
		}
	}
	if c19AddrMemo != nil && len(want) > 4096 {
		// quick tier: addrs() is a pure function of (IP, Ports); Ports was just compared with the
		// reference element by element, so a wide port list is expanded into addresses once
		h := sha256.Sum256(unsafe.Slice((*byte)(unsafe.Pointer(&want[0])), 2*len(want)))
		if c19AddrMemo[h] {
			c19AddrMemoHits++
			if silent {
				return "", "silent:accepted"
			}
			return "", fmt.Sprintf("valid:%d", len(want))
		}
		c19AddrMemo[h] = true
	}
	// the private expansion into socket addresses, whatever its exact signature (asserted through
	// interfaces so that a refactor of the private method does not break the harness build)
	var addrs []net.Addr
	switch f := any(a).(type) {
	case interface{ addrs() ([]net.Addr, error) }:
		if addrs, err = f.addrs(); err != nil {
			return "addrs() error: " + err.Error(), "valid"
		}
	case interface{ addrs() []net.Addr }:
		addrs = f.addrs()
	default:
		c19AddrsUnavailable++
		if silent {
			return "", "silent:accepted"
		}
		return "", fmt.Sprintf("valid:%d", len(want))
	}
	if len(addrs) != len(want) {
		return fmt.Sprintf("%q: addrs() has %d entries for %d ports", expr, len(addrs), len(want)), "valid"
	}
	for i, x := range addrs {
		u, ok := x.(*net.UDPAddr)
		if !ok || !u.IP.Equal(c19ServerIP) || u.Port != int(want[i]) || u.Zone != "" {
			return fmt.Sprintf("%q: addrs()[%d]=%v, want %v:%d", expr, i, x, c19ServerIP, want[i]), "valid"
		}
	}
	if silent {
		return "", "silent:accepted"
	}
	return "", fmt.Sprintf("valid:%d", len(want))
}

// c19AddrMemo: quick tier only (nil in the thorough tier, where every case expands addrs()).
var (
	c19AddrMemo     map[[32]byte]bool
	c19AddrMemoHits int64
	// c19AddrsUnavailable: cases in which the private addrs() expansion could not be called (method
	// gone or with another signature): only the exported Ports list was compared
	c19AddrsUnavailable int64
)

// ---- hop interval rule ----------------------------------------------------------------------

var c19Durations = []time.Duration{0, 1, time.Second, 5*time.Second - 1, 5 * time.Second, 5*time.Second + 1,
	6 * time.Second, 7 * time.Second, 30 * time.Second, time.Hour, -time.Second}

// c19IntervalRef is the documented rule: both unset => 30 s fixed; exactly one unset => rejected;
// min > max => rejected; min < 5 s => rejected; otherwise kept as given. Negative durations are
// not covered by the documentation (silent).
func c19IntervalRef(mn, mx time.Duration) (ok bool, silent bool, want HopIntervalConfig) {
	if mn < 0 || mx < 0 {
		return false, true, want
	}
	switch {
	case mn == 0 && mx == 0:
		return true, false, HopIntervalConfig{30 * time.Second, 30 * time.Second}
	case mn == 0 || mx == 0:
		return false, false, want
	case mn > mx:
		return false, false, want
	case mn < 5*time.Second:
		return false, false, want
	}
	return true, false, HopIntervalConfig{mn, mx}
}

func c19RunInterval(mn, mx time.Duration) (clause, class string) {
	val, stack := evidence.Catch(func() { clause, class = c19RunIntervalInner(mn, mx) })
	if val != nil {
		return fmt.Sprintf("panic: %v at %s", val, evidence.PanicSite(stack)), "panic"
	}
	return
}

func c19RunIntervalInner(mn, mx time.Duration) (string, string) {
	ok, silent, want := c19IntervalRef(mn, mx)
	got, err := (HopIntervalConfig{Min: mn, Max: mx}).normalized()
	if silent {
		return "", fmt.Sprintf("silent:negative:accepted=%v", err == nil)
	}
	if ok {
		if err != nil {
			return fmt.Sprintf("interval (%v,%v) rejected: %v", mn, mx, err), "accept"
		}
		if got != want {
			return fmt.Sprintf("interval (%v,%v) normalised to (%v,%v), want (%v,%v)", mn, mx, got.Min, got.Max, want.Min, want.Max), "accept"
		}
		if got.Min < 5*time.Second || got.Min > got.Max {
			return fmt.Sprintf("normalised interval (%v,%v) outside the documented rule", got.Min, got.Max), "accept"
		}
		return "", "accept"
	}
	if err == nil {
		return fmt.Sprintf("interval (%v,%v) accepted as (%v,%v); the rule rejects it", mn, mx, got.Min, got.Max), "reject"
	}
	// a rejected configuration must not open a socket or start anything
	listens := 0
	c, err2 := NewUDPHopPacketConn(&UDPHopAddr{IP: c19ServerIP, Ports: []uint16{1000, 1001}, PortStr: "1000-1001"},
		HopIntervalConfig{Min: mn, Max: mx}, func() (net.PacketConn, error) {
			listens++
			return nil, errors.New("c19: listen must not be called")
		})
	if err2 == nil || c != nil || listens != 0 {
		return fmt.Sprintf("NewUDPHopPacketConn with rejected interval (%v,%v): err=%v listens=%d", mn, mx, err2, listens), "reject"
	}
	return "", "reject:" + err.Error()
}

// ---- enumeration ----------------------------------------------------------------------------

type c19AddrCase struct {
	Kind string `json:"kind"` // addr | interval
	Expr string `json:"expr,omitempty"`
	Min  int64  `json:"min,omitempty"`
	Max  int64  `json:"max,omitempty"`
}

func c19EnumerateAddr(sh *evidence.Shard) {
	env := sh.Env()
	if !env.Thorough() {
		c19AddrMemo = map[[32]byte]bool{}
	}
	var item int64
	perKind := map[string]int{}
	report := func(p *evidence.Part, clause, min string, c c19AddrCase) {
		k := clause
		if i := strings.IndexAny(k, "0123456789\"("); i > 0 {
			k = strings.TrimSpace(k[:i])
		}
		k = p.Name + "/" + k
		perKind[k]++
		if perKind[k] <= 2 {
			sh.Violate(p.Name, k+"/"+min, clause, c)
		} else {
			p.Count("further_violations_not_written", 1)
		}
	}

	pi := sh.Part("hop-interval-rule", "enum")
	pi.Alphabet = map[string]any{"min,max": fmt.Sprint(c19Durations)}
	pi.Note("negative durations: documentation silent, behaviour recorded in counters, not gated")
	for _, mn := range c19Durations {
		for _, mx := range c19Durations {
			item++
			if !env.Mine(item) {
				continue
			}
			pi.Evaluations++
			clause, class := c19RunInterval(mn, mx)
			pi.Class("interval", class, mn == mx, mn < mx)
			if strings.HasPrefix(class, "silent:") {
				pi.Count("undocumented_"+strings.TrimPrefix(class, "silent:"), 1)
			}
			if clause != "" {
				report(pi, clause, fmt.Sprintf("min=%v,max=%v", mn, mx), c19AddrCase{Kind: "interval", Min: int64(mn), Max: int64(mx)})
			}
		}
	}

	var items []string
	for _, p := range c19AddrVals {
		items = append(items, fmt.Sprint(p))
	}
	for _, p := range c19AddrVals {
		for _, q := range c19AddrVals {
			items = append(items, fmt.Sprintf("%d-%d", p, q))
		}
	}
	pa := sh.Part("resolve-addr", "enum")
	pa.Alphabet = map[string]any{"port_values": c19AddrVals, "items": "p | p-q (90 items), expressions of <=2 items", "extras": c19AddrExtras, "server": "10.9.8.7"}
	pa.Note("reversed ranges / wildcard as item: documentation silent, only Ports-vs-addrs() agreement gated (counters undocumented_*)")
	run := func(expr string) {
		item++
		if !env.Mine(item) {
			return
		}
		pa.Evaluations++
		clause, class := c19RunAddr(expr)
		pa.Class("addr", class, strings.Count(expr, ","), clause == "")
		if strings.HasPrefix(class, "silent:") {
			pa.Count("undocumented_"+strings.TrimPrefix(class, "silent:"), 1)
		}
		if pa.Evaluations%499 == 3 {
			pa.Sample(map[string]string{"expr": expr, "class": class})
		}
		if clause != "" {
			report(pa, clause, "expr="+expr, c19AddrCase{Kind: "addr", Expr: expr})
		}
	}
	for _, s := range c19AddrExtras {
		run(s)
	}
	for _, a := range items {
		run(a)
	}
	for _, a := range items {
		if env.Expired() {
			pa.Exhaustive = false
			pa.Note("deadline reached inside the 2-item expressions")
			break
		}
		for _, b := range items {
			run(a + "," + b)
		}
	}
	if c19AddrMemo != nil {
		pa.Count("wide_addrs_expansions_memoised", c19AddrMemoHits)
		if c19AddrsUnavailable > 0 {
			pa.Count("cases_without_private_addrs_expansion", c19AddrsUnavailable)
			pa.Note("the private addrs() method is not callable on this tree (gone or another signature): the exported Ports list was compared with the reference, the socket-address expansion was not")
		}
		pa.Note("quick tier: port lists longer than 4096 are expanded by addrs() once per distinct list (the list itself is compared with the reference in every case); the thorough tier expands every case")
	}
}

func c19ReplayAddr(part string, raw json.RawMessage) (bool, bool, string) {
	if part != "resolve-addr" && part != "hop-interval-rule" {
		return false, false, ""
	}
	var c c19AddrCase
	if err := json.Unmarshal(raw, &c); err != nil {
		return true, false, err.Error()
	}
	var clause string
	if c.Kind == "interval" {
		clause, _ = c19RunInterval(time.Duration(c.Min), time.Duration(c.Max))
	} else {
		clause, _ = c19RunAddr(c.Expr)
	}
	return true, clause != "", fmt.Sprintf("%+v: %s", c, clause)
}

func TestVerifC19Addr(t *testing.T) {
	evidence.Main(t, "C19", evidence.Seq{Run: c19EnumerateAddr, Replay: c19ReplayAddr})
}
