package proxymux

// C18 harness, unit "mux" (injected by overlay into app/internal/proxymux, sched-rewritten).
//
// The real muxListener (acceptLoop, mainLoop, dispatch, sub-listeners, connWithOneByte) runs on a
// vnet.Listener under the controlled scheduler. One execution = one operation program (chosen by
// a cost-free choice point) whose operations each run as their own thread, so every order of
// listener registration, close, accept and incoming connections is a schedule.

import (
	"bytes"
	"errors"
	"fmt"
	"io"
	"net"
	"regexp"
	"sort"
	"strings"
	"testing"

	"verif.local/engine/explore"
	"verif.local/engine/vnet"
	"verif.local/engine/vsched"
)

type c18Op byte

const (
	c18LS c18Op = iota // ListenSOCKS
	c18LH              // ListenHTTP
	c18AS              // one Accept on the newest SOCKS sub-listener
	c18AH              // one Accept on the newest HTTP sub-listener
	c18C5              // incoming connection, first byte 0x05
	c18CG              // incoming connection, first byte 'G'
	c18CE              // incoming connection, immediate EOF
	c18XS              // Close the newest open SOCKS sub-listener
	c18XH              // Close the newest open HTTP sub-listener
	c18NOps
)

var c18OpNames = [...]string{"ListenSOCKS", "ListenHTTP", "AcceptSOCKS", "AcceptHTTP", "conn(05)", "conn(G)", "conn(EOF)", "CloseSOCKS", "CloseHTTP"}

type c18Prog []c18Op

func (p c18Prog) String() string {
	var s []string
	for _, o := range p {
		s = append(s, c18OpNames[o])
	}
	return strings.Join(s, " | ")
}

func (p c18Prog) count(o c18Op) int {
	n := 0
	for _, x := range p {
		if x == o {
			n++
		}
	}
	return n
}

// c18Programs enumerates every ORDERED sequence of exactly nOps operations that is meaningful: the
// first operation is a Listen (performed by the harness main thread right after newMuxListener,
// as manager.go does), Accept/Close of a protocol appear only after a Listen of that protocol.
// The remaining operations run as one thread each, spawned in sequence order: the explorer's
// default schedule executes them in that order (the mux goroutines reacting in between), and
// every bounded deviation from it is explored, so the sequence enumeration supplies "every
// order" and the scheduler the interleavings.
// The programs are split into three families (one scenario each, so that a defect reachable in
// one family does not cut the exploration of the others short):
//
//	"route":    no connection at all, or no Close operation and at least as many Accepts as
//	            connections per registered protocol - no sub-listener closes while a connection
//	            can be in flight (teardown closes only after everything was handed over);
//	"unrouted": not "route", and every connection is an immediate EOF or of a protocol the
//	            program never registers - dispatch never has a sub-listener to hand it to;
//	"close":    the rest - connections race with the Close of the sub-listener they route to.
func c18Programs(nOps int, family string) []c18Prog {
	var out []c18Prog
	var rec func(cur c18Prog)
	rec = func(cur c18Prog) {
		if len(cur) == nOps {
			ls, lh := cur.count(c18LS), cur.count(c18LH)
			n5, ng, ne := cur.count(c18C5), cur.count(c18CG), cur.count(c18CE)
			fam := "close"
			switch {
			case n5+ng+ne == 0,
				cur.count(c18XS)+cur.count(c18XH) == 0 && (ls == 0 || cur.count(c18AS) >= n5) && (lh == 0 || cur.count(c18AH) >= ng):
				fam = "route"
			case (n5 == 0 || ls == 0) && (ng == 0 || lh == 0):
				fam = "unrouted"
			}
			if fam == family {
				out = append(out, append(c18Prog(nil), cur...))
			}
			return
		}
		for o := c18Op(0); o < c18NOps; o++ {
			switch {
			case len(cur) == 0 && o != c18LS && o != c18LH:
				continue
			case (o == c18AS || o == c18XS) && cur.count(c18LS) == 0:
				continue
			case (o == c18AH || o == c18XH) && cur.count(c18LH) == 0:
				continue
			}
			rec(append(cur, o))
		}
	}
	rec(nil)
	return out
}

// c18ProgramsUpTo: every program of 1..maxOps operations of the family, shortest first.
func c18ProgramsUpTo(maxOps int, family string) []c18Prog {
	var out []c18Prog
	for n := 1; n <= maxOps; n++ {
		out = append(out, c18Programs(n, family)...)
	}
	return out
}

type c18Sub struct {
	l      net.Listener
	socks  bool
	closed bool // closed by the harness
	idx    int
}

type c18Ret struct {
	sub *c18Sub
	w   net.Conn
}

type c18ConnRec struct {
	idx      int
	first    int // 5, 'G' or -1 (EOF)
	preload  []byte
	srv, cli *vnet.Conn
	ret      []c18Ret
}

type c18Mux struct {
	e         *vsched.Exec
	base      *vnet.Listener
	ml        *muxListener
	subs      []*c18Sub
	delivered []*c18ConnRec
	pendingL  [2]int // Listen operations not yet executed, per protocol (0 socks, 1 http)
	deleted   int
	nconn     int
}

func c18Proto(socks bool) int {
	if socks {
		return 0
	}
	return 1
}

func (m *c18Mux) newest(socks, openOnly bool) *c18Sub {
	for i := len(m.subs) - 1; i >= 0; i-- {
		s := m.subs[i]
		if s.socks == socks && (!openOnly || !s.closed) {
			return s
		}
	}
	return nil
}

func (m *c18Mux) errClass(err error) string {
	switch {
	case err == nil:
		return "ok"
	case errors.Is(err, ErrProtocolInUse):
		return "in-use"
	case errors.Is(err, net.ErrClosed):
		return "closed"
	}
	return "err:" + err.Error()
}

func (m *c18Mux) run(op c18Op) {
	e := m.e
	switch op {
	case c18LS, c18LH:
		socks := op == c18LS
		var l net.Listener
		var err error
		if socks {
			l, err = m.ml.ListenSOCKS()
		} else {
			l, err = m.ml.ListenHTTP()
		}
		m.pendingL[c18Proto(socks)]--
		if err == nil {
			m.subs = append(m.subs, &c18Sub{l: l, socks: socks, idx: len(m.subs)})
		} else if l != nil {
			e.Fail("listen-returned-listener-and-error :: %s", c18OpNames[op])
		}
		e.Logf("%s=%s", c18OpNames[op], m.errClass(err))
	case c18AS, c18AH:
		socks := op == c18AS
		e.Point("c18", func() bool { return m.newest(socks, false) != nil || m.pendingL[c18Proto(socks)] == 0 }, "wait for a sub-listener")
		s := m.newest(socks, false)
		if s == nil {
			e.Logf("%s=no-listener", c18OpNames[op])
			return
		}
		c, err := s.l.Accept()
		if err != nil {
			if c != nil {
				e.Fail("accept-returned-conn-and-error :: %s", c18OpNames[op])
			}
			e.Logf("%s#%d=%s", c18OpNames[op], s.idx, m.errClass(err))
			return
		}
		rec := m.owner(c)
		if rec == nil {
			e.Fail("accept-returned-foreign-conn :: %s returned %T", c18OpNames[op], c)
			return
		}
		rec.ret = append(rec.ret, c18Ret{s, c})
		e.Logf("%s#%d=conn%d", c18OpNames[op], s.idx, rec.idx)
	case c18XS, c18XH:
		socks := op == c18XS
		e.Point("c18", func() bool { return m.newest(socks, true) != nil || m.pendingL[c18Proto(socks)] == 0 }, "wait for an open sub-listener")
		s := m.newest(socks, true)
		if s == nil {
			e.Logf("%s=no-listener", c18OpNames[op])
			return
		}
		s.closed = true
		_ = s.l.Close()
		e.Logf("%s#%d", c18OpNames[op], s.idx)
	case c18C5, c18CG, c18CE:
		rec := &c18ConnRec{idx: m.nconn, first: -1}
		m.nconn++
		switch op {
		case c18C5:
			rec.first, rec.preload = 5, []byte{5, 1, 0}
		case c18CG:
			rec.first, rec.preload = 'G', []byte("GET")
		}
		rec.cli, rec.srv = vnet.Pipe(fmt.Sprintf("cli%d", rec.idx), fmt.Sprintf("conn%d", rec.idx), 64)
		if len(rec.preload) > 0 {
			_, _ = rec.cli.Write(rec.preload)
		}
		_ = rec.cli.CloseWrite()
		m.delivered = append(m.delivered, rec)
		m.base.Deliver(rec.srv)
		e.Logf("%s=conn%d", c18OpNames[op], rec.idx)
	}
}

func (m *c18Mux) owner(c net.Conn) *c18ConnRec {
	w, ok := c.(*connWithOneByte)
	if !ok {
		return nil
	}
	for _, r := range m.delivered {
		if w.Conn == net.Conn(r.srv) {
			return r
		}
	}
	return nil
}

// check is the final-state oracle; it runs when every other thread has finished.
func (m *c18Mux) check() {
	e := m.e
	for i, r := range m.delivered {
		if i >= m.base.Accepts {
			e.Logf("conn%d never accepted from the base listener", r.idx)
			continue
		}
		closed := r.srv.IsClosed()
		switch {
		case len(r.ret) > 1:
			e.Fail("conn-returned-twice :: conn%d returned by %d Accept calls", r.idx, len(r.ret))
		case len(r.ret) == 1 && closed:
			e.Fail("conn-accepted-and-closed :: conn%d handed to a sub-listener and closed by the mux", r.idx)
		case len(r.ret) == 0 && !closed:
			where := "acceptLoop-closeChan"
			if len(r.srv.Received) > 0 {
				where = "dispatch-closeChan"
			}
			e.Fail("conn-neither-accepted-nor-closed@%s :: conn%d (first byte %d): read by mux %d bytes, Close calls %d, returned by no Accept", where, r.idx, r.first, len(r.srv.Received), r.srv.Closes)
		}
		if len(r.ret) == 0 {
			e.Logf("conn%d(%d): closed=%v", r.idx, r.first, closed)
			continue
		}
		ret := r.ret[0]
		e.Logf("conn%d(%d): sub#%d socks=%v", r.idx, r.first, ret.sub.idx, ret.sub.socks)
		switch {
		case r.first < 0:
			e.Fail("conn-eof-returned :: conn%d has no first byte but was handed to a sub-listener", r.idx)
			continue
		case (r.first == 5) != ret.sub.socks:
			to := "http"
			if ret.sub.socks {
				to = "socks"
			}
			e.Fail("conn-misrouted@first-byte-0x%02x-to-%s :: conn%d", r.first, to, r.idx)
		}
		// detection byte + pipelined bytes through the wrapper: zero-length read first
		if n, err := ret.w.Read(nil); n != 0 || err != nil {
			e.Fail("wrapper-zero-read :: Read(nil) = %d, %v", n, err)
		}
		got, _ := io.ReadAll(ret.w)
		if !bytes.Equal(got, r.preload) {
			e.Fail("wrapper-bytes-not-intact :: conn%d: client sent % x, handler read % x", r.idx, r.preload, got)
		}
	}
}

func c18MuxBody(progs []c18Prog) func(e *vsched.Exec) {
	return func(e *vsched.Exec) {
		prog := progs[e.Choose(len(progs), vsched.KFree, "program")]
		e.Logf("program: %s", prog)
		m := &c18Mux{e: e, base: vnet.NewListener("base")}
		m.pendingL = [2]int{prog.count(c18LS), prog.count(c18LH)}
		m.ml = newMuxListener(m.base, func() { m.deleted++ })
		m.run(prog[0]) // the Listen that made the manager create the mux
		for _, op := range prog[1:] {
			op := op
			vsched.GoNamed(c18OpNames[op], func() { m.run(op) })
		}
		e.WaitIdle()
		// teardown: close whatever the program left open (a Close like any other)
		for _, s := range m.subs {
			if !s.closed {
				s.closed = true
				_ = s.l.Close()
			}
		}
		e.WaitIdle()
		if m.deleted == 0 {
			// mainLoop snapshots the sub-listeners' close channels before it blocks in select; a
			// Listen that registered after the snapshot is not watched, so its Close is noticed
			// only at the next connection (see NOTES.md). One more incoming connection (immediate
			// EOF, inside the oracle like any other) lets the mux see the closes and shut down.
			e.Logf("mux still running after every sub-listener closed: poke")
			m.run(c18CE)
			e.WaitIdle()
		}
		m.check()
		if m.deleted > 1 {
			e.Fail("delete-func-called-twice :: %d", m.deleted)
		}
	}
}

var c18ThreadID = regexp.MustCompile(`T\d+\(`)
var c18Frame = regexp.MustCompile(`proxymux\.\(\*?(\w+)\)\.(\w+)|proxymux\.(\w+)`)

// c18Sig reduces an outcome to a stable signature: clause id for oracle failures, message +
// innermost proxymux function for panics, blocked operations (thread ids removed) otherwise.
func c18Sig(o *vsched.Outcome) string {
	norm := func(s []string) string {
		var out []string
		for _, x := range s {
			out = append(out, c18ThreadID.ReplaceAllString(x, "("))
		}
		sort.Strings(out)
		return strings.Join(out, "|")
	}
	switch o.Kind {
	case "fail":
		d := o.Detail
		if i := strings.Index(d, " :: "); i >= 0 {
			d = d[:i]
		}
		return d
	case "panic":
		fn := "unknown"
		for _, l := range strings.Split(o.Stack, "\n") {
			if strings.Contains(l, "c18") || strings.Contains(l, "zz_verif") {
				continue
			}
			if mm := c18Frame.FindStringSubmatch(l); mm != nil {
				fn = mm[1] + "." + mm[2] + mm[3]
				break
			}
		}
		d := o.Detail
		if i := strings.IndexByte(d, '\n'); i >= 0 {
			d = d[:i]
		}
		return "panic:" + d + "@" + strings.Trim(fn, ".")
	case "deadlock":
		return "deadlock:" + norm(strings.Split(o.Detail, " | "))
	case "ok":
		return "thread-leak:" + norm(o.Leaked)
	}
	return o.Kind + ":" + o.Detail
}

// Bounds: programs of <=4 operations with P<=2 (quick) / P<=3 (thorough) scheduling deviations,
// programs of exactly 5 operations with P<=1 (quick) / P<=2 (thorough).
func c18MuxScenarios(_ bool) []*explore.Scenario {
	mk := func(name string, progs []c18Prog, pq, pt int) *explore.Scenario {
		return &explore.Scenario{Name: name, Quick: explore.Bounds{P: pq}, Thorough: explore.Bounds{P: pt}, Body: c18MuxBody(progs), Sig: c18Sig}
	}
	return []*explore.Scenario{
		mk("mux-route", c18ProgramsUpTo(4, "route"), 2, 3),
		mk("mux-unrouted", c18ProgramsUpTo(4, "unrouted"), 2, 3),
		mk("mux", c18ProgramsUpTo(4, "close"), 2, 3),
		mk("mux-route5", c18Programs(5, "route"), 1, 2),
		mk("mux-unrouted5", c18Programs(5, "unrouted"), 1, 2),
		mk("mux5", c18Programs(5, "close"), 1, 2),
	}
}

func TestVerifC18Mux(t *testing.T) {
	explore.Main(t, "C18", c18MuxScenarios(false))
}
