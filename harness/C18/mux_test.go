package proxymux

// C18 harness, unit "mux" (injected by overlay into app/internal/proxymux, sched-rewritten).
//
// The real muxListener (acceptLoop, mainLoop, dispatch, sub-listeners, connWithOneByte) runs on a
// vnet.Listener under the controlled scheduler. One execution = one operation program (chosen by
// a cost-free choice point: every ORDERED sequence of operations); the first Listen runs inline,
// every other operation as its own thread spawned in sequence order, so the default schedule
// executes the sequence in order and every bounded deviation from it is explored.
//
// Harness notes:
//   - false alarm corrected: a first version reported "thread-leak: base.Accept | select" because
//     mainLoop does not watch a sub-listener registered after it took its snapshot of the close
//     channels, so closing that sub-listener does not stop the mux until the next connection.
//     Goroutine lifetime of the mux is not part of C18; finish() now delivers one more (EOF)
//     connection in that state - judged by the oracle like any other - and the mux shuts down.
//   - the engine's default bounding is delay bounding; one thread per operation under classic
//     preemption bounding (FreeSwitch) needed >10^5 executions for ONE 4-operation program at
//     P=0, so the order of operations is enumerated explicitly (ordered programs) instead.
//   - the explorer stops a scenario at the first bound level with a violation; programs are
//     therefore split into families (route / unrouted / close, and relisten with a crash-only
//     oracle) so that each defect of the unchanged tree keeps its own signature.
//   - upstream tests of app/internal/socks5 and app/internal/http fail on the unchanged tree
//     offline (Python clients missing), so "upstream passes" cannot be shown for their mutants.

import (
	"bytes"
	"errors"
	"fmt"
	"io"
	"net"
	"regexp"
	"sort"
	"strings"
	"testing"

	"verif.local/engine/explore"
	"verif.local/engine/vnet"
	"verif.local/engine/vsched"
)

type c18Op byte

const (
	c18LS c18Op = iota // ListenSOCKS
	c18LH              // ListenHTTP
	c18AS              // one Accept on the newest SOCKS sub-listener
	c18AH              // one Accept on the newest HTTP sub-listener
	c18C5              // incoming connection, first byte 0x05
	c18CG              // incoming connection, first byte 'G'
	c18CE              // incoming connection, immediate EOF
	c18XS              // Close the newest open SOCKS sub-listener
	c18XH              // Close the newest open HTTP sub-listener
	c18NOps
)

var c18OpNames = [...]string{"ListenSOCKS", "ListenHTTP", "AcceptSOCKS", "AcceptHTTP", "conn(05)", "conn(G)", "conn(EOF)", "CloseSOCKS", "CloseHTTP"}

type c18Prog []c18Op

func (p c18Prog) String() string {
	var s []string
	for _, o := range p {
		s = append(s, c18OpNames[o])
	}
	return strings.Join(s, " | ")
}

func (p c18Prog) count(o c18Op) int {
	n := 0
	for _, x := range p {
		if x == o {
			n++
		}
	}
	return n
}

// c18Programs enumerates every ORDERED sequence of exactly nOps operations that is meaningful: the
// first operation is a Listen (performed by the harness main thread right after newMuxListener,
// as manager.go does), Accept/Close of a protocol appear only after a Listen of that protocol.
// The remaining operations run as one thread each, spawned in sequence order: the explorer's
// default schedule executes them in that order (the mux goroutines reacting in between), and
// every bounded deviation from it is explored, so the sequence enumeration supplies "every
// order" and the scheduler the interleavings.
// The programs are split into three families (one scenario each, so that a defect reachable in
// one family does not cut the exploration of the others short):
//
//	"route":    no connection at all, or no Close operation and at least as many Accepts as
//	            connections per registered protocol - no sub-listener closes while a connection
//	            can be in flight (teardown closes only after everything was handed over);
//	"unrouted": not "route", and every connection is an immediate EOF or of a protocol the
//	            program never registers - dispatch never has a sub-listener to hand it to;
//	"close":    the rest - connections race with the Close of the sub-listener they route to.
func c18Programs(nOps int, family string) []c18Prog {
	var out []c18Prog
	var rec func(cur c18Prog)
	rec = func(cur c18Prog) {
		if len(cur) == nOps {
			ls, lh := cur.count(c18LS), cur.count(c18LH)
			n5, ng, ne := cur.count(c18C5), cur.count(c18CG), cur.count(c18CE)
			fam := "close"
			switch {
			case n5+ng+ne == 0,
				cur.count(c18XS)+cur.count(c18XH) == 0 && (ls == 0 || cur.count(c18AS) >= n5) && (lh == 0 || cur.count(c18AH) >= ng):
				fam = "route"
			case (n5 == 0 || ls == 0) && (ng == 0 || lh == 0):
				fam = "unrouted"
			}
			if fam == family {
				out = append(out, append(c18Prog(nil), cur...))
			}
			return
		}
		for o := c18Op(0); o < c18NOps; o++ {
			switch {
			case len(cur) == 0 && o != c18LS && o != c18LH:
				continue
			case (o == c18AS || o == c18XS) && cur.count(c18LS) == 0:
				continue
			case (o == c18AH || o == c18XH) && cur.count(c18LH) == 0:
				continue
			}
			rec(append(cur, o))
		}
	}
	rec(nil)
	return out
}

// c18Relisten: some protocol is closed and registered again, and a connection of it exists.
func c18Relisten(p c18Prog) bool {
	for _, t := range [][3]c18Op{{c18LS, c18XS, c18C5}, {c18LH, c18XH, c18CG}} {
		state := 0
		for _, o := range p {
			switch {
			case state == 0 && o == t[0]:
				state = 1
			case state == 1 && o == t[1]:
				state = 2
			case state == 2 && o == t[0]:
				state = 3
			}
		}
		if state == 3 && p.count(t[2]) > 0 {
			return true
		}
	}
	return false
}

// c18ProgramsUpTo: every program of 1..maxOps operations of the family, shortest first.
func c18ProgramsUpTo(maxOps int, family string) []c18Prog {
	var out []c18Prog
	for n := 1; n <= maxOps; n++ {
		out = append(out, c18Programs(n, family)...)
	}
	return out
}

type c18Sub struct {
	l      net.Listener
	socks  bool
	closed bool // closed by the harness
	idx    int
}

type c18Ret struct {
	sub *c18Sub
	w   net.Conn
}

type c18ConnRec struct {
	idx      int
	first    int // 5, 'G' or -1 (EOF)
	preload  []byte
	srv, cli *vnet.Conn
	ret      []c18Ret
}

type c18Mux struct {
	e         *vsched.Exec
	base      *vnet.Listener
	ml        *muxListener
	subs      []*c18Sub
	delivered []*c18ConnRec
	pendingL  [2]int // Listen operations not yet executed, per protocol (0 socks, 1 http)
	deleted   int
	nconn     int
	// crashOnly: connection clauses are logged, not failed (scenario "mux-relisten", whose
	// programs are also explored with the full oracle in scenario "mux"; it exists so that a
	// crash is reported under its own signature even while a connection-leak defect reachable
	// by the same programs cuts the exploration of "mux" short).
	crashOnly bool
	zeroFirst bool
}

func (m *c18Mux) fail(format string, a ...any) {
	if m.crashOnly {
		m.e.Logf("(not judged here) "+format, a...)
		return
	}
	m.e.Fail(format, a...)
}

func c18Proto(socks bool) int {
	if socks {
		return 0
	}
	return 1
}

func (m *c18Mux) newest(socks, openOnly bool) *c18Sub {
	for i := len(m.subs) - 1; i >= 0; i-- {
		s := m.subs[i]
		if s.socks == socks && (!openOnly || !s.closed) {
			return s
		}
	}
	return nil
}

func (m *c18Mux) errClass(err error) string {
	switch {
	case err == nil:
		return "ok"
	case errors.Is(err, ErrProtocolInUse):
		return "in-use"
	case errors.Is(err, net.ErrClosed):
		return "closed"
	}
	return "err:" + err.Error()
}

func (m *c18Mux) run(op c18Op) {
	e := m.e
	switch op {
	case c18LS, c18LH:
		socks := op == c18LS
		var l net.Listener
		var err error
		if socks {
			l, err = m.ml.ListenSOCKS()
		} else {
			l, err = m.ml.ListenHTTP()
		}
		m.pendingL[c18Proto(socks)]--
		if err == nil {
			m.subs = append(m.subs, &c18Sub{l: l, socks: socks, idx: len(m.subs)})
		} else if l != nil {
			e.Fail("listen-returned-listener-and-error :: %s", c18OpNames[op])
		}
		e.Logf("%s=%s", c18OpNames[op], m.errClass(err))
	case c18AS, c18AH:
		socks := op == c18AS
		e.Point("c18", func() bool { return m.newest(socks, false) != nil || m.pendingL[c18Proto(socks)] == 0 }, "wait for a sub-listener")
		s := m.newest(socks, false)
		if s == nil {
			e.Logf("%s=no-listener", c18OpNames[op])
			return
		}
		c, err := s.l.Accept()
		if err != nil {
			if c != nil {
				e.Fail("accept-returned-conn-and-error :: %s", c18OpNames[op])
			}
			e.Logf("%s#%d=%s", c18OpNames[op], s.idx, m.errClass(err))
			return
		}
		rec := m.owner(c)
		if rec == nil {
			e.Fail("accept-returned-foreign-conn :: %s returned %T", c18OpNames[op], c)
			return
		}
		rec.ret = append(rec.ret, c18Ret{s, c})
		e.Logf("%s#%d=conn%d", c18OpNames[op], s.idx, rec.idx)
	case c18XS, c18XH:
		socks := op == c18XS
		e.Point("c18", func() bool { return m.newest(socks, true) != nil || m.pendingL[c18Proto(socks)] == 0 }, "wait for an open sub-listener")
		s := m.newest(socks, true)
		if s == nil {
			e.Logf("%s=no-listener", c18OpNames[op])
			return
		}
		s.closed = true
		_ = s.l.Close()
		e.Logf("%s#%d", c18OpNames[op], s.idx)
	case c18C5:
		m.deliver(5, []byte{5, 1, 0})
	case c18CG:
		m.deliver('G', []byte("GET"))
	case c18CE:
		m.deliver(-1, nil)
	}
}

// deliver hands a new incoming connection to the base listener: the client side has written
// preload (first byte + pipelined bytes) and half-closed.
func (m *c18Mux) deliver(first int, preload []byte) {
	rec := &c18ConnRec{idx: m.nconn, first: first, preload: preload}
	m.nconn++
	rec.cli, rec.srv = vnet.Pipe(fmt.Sprintf("cli%d", rec.idx), fmt.Sprintf("conn%d", rec.idx), 64)
	// the accepted connection's first Read may return (0, nil) before any data (a cost-free
	// choice per execution: legal for an io.Reader; added after the seeded change C18-5, a single unchecked Read
	// for the protocol-detection byte)
	rec.srv.ZeroFirstRead = m.zeroFirst
	if len(rec.preload) > 0 {
		_, _ = rec.cli.Write(rec.preload)
	}
	_ = rec.cli.CloseWrite()
	m.delivered = append(m.delivered, rec)
	m.base.Deliver(rec.srv)
	m.e.Logf("conn(%d)=conn%d", first, rec.idx)
}

func (m *c18Mux) owner(c net.Conn) *c18ConnRec {
	w, ok := c.(*connWithOneByte)
	if !ok {
		return nil
	}
	for _, r := range m.delivered {
		if w.Conn == net.Conn(r.srv) {
			return r
		}
	}
	return nil
}

// check is the final-state oracle; it runs when every other thread has finished.
func (m *c18Mux) check() {
	e := m.e
	for i, r := range m.delivered {
		if i >= m.base.Accepts {
			e.Logf("conn%d never accepted from the base listener", r.idx)
			continue
		}
		closed := r.srv.IsClosed()
		switch {
		case len(r.ret) > 1:
			m.fail("conn-returned-twice :: conn%d returned by %d Accept calls", r.idx, len(r.ret))
		case len(r.ret) == 1 && closed:
			m.fail("conn-accepted-and-closed :: conn%d handed to a sub-listener and closed by the mux", r.idx)
		case len(r.ret) == 0 && !closed:
			where := "acceptLoop-closeChan"
			if len(r.srv.Received) > 0 {
				where = "dispatch-closeChan"
			}
			m.fail("conn-neither-accepted-nor-closed@%s :: conn%d (first byte %d): read by mux %d bytes, Close calls %d, returned by no Accept", where, r.idx, r.first, len(r.srv.Received), r.srv.Closes)
		}
		if len(r.ret) == 0 {
			e.Logf("conn%d(%d): closed=%v", r.idx, r.first, closed)
			continue
		}
		ret := r.ret[0]
		e.Logf("conn%d(%d): sub#%d socks=%v", r.idx, r.first, ret.sub.idx, ret.sub.socks)
		switch {
		case r.first < 0:
			m.fail("conn-eof-returned :: conn%d has no first byte but was handed to a sub-listener", r.idx)
			continue
		case (r.first == 5) != ret.sub.socks:
			to := "http"
			if ret.sub.socks {
				to = "socks"
			}
			m.fail("conn-misrouted@first-byte-0x%02x-to-%s :: conn%d", r.first, to, r.idx)
		}
		// detection byte + pipelined bytes through the wrapper: zero-length read first
		if n, err := ret.w.Read(nil); n != 0 || err != nil {
			m.fail("wrapper-zero-read :: Read(nil) = %d, %v", n, err)
		}
		got, _ := io.ReadAll(ret.w)
		if !bytes.Equal(got, r.preload) {
			m.fail("wrapper-bytes-not-intact :: conn%d: client sent % x, handler read % x", r.idx, r.preload, got)
		}
	}
}

func c18MuxBody(progs []c18Prog, crashOnly bool) func(e *vsched.Exec) {
	return func(e *vsched.Exec) {
		prog := progs[e.Choose(len(progs), vsched.KFree, "program")]
		e.Logf("program: %s", prog)
		m := &c18Mux{e: e, base: vnet.NewListener("base"), crashOnly: crashOnly}
		if prog.count(c18C5)+prog.count(c18CG)+prog.count(c18CE) > 0 {
			m.zeroFirst = e.Choose(2, vsched.KFree, "zero-first-read") == 1
		}
		m.pendingL = [2]int{prog.count(c18LS), prog.count(c18LH)}
		m.ml = newMuxListener(m.base, func() { m.deleted++ })
		m.run(prog[0]) // the Listen that made the manager create the mux
		for _, op := range prog[1:] {
			op := op
			vsched.GoNamed(c18OpNames[op], func() { m.run(op) })
		}
		m.finish()
	}
}

// c18FirstByteBody: both protocols registered, one Accept pending on each, one connection whose
// first byte is any of the 256 values (cost-free choice).
func c18FirstByteBody(e *vsched.Exec) {
	b := e.Choose(256, vsched.KFree, "first-byte")
	m := &c18Mux{e: e, base: vnet.NewListener("base")}
	m.zeroFirst = e.Choose(2, vsched.KFree, "zero-first-read") == 1
	m.pendingL = [2]int{1, 1}
	m.ml = newMuxListener(m.base, func() { m.deleted++ })
	m.run(c18LS)
	vsched.GoNamed("ListenHTTP", func() { m.run(c18LH) })
	vsched.GoNamed("AcceptSOCKS", func() { m.run(c18AS) })
	vsched.GoNamed("AcceptHTTP", func() { m.run(c18AH) })
	vsched.GoNamed("conn", func() { m.deliver(b, []byte{byte(b), 5, 'G', 0}) })
	m.finish()
}

// finish: wait for quiescence, tear down, run the final-state oracle.
func (m *c18Mux) finish() {
	e := m.e
	e.WaitIdle()
	// teardown: close whatever the program left open (a Close like any other)
	for _, s := range m.subs {
		if !s.closed {
			s.closed = true
			_ = s.l.Close()
		}
	}
	e.WaitIdle()
	if m.deleted == 0 {
		// mainLoop snapshots the sub-listeners' close channels before it blocks in select; a
		// Listen that registered after the snapshot is not watched, so its Close is noticed
		// only at the next connection (see NOTES.md). One more incoming connection (immediate
		// EOF, inside the oracle like any other) lets the mux see the closes and shut down.
		e.Logf("mux still running after every sub-listener closed: poke")
		m.run(c18CE)
		e.WaitIdle()
	}
	m.check()
	if m.deleted > 1 {
		e.Fail("delete-func-called-twice :: %d", m.deleted)
	}
}

var c18ThreadID = regexp.MustCompile(`T\d+\(`)
var c18Frame = regexp.MustCompile(`proxymux\.\(\*?(\w+)\)\.(\w+)|proxymux\.(\w+)`)

// c18Sig reduces an outcome to a stable signature: clause id for oracle failures, message +
// innermost proxymux function for panics, blocked operations (thread ids removed) otherwise.
func c18Sig(o *vsched.Outcome) string {
	norm := func(s []string) string {
		var out []string
		for _, x := range s {
			out = append(out, c18ThreadID.ReplaceAllString(x, "("))
		}
		sort.Strings(out)
		return strings.Join(out, "|")
	}
	switch o.Kind {
	case "fail":
		d := o.Detail
		if i := strings.Index(d, " :: "); i >= 0 {
			d = d[:i]
		}
		return d
	case "panic":
		fn := "unknown"
		for _, l := range strings.Split(o.Stack, "\n") {
			if strings.Contains(l, "c18") || strings.Contains(l, "zz_verif") {
				continue
			}
			if mm := c18Frame.FindStringSubmatch(l); mm != nil {
				fn = mm[1] + "." + mm[2] + mm[3]
				break
			}
		}
		d := o.Detail
		if i := strings.IndexByte(d, '\n'); i >= 0 {
			d = d[:i]
		}
		return "panic:" + d + "@" + strings.Trim(fn, ".")
	case "deadlock":
		return "deadlock:" + norm(strings.Split(o.Detail, " | "))
	case "ok":
		return "thread-leak:" + norm(o.Leaked)
	}
	return o.Kind + ":" + o.Detail
}

// Bounds (P = scheduling deviations from the default schedule, "delay bounding"): programs of <=4
// operations with P<=2 (quick) / P<=3 (thorough; the "route" family, in which no Close races with
// a connection, stays at 2), programs of exactly 5 operations with P<=1 (quick) / P<=2 (thorough;
// "route" stays at 1). Sized from measured runs: see NOTES.md.
func c18MuxScenarios(_ bool) []*explore.Scenario {
	mk := func(name string, progs []c18Prog, pq, pt int) *explore.Scenario {
		return &explore.Scenario{Name: name, Quick: explore.Bounds{P: pq}, Thorough: explore.Bounds{P: pt}, Body: c18MuxBody(progs, false), Sig: c18Sig}
	}
	// programs that register a protocol again after closing it while a connection of that
	// protocol is around: L_t .. X_t .. L_t with a C_t anywhere
	var relisten []c18Prog
	for _, p := range c18ProgramsUpTo(4, "close") {
		if c18Relisten(p) {
			relisten = append(relisten, p)
		}
	}
	rl := mk("mux-relisten", relisten, 2, 3)
	rl.Body = c18MuxBody(relisten, true)
	fb := &explore.Scenario{Name: "mux-firstbyte", Quick: explore.Bounds{P: 1}, Thorough: explore.Bounds{P: 2}, Body: c18FirstByteBody, Sig: c18Sig}
	return []*explore.Scenario{
		rl,
		fb,
		mk("mux", c18ProgramsUpTo(4, "close"), 2, 3),
		mk("mux-unrouted", c18ProgramsUpTo(4, "unrouted"), 2, 3),
		mk("mux-route", c18ProgramsUpTo(4, "route"), 2, 2),
		mk("mux5", c18Programs(5, "close"), 1, 2),
		mk("mux-unrouted5", c18Programs(5, "unrouted"), 1, 2),
		mk("mux-route5", c18Programs(5, "route"), 1, 1),
	}
}

func TestVerifC18Mux(t *testing.T) {
	explore.Main(t, "C18", c18MuxScenarios(false))
}
