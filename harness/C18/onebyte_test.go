package proxymux

// C18 harness, unit "onebyte" (injected by overlay into app/internal/proxymux, not rewritten).
//
// connWithOneByte - the wrapper that replays the protocol-detection byte - under every read
// pattern: detection byte x pipelined tail x every sequence of <=4 read-buffer sizes (incl.
// zero-length reads, first and later) followed by ReadAll x every chunking of the underlying
// connection x zero-length reads of the underlying connection.

import (
	"bytes"
	"encoding/json"
	"fmt"
	"io"
	"net"
	"testing"
	"time"

	"verif.local/engine/enum"
	"verif.local/engine/evidence"
)

type c18Script struct {
	data   []byte
	cuts   []int
	pos    int
	zero   bool
	zeroNx bool
	reads  int
}

func (c *c18Script) Read(p []byte) (int, error) {
	c.reads++
	if len(p) == 0 {
		return 0, nil
	}
	if c.zero {
		c.zeroNx = !c.zeroNx
		if c.zeroNx {
			return 0, nil
		}
	}
	if c.pos >= len(c.data) {
		return 0, io.EOF
	}
	end := len(c.data)
	for _, k := range c.cuts {
		if k > c.pos {
			end = k
			break
		}
	}
	n := copy(p, c.data[c.pos:end])
	c.pos += n
	return n, nil
}
func (c *c18Script) Write(p []byte) (int, error)        { return len(p), nil }
func (c *c18Script) Close() error                       { return nil }
func (c *c18Script) LocalAddr() net.Addr                { return &net.TCPAddr{} }
func (c *c18Script) RemoteAddr() net.Addr               { return &net.TCPAddr{} }
func (c *c18Script) SetDeadline(t time.Time) error      { return nil }
func (c *c18Script) SetReadDeadline(t time.Time) error  { return nil }
func (c *c18Script) SetWriteDeadline(t time.Time) error { return nil }

type c18ByteCase struct {
	First byte   `json:"first"`
	Tail  []byte `json:"tail"`
	Sizes []int  `json:"read_sizes"` // buffer sizes of the first Read calls; then ReadAll
	Cuts  []int  `json:"underlying_cuts,omitempty"`
	Zero  bool   `json:"underlying_zero_reads,omitempty"`
}

func c18ByteRun(c *c18ByteCase) (clause, detail string) {
	val, stack := evidence.Catch(func() { clause, detail = c18ByteRunInner(c) })
	if val != nil {
		return "panic", fmt.Sprintf("panic: %v at %s", val, evidence.PanicSite(stack))
	}
	return
}

func c18ByteRunInner(c *c18ByteCase) (string, string) {
	under := &c18Script{data: append(make([]byte, 0, len(c.Tail)), c.Tail...), cuts: c.Cuts, zero: c.Zero}
	w := &connWithOneByte{Conn: under, b: c.First}
	want := append([]byte{c.First}, c.Tail...)
	var got []byte
	for i, sz := range c.Sizes {
		buf := bytes.Repeat([]byte{0xEE}, sz+2) // two guard bytes behind the buffer handed out
		n, err := w.Read(buf[:sz:sz])
		if n < 0 || n > sz {
			return "read-count-out-of-range", fmt.Sprintf("read %d with a %d-byte buffer returned n=%d", i, sz, n)
		}
		if sz == 0 && (n != 0 || (err != nil && err != io.EOF)) {
			return "zero-length-read", fmt.Sprintf("read %d with an empty buffer returned (%d, %v)", i, n, err)
		}
		if buf[sz] != 0xEE || buf[sz+1] != 0xEE {
			return "write-beyond-buffer", fmt.Sprintf("read %d wrote behind its %d-byte buffer", i, sz)
		}
		got = append(got, buf[:n]...)
		if err != nil && err != io.EOF {
			return "unexpected-error", fmt.Sprintf("read %d: %v", i, err)
		}
		if err == io.EOF && len(got) < len(want) {
			return "early-eof", fmt.Sprintf("EOF after % x, expected % x", got, want)
		}
	}
	rest, err := io.ReadAll(w)
	if err != nil {
		return "unexpected-error", fmt.Sprintf("ReadAll: %v", err)
	}
	got = append(got, rest...)
	if !bytes.Equal(got, want) {
		return "bytes-not-intact", fmt.Sprintf("detection byte + tail % x, handler read % x (read sizes %v)", want, got, c.Sizes)
	}
	return "", ""
}

func c18ByteEnumerate(sh *evidence.Shard) {
	env := sh.Env()
	p := sh.Part("onebyte-wrapper", "enum")
	firsts := []byte{5, 'G', 0, 0xff}
	tails := [][]byte{nil, []byte("a"), []byte("ab"), {5, 5, 0, 'G'}}
	sizes := []int{0, 1, 2, 5}
	p.Alphabet = map[string]any{"detection_byte": firsts, "tail": []string{"", "a", "ab", "05 05 00 47"}, "read_buffer_sizes": sizes, "reads_before_ReadAll": "every sequence of length 0..4", "underlying": "every chunking of the tail, with and without zero-length reads"}
	reported := map[string]bool{}
	var item int64
	for _, f := range firsts {
		for _, tail := range tails {
			enum.Sequences(len(sizes), 4, func(seq []int) bool {
				enum.Splits(len(tail), 8, nil, 0, func(cuts []int) bool {
					for _, z := range []bool{false, true} {
						item++
						if !env.Mine(item) {
							continue
						}
						c := &c18ByteCase{First: f, Tail: tail, Cuts: append([]int(nil), cuts...), Zero: z}
						for _, s := range seq {
							c.Sizes = append(c.Sizes, sizes[s])
						}
						p.Evaluations++
						clause, detail := c18ByteRun(c)
						firstZero := len(c.Sizes) > 0 && c.Sizes[0] == 0
						p.Class(len(tail), fmt.Sprint(c.Sizes), len(cuts), z, firstZero, clause)
						if p.Evaluations%4001 == 3 {
							p.Sample(c)
						}
						if clause != "" && !reported[clause] {
							reported[clause] = true
							sh.Violate(p.Name, fmt.Sprintf("%s/%s/first=%02x,tail=%x,sizes=%v,cuts=%v,zero=%v", p.Name, clause, f, tail, c.Sizes, cuts, z), detail, c)
						}
					}
					return true
				})
				return true
			})
		}
	}
}

func c18ByteReplay(part string, raw json.RawMessage) (bool, bool, string) {
	if part != "onebyte-wrapper" {
		return false, false, ""
	}
	var c c18ByteCase
	if err := json.Unmarshal(raw, &c); err != nil {
		return true, false, err.Error()
	}
	clause, detail := c18ByteRun(&c)
	return true, clause != "", clause + ": " + detail
}

func TestVerifC18OneByte(t *testing.T) {
	evidence.Main(t, "C18", evidence.Seq{Run: c18ByteEnumerate, Replay: c18ByteReplay})
}
