package http

// C18, HTTP inbound under concurrency: two local connections are served at the same time while
// upstream dials are pending. Added after the independently seeded change C18-2 (a pooled
// bufio.Reader whose Peek()ed bytes alias a buffer another connection reuses) was missed by the
// one-connection-at-a-time enumeration: the property quantifies over every client byte stream
// on every connection, and connections of a shared listener are served concurrently.

import (
	"bytes"
	"fmt"
	"io"
	"net"
	"strings"
	"testing"

	"github.com/apernet/hysteria/core/v2/client"
	"verif.local/engine/explore"
	"verif.local/engine/vnet"
	"verif.local/engine/vsched"
	"verif.local/engine/vsync"
)

type c18cClient struct {
	e     *vsched.Exec
	ups   map[string]*vnet.Conn // harness end of the upstream pipe per request address
	dials []string
}

func (c *c18cClient) TCP(addr string) (net.Conn, error) {
	// the dial takes a while: other connections are served meanwhile
	c.e.Point("env", nil, "HyClient.TCP "+addr)
	c.dials = append(c.dials, addr)
	srv, tgt := vnet.Pipe("up>"+addr, "upstream:"+addr, 1<<16)
	c.ups[addr] = tgt
	c.e.Point("env", nil, "HyClient.TCP returns "+addr)
	return srv, nil
}

func (c *c18cClient) UDP() (client.HyUDPConn, error) { return nil, fmt.Errorf("no udp") }
func (c *c18cClient) Close() error                  { return nil }

func c18cRun(e *vsched.Exec, reqs []string, payloads []string) {
	hc := &c18cClient{e: e, ups: map[string]*vnet.Conn{}}
	s := &Server{HyClient: hc, AuthFunc: func(u, p string) bool { return u == "u" && p == "p" }}
	var wg vsync.WaitGroup
	var locals []*vnet.Conn
	for i := range reqs {
		srvEnd, cli := vnet.Pipe(fmt.Sprintf("conn%d", i), fmt.Sprintf("client%d", i), 1<<16)
		locals = append(locals, cli)
		// the whole first flight (header + pipelined bytes) is already in the socket
		_, _ = cli.Write([]byte(reqs[i] + payloads[i]))
		wg.Add(1)
		vsched.GoNamed(fmt.Sprintf("dispatch%d", i), func() {
			defer wg.Done()
			s.dispatch(srvEnd)
		})
	}
	// upstream side: read what arrives for each target, then close to end the tunnels
	got := map[string]*bytes.Buffer{}
	var rg vsync.WaitGroup
	for i := range reqs {
		addr := fmt.Sprintf("t%d.example:443", i)
		want := len(payloads[i])
		got[addr] = &bytes.Buffer{}
		if !strings.HasPrefix(reqs[i], "CONNECT") || !strings.Contains(reqs[i], "dTpw") {
			continue
		}
		rg.Add(1)
		vsched.GoNamed("upstream-"+addr, func() {
			defer rg.Done()
			e.Point("env", func() bool { return hc.ups[addr] != nil }, "upstream waits for dial")
			u := hc.ups[addr]
			buf := make([]byte, 64)
			for got[addr].Len() < want {
				n, err := u.Read(buf)
				got[addr].Write(buf[:n])
				if err != nil {
					break
				}
			}
			_ = u.Close()
		})
	}
	rg.Wait()
	for _, l := range locals {
		_ = l.Close()
	}
	wg.Wait()
	for i := range reqs {
		addr := fmt.Sprintf("t%d.example:443", i)
		authorised := strings.Contains(reqs[i], "dTpw")
		if !authorised {
			for _, d := range hc.dials {
				if d == addr {
					e.Fail("connection %d: upstream dialled without accepted credentials", i)
				}
			}
			continue
		}
		if strings.HasPrefix(reqs[i], "CONNECT") && got[addr].String() != payloads[i] {
			e.Fail("connection %d: bytes pipelined behind the CONNECT header reached the upstream as %q, sent %q", i, got[addr].String(), payloads[i])
		}
	}
	e.Logf("dials=%v", hc.dials)
	e.WaitIdle()
}

func c18cScenarios() []*explore.Scenario {
	connect := func(i int, auth bool) string {
		a := ""
		if auth {
			a = "Proxy-Authorization: Basic dTpw\r\n"
		}
		return fmt.Sprintf("CONNECT t%d.example:443 HTTP/1.1\r\nHost: t%d.example:443\r\n%s\r\n", i, i, a)
	}
	mk := func(name string, reqs, pays []string, q, t explore.Bounds) *explore.Scenario {
		return &explore.Scenario{Name: name, Quick: q, Thorough: t, Body: func(e *vsched.Exec) { c18cRun(e, reqs, pays) }}
	}
	q, t := explore.Bounds{P: 2}, explore.Bounds{P: 3}
	return []*explore.Scenario{
		mk("two-connects-pipelined", []string{connect(0, true), connect(1, true)}, []string{"AAAAAAAA-payload-of-A", "bbbb-B"}, q, t),
		mk("connect-vs-unauthorised", []string{connect(0, true), connect(1, false)}, []string{"AAAAAAAA-payload-of-A", strings.Repeat("x", 40)}, q, t),
		mk("connect-vs-bad-request", []string{connect(0, true), "GARBAGE\r\n\r\n"}, []string{"AAAAAAAA-payload-of-A", strings.Repeat("y", 60)}, q, t),
		mk("three-connects", []string{connect(0, true), connect(1, true), connect(2, true)}, []string{"AAAA", "bbbbbbbbbbbbbbbb", "C"}, explore.Bounds{P: 1}, explore.Bounds{P: 2}),
	}
}

func TestVerifC18HTTPConc(t *testing.T) { explore.Main(t, "C18", c18cScenarios()) }

var _ = io.EOF
