package http

// C18 harness, unit "http" (injected by overlay into app/internal/http).
//
// CONNECT / GET absolute-URI / GET relative requests x Proxy-Authorization variants x bytes
// pipelined behind the header, delivered whole, truncated at every offset, and in every
// chunking with <=2 cuts over the header/body boundaries (+-1), byte-at-a-time, with and
// without zero-length reads, are fed to the real Server.dispatch through a scripted net.Conn.
// A fake client.Client records TCP() and hands out one end of a vnet pipe as the upstream conn.

import (
	"bytes"
	"encoding/base64"
	"encoding/json"
	"errors"
	"fmt"
	"io"
	"net"
	"strings"
	"sync"
	"testing"
	"time"

	"github.com/apernet/hysteria/core/v2/client"
	"verif.local/engine/evidence"
	"verif.local/engine/vnet"
)

type c18Ev struct {
	Kind string // auth | tcp | connectreq | httpreq
	A, B string
	OK   bool
}

type c18Log struct {
	mu sync.Mutex
	ev []c18Ev
}

func (l *c18Log) add(e c18Ev) {
	l.mu.Lock()
	l.ev = append(l.ev, e)
	l.mu.Unlock()
}

type c18Addr string

func (a c18Addr) Network() string { return "tcp" }
func (a c18Addr) String() string  { return string(a) }

type c18Conn struct {
	mu     sync.Mutex
	data   []byte
	cuts   []int
	pos    int
	zero   bool
	zeroNx bool
	// eofLast: the Read call that delivers the last bytes of data also reports io.EOF (n > 0
	// together with io.EOF; legal for io.Reader, done by TLS conns, pipes and wrapped conns).
	// Added after the independently seeded change C18-10 (hand-written relay loop that checks the
	// Read error before using the bytes returned by the same call).
	eofLast bool
	wrote   []byte
	closes  int
}

func (c *c18Conn) Read(p []byte) (int, error) {
	c.mu.Lock()
	defer c.mu.Unlock()
	if c.closes > 0 {
		return 0, net.ErrClosed
	}
	if len(p) == 0 {
		return 0, nil
	}
	if c.zero {
		c.zeroNx = !c.zeroNx
		if c.zeroNx {
			return 0, nil
		}
	}
	if c.pos >= len(c.data) {
		return 0, io.EOF
	}
	end := len(c.data)
	for _, k := range c.cuts {
		if k > c.pos {
			end = k
			break
		}
	}
	n := copy(p, c.data[c.pos:end])
	c.pos += n
	if c.eofLast && c.pos == len(c.data) {
		return n, io.EOF
	}
	return n, nil
}

func (c *c18Conn) Write(p []byte) (int, error) {
	c.mu.Lock()
	defer c.mu.Unlock()
	if c.closes > 0 {
		return 0, net.ErrClosed
	}
	c.wrote = append(c.wrote, p...)
	return len(p), nil
}

func (c *c18Conn) Close() error {
	c.mu.Lock()
	defer c.mu.Unlock()
	c.closes++
	return nil
}
func (c *c18Conn) LocalAddr() net.Addr                { return c18Addr("127.0.0.1:8080") }
func (c *c18Conn) RemoteAddr() net.Addr               { return c18Addr("127.0.0.1:40000") }
func (c *c18Conn) SetDeadline(t time.Time) error      { return nil }
func (c *c18Conn) SetReadDeadline(t time.Time) error  { return nil }
func (c *c18Conn) SetWriteDeadline(t time.Time) error { return nil }

type c18Client struct {
	log      *c18Log
	failDial bool // plain (non-CONNECT) requests: record the dial, then refuse it
	mu       sync.Mutex
	peers    []*vnet.Conn
}

func (c *c18Client) TCP(addr string) (net.Conn, error) {
	c.log.add(c18Ev{Kind: "tcp", A: addr})
	if c.failDial {
		return nil, errors.New("c18: dial refused")
	}
	up, peer := vnet.Pipe("c18-up", "c18-peer", 1<<16)
	c.mu.Lock()
	c.peers = append(c.peers, peer)
	c.mu.Unlock()
	return up, nil
}
func (c *c18Client) UDP() (client.HyUDPConn, error) {
	c.log.add(c18Ev{Kind: "udp"})
	return nil, errors.New("c18: no udp")
}
func (c *c18Client) Close() error { return nil }

type c18Logger struct{ log *c18Log }

func (l c18Logger) ConnectRequest(addr net.Addr, reqAddr string) {
	l.log.add(c18Ev{Kind: "connectreq", A: reqAddr})
}
func (l c18Logger) ConnectError(addr net.Addr, reqAddr string, err error) {}
func (l c18Logger) HTTPRequest(addr net.Addr, reqURL string) {
	l.log.add(c18Ev{Kind: "httpreq", A: reqURL})
}
func (l c18Logger) HTTPError(addr net.Addr, reqURL string, err error) {}

// ---- alphabet --------------------------------------------------------------------------------

// Proxy-Authorization variants. Expect: what RFC 7235/7617 + the property demand when AuthFunc
// (accepting only u:p) is configured: accept = the request must be served, reject = it must not
// open anything, either = both are allowed but the gate (no TCP before an accepted AuthFunc call)
// still applies.
type c18AuthVariant struct {
	Name   string
	Lines  string
	Expect string
}

var c18AuthVariants = []c18AuthVariant{
	{"absent", "", "reject"},
	{"basic-good", "Proxy-Authorization: Basic dTpw\r\n", "accept"},
	{"basic-bad", "Proxy-Authorization: Basic eDp5\r\n", "reject"},
	{"basic-bad-pass", "Proxy-Authorization: Basic dTp5\r\n", "reject"},
	{"malformed-base64", "Proxy-Authorization: Basic !!!!\r\n", "reject"},
	{"other-scheme", "Proxy-Authorization: Bearer dTpw\r\n", "reject"},
	{"lowercase-scheme", "Proxy-Authorization: basic dTpw\r\n", "either"},
	{"lowercase-scheme-bad", "Proxy-Authorization: basic eDp5\r\n", "reject"},
	{"uppercase-scheme", "Proxy-Authorization: BASIC dTpw\r\n", "either"},
	{"lowercase-name", "proxy-authorization: Basic dTpw\r\n", "accept"},
	{"no-colon", "Proxy-Authorization: Basic dXA=\r\n", "reject"},
	{"scheme-only", "Proxy-Authorization: Basic\r\n", "reject"},
	{"short-value", "Proxy-Authorization: Bas\r\n", "reject"},
	{"empty-value", "Proxy-Authorization:\r\n", "reject"},
	{"double-space", "Proxy-Authorization: Basic  dTpw\r\n", "either"},
	{"dup-bad-good", "Proxy-Authorization: Basic eDp5\r\nProxy-Authorization: Basic dTpw\r\n", "either"},
	{"dup-good-bad", "Proxy-Authorization: Basic dTpw\r\nProxy-Authorization: Basic eDp5\r\n", "either"},
	{"www-authorization-only", "Authorization: Basic dTpw\r\n", "reject"},
	// the accepted credential with base64 letters in the other case: different bytes, must be refused
	{"basic-good-last-letter-upper", "Proxy-Authorization: Basic dTpW\r\n", "reject"},
	{"basic-good-all-lower", "Proxy-Authorization: Basic dtpw\r\n", "reject"},
	{"basic-good-all-upper", "Proxy-Authorization: Basic DTPW\r\n", "reject"},
}

// Passwords containing ':' (RFC 7617 section 2: the user-id and the password are separated by the
// FIRST colon of the decoded user-pass; the password may itself contain colons, the user-id may
// not). c18Passwords is what AuthFunc accepts for user "u" (index 0 = "p", what every other part
// uses); c18Presented are the decoded user-pass strings a client puts behind "Basic ". A request
// must be served iff the presented user-pass, split at its first colon, is exactly ("u", accepted
// password); anything else - in particular a password that only STARTS with, or only contains, the
// accepted one up to a colon - must not open anything.
// Added after the independently seeded change C18-11 (user-pass split on every colon instead of
// the first only: AuthFunc is asked about the password truncated at its first colon).
var c18Passwords = []string{"p", "p:q", "p:", ":p", "p::q"}

var c18Presented = []string{"u:p", "u:p:q", "u:p:", "u::p", "u:p::q", "u:p:q:r", "u:p:x", "u:", ":u:p", "u:q:p"}

type c18Kind struct {
	Name, Head string // request line + Host header
	Addr       string // what a served request dials
	Status     string // response status of a served request
}

var c18Kinds = []c18Kind{
	{"connect", "CONNECT example.com:443 HTTP/1.1\r\nHost: example.com:443\r\n", "example.com:443", "200"},
	{"get-absolute", "GET http://example.com/p HTTP/1.1\r\nHost: example.com\r\n", "example.com:80", "502"}, // dial refused by the fake
	{"get-relative", "GET /p HTTP/1.1\r\nHost: example.com\r\n", "", "400"},
}

// Message-framing / connection-persistence header fields a client may legally put on the request
// (RFC 9110 section 8.6 / 9.3.6, RFC 9112 section 6 and 9.6): they change how net/http frames the
// request message (req.Body, req.ContentLength, req.Close) but not what the property demands: a
// CONNECT header ends at its empty line and EVERY byte behind it belongs to the tunnel, whatever
// length the header announces; the credential gate and the status of a served request do not
// depend on them either. Index 0 (none) is what the other parts use.
// Added after the independently seeded change C18-7 (req.Body.Close() on a CONNECT request before
// taking over the connection: net/http drains Content-Length / chunked "body" bytes from the
// bufio.Reader, so the first bytes pipelined behind such a CONNECT header never reach the upstream).
type c18Extra struct{ Name, Lines string }

var c18Extras = []c18Extra{
	{"none", ""},
	{"content-length-0", "Content-Length: 0\r\n"},
	{"content-length-1", "Content-Length: 1\r\n"},
	{"content-length-5", "Content-Length: 5\r\n"},
	{"content-length-9", "Content-Length: 9\r\n"},
	{"content-length-100-more-than-follows", "Content-Length: 100\r\n"},
	{"transfer-encoding-chunked", "Transfer-Encoding: chunked\r\n"},
	{"connection-close", "Connection: close\r\n"},
	{"content-length-5+connection-close", "Content-Length: 5\r\nConnection: close\r\n"},
	{"connection-keep-alive", "Connection: keep-alive\r\n"},
	{"proxy-connection-keep-alive", "Proxy-Connection: keep-alive\r\n"},
	{"expect-100-continue+content-length-5", "Expect: 100-continue\r\nContent-Length: 5\r\n"},
}

var c18Bodies = [][]byte{nil, []byte("Z"), {0x16, 0x03, 0x01, 0x02, 0x00}, append([]byte{0x16, 0x03, 0x01, 0x02, 0x00}, "late"...)}

type c18Case struct {
	Kind    int    `json:"kind"`
	Variant int    `json:"auth_variant"`
	Body    int    `json:"body"`
	Trunc   int    `json:"truncate_at"` // -1 = whole stream
	Cuts    []int  `json:"cuts,omitempty"`
	Zero    bool   `json:"zero_reads,omitempty"`
	Auth    bool   `json:"auth_configured"`
	Desc    string `json:"desc,omitempty"`
	// Warm: another local client has authenticated with the right credentials on its own connection
	// to the same Server before this connection arrives
	Warm bool `json:"after_another_connection_authenticated,omitempty"`
	// Extra: index into c18Extras, a framing header field after the Proxy-Authorization lines
	Extra int `json:"framing_header,omitempty"`
	// EOFLast: the client connection reports io.EOF in the same Read call that returns the last
	// bytes of the stream (instead of a separate (0, io.EOF) afterwards)
	EOFLast bool `json:"eof_with_last_bytes,omitempty"`
	// Presented: when non-empty, the request carries "Proxy-Authorization: Basic base64(Presented)"
	// instead of the lines of Variant; Pass: index into c18Passwords, the password AuthFunc accepts
	// for user "u" (colon-in-password part, added after the seeded change C18-11)
	Presented string `json:"presented_userpass,omitempty"`
	Pass      int    `json:"accepted_password,omitempty"`
}

// variant: the Proxy-Authorization lines of the case and what is expected of them.
func (c *c18Case) variant() c18AuthVariant {
	if c.Presented == "" {
		return c18AuthVariants[c.Variant]
	}
	v := c18AuthVariant{
		Name:   fmt.Sprintf("basic(%s)-accepted(u:%s)", c.Presented, c18Passwords[c.Pass]),
		Lines:  "Proxy-Authorization: Basic " + base64.StdEncoding.EncodeToString([]byte(c.Presented)) + "\r\n",
		Expect: "reject",
	}
	if c.Presented == "u:"+c18Passwords[c.Pass] { // the user-id "u" has no colon: first-colon split
		v.Expect = "accept"
	}
	return v
}

func (c *c18Case) desc() string {
	d := c18Kinds[c.Kind].Name + "/" + c.variant().Name
	if c.Extra != 0 {
		d += "/" + c18Extras[c.Extra].Name
	}
	return d
}

func (c *c18Case) header() []byte {
	return []byte(c18Kinds[c.Kind].Head + c.variant().Lines + c18Extras[c.Extra].Lines + "\r\n")
}

func (c *c18Case) stream() []byte {
	s := append(c.header(), c18Bodies[c.Body]...)
	if c.Trunc >= 0 && c.Trunc < len(s) {
		s = s[:c.Trunc]
	}
	return append(make([]byte, 0, len(s)), s...)
}

func c18HTTPRun(c *c18Case) (clause, detail string) {
	val, stack := evidence.Catch(func() { clause, detail = c18HTTPRunInner(c) })
	if val != nil {
		return "panic", fmt.Sprintf("panic: %v at %s", val, evidence.PanicSite(stack))
	}
	return
}

func c18HTTPRunInner(c *c18Case) (string, string) {
	k, v := c18Kinds[c.Kind], c.variant()
	hdr := c.header()
	stream := c.stream()
	complete := len(stream) >= len(hdr)
	var body []byte
	if complete {
		body = stream[len(hdr):]
	}
	log := &c18Log{}
	hy := &c18Client{log: log, failDial: k.Name != "connect"}
	s := &Server{HyClient: hy, EventLogger: c18Logger{log}, AuthRealm: "c18"}
	if c.Auth {
		s.AuthFunc = func(u, p string) bool {
			ok := u == "u" && p == c18Passwords[c.Pass]
			log.add(c18Ev{Kind: "auth", A: u, B: p, OK: ok})
			return ok
		}
	}
	if c.Warm {
		w := &c18Case{Kind: 0, Variant: 1, Body: 0, Trunc: -1, Auth: true}
		if c.Pass != 0 {
			w.Presented, w.Pass = "u:"+c18Passwords[c.Pass], c.Pass
		}
		s.dispatch(&c18Conn{data: w.stream()})
		log.mu.Lock()
		log.ev = nil
		log.mu.Unlock()
	}
	conn := &c18Conn{data: stream, cuts: c.Cuts, zero: c.Zero, eofLast: c.EOFLast}
	s.dispatch(conn)
	if s.httpClient != nil {
		s.httpClient.CloseIdleConnections()
	}

	log.mu.Lock()
	evs := append([]c18Ev(nil), log.ev...)
	log.mu.Unlock()
	accepted := false
	var ups []c18Ev
	for _, ev := range evs {
		if ev.Kind == "auth" {
			accepted = accepted || ev.OK
			continue
		}
		if c.Auth && !accepted && !c.Warm {
			return "upstream-before-auth", fmt.Sprintf("%s(%s) before any accepted AuthFunc call; events %v", ev.Kind, ev.A, evs)
		}
		ups = append(ups, ev)
	}
	status := ""
	if w := string(conn.wrote); strings.HasPrefix(w, "HTTP/1.1 ") && len(w) >= 12 {
		status = w[9:12]
	}
	if !complete {
		if len(ups) > 0 {
			return "upstream-for-incomplete-header", fmt.Sprintf("header truncated at %d of %d, events %v", len(stream), len(hdr), evs)
		}
		if conn.closes == 0 {
			return "client-conn-not-closed", "incomplete header: connection left open"
		}
		return "", ""
	}
	if c.Warm {
		// whether AuthFunc is consulted again for credentials it has seen is the server's business;
		// what counts is that only a request carrying the right credentials is served
		servedNow := len(ups) > 0 || (status != "407" && status != "")
		switch v.Expect {
		case "reject":
			if servedNow {
				return "upstream-without-credentials", fmt.Sprintf("variant %s must be rejected also after another connection authenticated; events %v, response %q", v.Name, evs, status)
			}
			accepted = false
		case "accept":
			if !servedNow {
				return "good-credentials-not-accepted", fmt.Sprintf("variant %s carries u:p but was not served after another connection authenticated; events %v, response %q", v.Name, evs, status)
			}
			accepted = true
		default:
			accepted = servedNow
		}
	}
	served := !c.Auth || accepted
	if c.Auth {
		switch v.Expect {
		case "reject":
			if accepted || len(ups) > 0 {
				return "upstream-without-credentials", fmt.Sprintf("variant %s must be rejected; events %v", v.Name, evs)
			}
		case "accept":
			if !accepted {
				return "good-credentials-not-accepted", fmt.Sprintf("variant %s carries u:p but AuthFunc did not accept; events %v, response %q", v.Name, evs, status)
			}
		}
		if !served {
			if status != "407" {
				return "rejection-without-407", fmt.Sprintf("unauthenticated request answered with %q (%q)", status, c18Trunc(conn.wrote))
			}
			if !strings.Contains(string(conn.wrote), "Proxy-Authenticate: Basic realm=\"c18\"") {
				return "407-without-challenge", fmt.Sprintf("%q", c18Trunc(conn.wrote))
			}
			if len(ups) != 0 {
				return "upstream-without-credentials", fmt.Sprintf("rejected request but events %v", evs)
			}
			if conn.closes == 0 {
				return "client-conn-not-closed", "rejected request: connection left open"
			}
			return "", ""
		}
	}
	// served request
	var tcp []string
	for _, ev := range ups {
		if ev.Kind == "tcp" {
			tcp = append(tcp, ev.A)
		}
	}
	if status != k.Status {
		return "served-request-wrong-status", fmt.Sprintf("%s: status %q, expected %s (%q)", k.Name, status, k.Status, c18Trunc(conn.wrote))
	}
	if k.Addr == "" {
		if len(tcp) != 0 {
			return "dial-for-relative-request", fmt.Sprintf("TCP calls %v", tcp)
		}
	} else if len(tcp) != 1 || tcp[0] != k.Addr {
		return "served-request-wrong-dial", fmt.Sprintf("%s: TCP calls %v, expected exactly [%s]", k.Name, tcp, k.Addr)
	}
	if k.Name == "connect" {
		hy.mu.Lock()
		peer := hy.peers[len(hy.peers)-1] // (the first one belongs to the warm-up connection, if any)
		hy.mu.Unlock()
		got, _ := io.ReadAll(peer)
		if !bytes.Equal(got, body) {
			return "relay-not-intact", fmt.Sprintf("client sent % x behind the CONNECT header, upstream received % x", body, got)
		}
	}
	if conn.closes == 0 {
		return "client-conn-not-closed", "served request: connection left open after client EOF"
	}
	return "", ""
}

func c18Trunc(b []byte) string {
	if len(b) > 120 {
		b = b[:120]
	}
	return string(b)
}

// ---- enumeration -----------------------------------------------------------------------------

type c18HTTPEnum struct {
	sh       *evidence.Shard
	reported map[string]bool
}

func (x *c18HTTPEnum) one(p *evidence.Part, c *c18Case) {
	p.Evaluations++
	clause, detail := c18HTTPRun(c)
	p.Class(c.Kind, c.Variant, c.Body, c.Trunc >= 0, len(c.Cuts) > 2, len(c.Cuts), c.Zero, c.Auth, c.Extra, c.EOFLast, c.Presented, c.Pass, clause)
	if p.Evaluations%1009 == 5 {
		cc := *c
		cc.Desc = c.desc()
		p.Sample(&cc)
	}
	if clause != "" {
		key := p.Name + "/" + clause
		if x.reported[key] {
			return
		}
		x.reported[key] = true
		cc := *c
		cc.Desc = c.desc()
		sig := fmt.Sprintf("%s/%s/%s,body=%d,trunc=%d,cuts=%v,zero=%v,auth=%v", p.Name, clause, cc.Desc, c.Body, c.Trunc, c.Cuts, c.Zero, c.Auth)
		if c.EOFLast {
			sig += ",eof-with-last-bytes"
		}
		x.sh.Violate(p.Name, sig, detail, &cc)
	}
}

// c18Offsets: boundaries of the stream (+-1): request line end, every header line end, header
// end, every body byte.
func c18Offsets(hdr []byte, n int) []int {
	set := map[int]bool{1: true, 2: true}
	for i := 0; i+1 < len(hdr); i++ {
		if hdr[i] == '\r' && hdr[i+1] == '\n' {
			for d := -1; d <= 3; d++ {
				set[i+d] = true
			}
		}
		if hdr[i] == ':' || hdr[i] == ' ' {
			set[i] = true
			set[i+1] = true
		}
	}
	for i := len(hdr) - 3; i < n; i++ {
		set[i] = true
	}
	var out []int
	for o := 1; o < n; o++ {
		if set[o] {
			out = append(out, o)
		}
	}
	return out
}

func c18HTTPEnumerate(sh *evidence.Shard) {
	env := sh.Env()
	th := env.Thorough()
	x := &c18HTTPEnum{sh: sh, reported: map[string]bool{}}
	var item int64
	expired := false
	mine := func() bool {
		item++
		if item&255 == 0 && !expired && env.Expired() {
			expired = true
		}
		return !expired && env.Mine(item)
	}
	var vnames, knames []string
	for _, v := range c18AuthVariants {
		vnames = append(vnames, v.Name+"="+v.Expect)
	}
	for _, k := range c18Kinds {
		knames = append(knames, k.Name)
	}
	alphabet := map[string]any{"requests": knames, "proxy_authorization": vnames, "pipelined_body_len": []int{0, 1, 5, 9}, "auth": "AuthFunc accepts only u:p; every case also with AuthFunc nil in the whole-stream part, and after another connection to the same Server authenticated with u:p"}

	p1 := sh.Part("http-whole-and-truncated", "enum")
	p1.Alphabet = alphabet
	for ki := range c18Kinds {
		for vi := range c18AuthVariants {
			for bi := range c18Bodies {
				for _, auth := range []bool{true, false} {
					if mine() {
						x.one(p1, &c18Case{Kind: ki, Variant: vi, Body: bi, Trunc: -1, Auth: auth})
					}
				}
				if mine() {
					x.one(p1, &c18Case{Kind: ki, Variant: vi, Body: bi, Trunc: -1, Auth: true, Warm: true})
				}
				if bi != len(c18Bodies)-1 {
					continue
				}
				c := c18Case{Kind: ki, Variant: vi, Body: bi, Trunc: -1}
				n := len(c.stream())
				for l := 0; l < n; l++ {
					if mine() {
						x.one(p1, &c18Case{Kind: ki, Variant: vi, Body: bi, Trunc: l, Auth: true})
					}
				}
			}
		}
	}

	p2 := sh.Part("http-chunkings", "enum")
	p2.Alphabet = alphabet
	if th {
		p2.Bounds = map[string]any{"cuts": "<=2 at every offset of the stream, plus byte-at-a-time", "zero_reads": []bool{false, true}}
	} else {
		p2.Bounds = map[string]any{"cuts": "<=2 over boundary offsets (line ends -1..+3, separators, header end -3.., every body offset), plus byte-at-a-time", "zero_reads": []bool{false, true}}
	}
	for ki := range c18Kinds {
		for vi := range c18AuthVariants {
			for bi := range c18Bodies {
				base := c18Case{Kind: ki, Variant: vi, Body: bi, Trunc: -1, Auth: true}
				hdr := base.header()
				n := len(base.stream())
				var offs []int
				if th {
					for o := 1; o < n; o++ {
						offs = append(offs, o)
					}
				} else {
					offs = c18Offsets(hdr, n)
				}
				run := func(cuts []int) {
					for _, z := range []bool{false, true} {
						if !mine() {
							continue
						}
						cc := base
						cc.Cuts = append([]int(nil), cuts...)
						cc.Zero = z
						x.one(p2, &cc)
					}
				}
				for i, a := range offs {
					run([]int{a})
					for _, b := range offs[i+1:] {
						run([]int{a, b})
					}
				}
				all := make([]int, 0, n)
				for o := 1; o < n; o++ {
					all = append(all, o)
				}
				run(all)
				if expired {
					break
				}
			}
		}
	}
	if expired {
		p2.Exhaustive = false
		p2.Note("deadline reached inside the chunking enumeration; whole/truncated part complete")
	}

	// Framing header fields (c18Extras) on every request kind: whole stream (AuthFunc set / nil /
	// warm server), every truncation, and chunkings, judged by the same clauses as above (gate,
	// status, exactly one dial, relay-not-intact: every byte behind the CONNECT header reaches the
	// upstream). Added after the independently seeded change C18-7 (req.Body.Close() on CONNECT
	// swallows the first Content-Length bytes pipelined behind the header).
	p3 := sh.Part("http-framing-headers", "enum")
	var enames []string
	for _, e := range c18Extras[1:] {
		enames = append(enames, e.Name)
	}
	p3.Alphabet = map[string]any{"requests": knames, "framing_header_after_credentials": enames, "proxy_authorization": vnames, "pipelined_body_len": []int{0, 1, 5, 9}, "auth": alphabet["auth"]}
	// quick: truncations and chunkings for the three variants that span the gate's outcomes
	chunkVariants := map[string]bool{"absent": true, "basic-good": true, "basic-bad": true}
	if th {
		p3.Bounds = map[string]any{"truncations": "every offset, every variant", "cuts": "<=2 over boundary offsets, plus byte-at-a-time, every variant", "zero_reads": []bool{false, true}}
	} else {
		p3.Bounds = map[string]any{"truncations": "every offset; variants absent, basic-good, basic-bad", "cuts": "1 over boundary offsets (line ends -1..+3, separators, header end -3.., every body offset), plus byte-at-a-time; variants absent, basic-good, basic-bad", "zero_reads": []bool{false, true}}
	}
	for ki := range c18Kinds {
		for ei := 1; ei < len(c18Extras); ei++ {
			for vi, v := range c18AuthVariants {
				for bi := range c18Bodies {
					for _, auth := range []bool{true, false} {
						if mine() {
							x.one(p3, &c18Case{Kind: ki, Variant: vi, Body: bi, Trunc: -1, Auth: auth, Extra: ei})
						}
					}
					if mine() {
						x.one(p3, &c18Case{Kind: ki, Variant: vi, Body: bi, Trunc: -1, Auth: true, Warm: true, Extra: ei})
					}
					if !th && !chunkVariants[v.Name] {
						continue
					}
					base := c18Case{Kind: ki, Variant: vi, Body: bi, Trunc: -1, Auth: true, Extra: ei}
					hdr := base.header()
					n := len(base.stream())
					if bi == len(c18Bodies)-1 {
						for l := 0; l < n; l++ {
							if mine() {
								cc := base
								cc.Trunc = l
								x.one(p3, &cc)
							}
						}
					}
					run := func(cuts []int) {
						for _, z := range []bool{false, true} {
							if !mine() {
								continue
							}
							cc := base
							cc.Cuts = append([]int(nil), cuts...)
							cc.Zero = z
							x.one(p3, &cc)
						}
					}
					offs := c18Offsets(hdr, n)
					for i, a := range offs {
						run([]int{a})
						if !th {
							continue
						}
						for _, b := range offs[i+1:] {
							run([]int{a, b})
						}
					}
					all := make([]int, 0, n)
					for o := 1; o < n; o++ {
						all = append(all, o)
					}
					run(all)
				}
				if expired {
					break
				}
			}
		}
	}
	if expired {
		p3.Exhaustive = false
		p3.Note("deadline reached inside the framing-header enumeration")
	}

	// End of the client stream reported together with its last bytes: the scripted connection
	// returns (n > 0, io.EOF) from the Read call that delivers the tail of the stream, wherever
	// that tail starts (inside the header, at the header end - so the pipelined bytes are buffered
	// behind the header and travel through cachedConn - or inside the pipelined bytes, so the tail
	// is read by the relay itself). Same clauses as above; in particular relay-not-intact: every
	// byte behind the CONNECT header reaches the upstream, in order.
	// Added after the independently seeded change C18-10 (io.Copy replaced by a hand-written relay
	// loop that drops the bytes a Read call returns together with io.EOF or an error).
	p4 := sh.Part("http-eof-with-last-bytes", "enum")
	p4.Alphabet = map[string]any{"requests": knames, "proxy_authorization": vnames, "pipelined_body_len": []int{0, 1, 5, 9}, "framing_header_after_credentials": []string{c18Extras[0].Name, c18Extras[3].Name}, "end_of_stream": "Read returns the last chunk of the stream together with io.EOF (n > 0, io.EOF)", "auth": alphabet["auth"]}
	if th {
		p4.Bounds = map[string]any{"truncations": "every offset", "cuts": "<=2 over boundary offsets, plus byte-at-a-time", "zero_reads": []bool{false, true}}
	} else {
		p4.Bounds = map[string]any{"truncations": "every offset", "cuts": "<=1 over boundary offsets (line ends -1..+3, separators, header end -3.., every body offset), plus byte-at-a-time", "zero_reads": []bool{false, true}}
	}
	for ki := range c18Kinds {
		for _, ei := range []int{0, 3} {
			for vi := range c18AuthVariants {
				for bi := range c18Bodies {
					for _, auth := range []bool{true, false} {
						if mine() {
							x.one(p4, &c18Case{Kind: ki, Variant: vi, Body: bi, Trunc: -1, Auth: auth, Extra: ei, EOFLast: true})
						}
					}
					if mine() {
						x.one(p4, &c18Case{Kind: ki, Variant: vi, Body: bi, Trunc: -1, Auth: true, Warm: true, Extra: ei, EOFLast: true})
					}
					base := c18Case{Kind: ki, Variant: vi, Body: bi, Trunc: -1, Auth: true, Extra: ei, EOFLast: true}
					hdr := base.header()
					n := len(base.stream())
					if bi == len(c18Bodies)-1 {
						for l := 0; l < n; l++ {
							if mine() {
								cc := base
								cc.Trunc = l
								x.one(p4, &cc)
							}
						}
					}
					run := func(cuts []int) {
						for _, z := range []bool{false, true} {
							if !mine() {
								continue
							}
							cc := base
							cc.Cuts = append([]int(nil), cuts...)
							cc.Zero = z
							x.one(p4, &cc)
						}
					}
					offs := c18Offsets(hdr, n)
					for i, a := range offs {
						run([]int{a})
						if !th {
							continue
						}
						for _, b := range offs[i+1:] {
							run([]int{a, b})
						}
					}
					all := make([]int, 0, n)
					for o := 1; o < n; o++ {
						all = append(all, o)
					}
					run(all)
				}
				if expired {
					break
				}
			}
		}
	}
	if expired {
		p4.Exhaustive = false
		p4.Note("deadline reached inside the eof-with-last-bytes enumeration")
	}

	// Colons inside the password: every accepted password of c18Passwords x every presented
	// user-pass of c18Presented x every request kind, whole stream (cold and warm server, separate
	// and joined EOF), byte at a time, and 1 cut over the boundary offsets, judged by the same
	// clauses as above with the expectation of c18Case.variant (served iff the presented user-pass
	// split at its FIRST colon is the accepted pair).
	// Added after the independently seeded change C18-11 (parseProxyBasicAuth splits the decoded
	// user-pass on every colon and keeps the first two parts, so "u:p:word" is accepted as u:p).
	p5 := sh.Part("http-colon-in-password", "enum")
	p5.Alphabet = map[string]any{"requests": knames, "accepted_password_for_user_u": c18Passwords, "presented_userpass": c18Presented, "pipelined_body_len": []int{0, 1, 5, 9}, "auth": "AuthFunc accepts only (u, accepted password); also after another connection to the same Server authenticated with it"}
	if th {
		p5.Bounds = map[string]any{"bodies": "all", "truncations": "every offset", "cuts": "<=1 over boundary offsets, plus byte-at-a-time", "zero_reads": []bool{false, true}, "eof_with_last_bytes": []bool{false, true}}
	} else {
		p5.Bounds = map[string]any{"bodies": "none and the longest", "cuts": "whole stream and byte-at-a-time", "zero_reads": []bool{false, true}, "eof_with_last_bytes": []bool{false, true}}
	}
	for ki := range c18Kinds {
		for pi := range c18Passwords {
			for _, pr := range c18Presented {
				for bi := range c18Bodies {
					if !th && bi != 0 && bi != len(c18Bodies)-1 {
						continue
					}
					base := c18Case{Kind: ki, Body: bi, Trunc: -1, Auth: true, Presented: pr, Pass: pi}
					for _, el := range []bool{false, true} {
						for _, warm := range []bool{false, true} {
							if mine() {
								cc := base
								cc.EOFLast, cc.Warm = el, warm
								x.one(p5, &cc)
							}
						}
					}
					hdr := base.header()
					n := len(base.stream())
					run := func(cuts []int) {
						for _, z := range []bool{false, true} {
							if !mine() {
								continue
							}
							cc := base
							cc.Cuts = append([]int(nil), cuts...)
							cc.Zero = z
							x.one(p5, &cc)
						}
					}
					all := make([]int, 0, n)
					for o := 1; o < n; o++ {
						all = append(all, o)
					}
					run(all)
					if !th {
						continue
					}
					for _, a := range c18Offsets(hdr, n) {
						run([]int{a})
					}
					if bi == len(c18Bodies)-1 {
						for l := 0; l < n; l++ {
							if mine() {
								cc := base
								cc.Trunc = l
								x.one(p5, &cc)
							}
						}
					}
				}
				if expired {
					break
				}
			}
		}
	}
	if expired {
		p5.Exhaustive = false
		p5.Note("deadline reached inside the colon-in-password enumeration")
	}
}

func c18HTTPReplay(part string, raw json.RawMessage) (bool, bool, string) {
	if part != "http-whole-and-truncated" && part != "http-chunkings" && part != "http-framing-headers" && part != "http-eof-with-last-bytes" && part != "http-colon-in-password" {
		return false, false, ""
	}
	var c c18Case
	if err := json.Unmarshal(raw, &c); err != nil {
		return true, false, err.Error()
	}
	clause, detail := c18HTTPRun(&c)
	return true, clause != "", clause + ": " + detail
}

func TestVerifC18HTTP(t *testing.T) {
	evidence.Main(t, "C18", evidence.Seq{Run: c18HTTPEnumerate, Replay: c18HTTPReplay})
}
