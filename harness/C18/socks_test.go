package socks5

// C18 harness, unit "socks" (injected by overlay into app/internal/socks5).
//
// Every byte stream of the negotiation grammar below - complete, truncated at every offset, and
// delivered in every chunking with <=2 cuts (with and without zero-length reads) - is fed to the
// real Server.dispatch through a scripted net.Conn. A fake client.Client records TCP()/UDP(), a
// fake EventLogger records the entry of handleTCP/handleUDP, AuthFunc accepts only (u,p).
// The oracle is a reference reader of RFC 1928/1929 written from the RFCs (not from the code).

import (
	"bytes"
	"encoding/hex"
	"encoding/json"
	"errors"
	"fmt"
	"io"
	"net"
	"strings"
	"sync"
	"testing"
	"time"

	"github.com/apernet/hysteria/core/v2/client"
	"verif.local/engine/evidence"
	"verif.local/engine/vnet"
)

// ---- fakes -----------------------------------------------------------------------------------

type c18Ev struct {
	Kind string // auth | tcp | udp | tcpreq | udpreq
	A, B string
	OK   bool
}

type c18Addr string

func (a c18Addr) Network() string { return "tcp" }
func (a c18Addr) String() string  { return string(a) }

// c18Conn is the scripted client side: Read delivers data in the chunks given by cuts, then EOF.
type c18Conn struct {
	mu     sync.Mutex
	data   []byte
	cuts   []int
	pos    int
	zero   bool // a zero-length read (0,nil) before every chunk
	zeroNx bool
	// eofLast: the Read call that delivers the last bytes of data also reports io.EOF (n > 0
	// together with io.EOF; legal for io.Reader, done by TLS conns, pipes and wrapped conns).
	// Added after the independently seeded change C18-10 (HTTP inbound: hand-written relay loop
	// that checks the Read error before using the bytes returned by the same call).
	eofLast bool
	wrote   []byte
	closes  int
	reads   int
}

func (c *c18Conn) Read(p []byte) (int, error) {
	c.mu.Lock()
	defer c.mu.Unlock()
	c.reads++
	if c.closes > 0 {
		return 0, net.ErrClosed
	}
	if len(p) == 0 {
		return 0, nil
	}
	if c.zero {
		c.zeroNx = !c.zeroNx
		if c.zeroNx {
			return 0, nil
		}
	}
	if c.pos >= len(c.data) {
		return 0, io.EOF
	}
	end := len(c.data)
	for _, k := range c.cuts {
		if k > c.pos {
			end = k
			break
		}
	}
	n := copy(p, c.data[c.pos:end])
	c.pos += n
	if c.eofLast && c.pos == len(c.data) {
		return n, io.EOF
	}
	return n, nil
}

func (c *c18Conn) Write(p []byte) (int, error) {
	c.mu.Lock()
	defer c.mu.Unlock()
	if c.closes > 0 {
		return 0, net.ErrClosed
	}
	c.wrote = append(c.wrote, p...)
	return len(p), nil
}

func (c *c18Conn) Close() error {
	c.mu.Lock()
	defer c.mu.Unlock()
	c.closes++
	return nil
}

// LocalAddr has no port on purpose: handleUDP derives its UDP bind address from it, and the
// harness must not open real sockets. SplitHostPort fails, handleUDP answers "server failure".
func (c *c18Conn) LocalAddr() net.Addr                { return c18Addr("c18-local") }
func (c *c18Conn) RemoteAddr() net.Addr               { return c18Addr("c18-client:1") }
func (c *c18Conn) SetDeadline(t time.Time) error      { return nil }
func (c *c18Conn) SetReadDeadline(t time.Time) error  { return nil }
func (c *c18Conn) SetWriteDeadline(t time.Time) error { return nil }

type c18Client struct {
	log   *[]c18Ev
	peers []*vnet.Conn // harness side of every upstream conn handed out
}

func (c *c18Client) TCP(addr string) (net.Conn, error) {
	*c.log = append(*c.log, c18Ev{Kind: "tcp", A: addr})
	up, peer := vnet.Pipe("c18-up", "c18-peer", 1<<16)
	c.peers = append(c.peers, peer)
	return up, nil
}

func (c *c18Client) UDP() (client.HyUDPConn, error) {
	*c.log = append(*c.log, c18Ev{Kind: "udp"})
	return nil, errors.New("c18: no udp upstream")
}

func (c *c18Client) Close() error { return nil }

type c18Logger struct{ log *[]c18Ev }

func (l c18Logger) TCPRequest(addr net.Addr, reqAddr string) {
	*l.log = append(*l.log, c18Ev{Kind: "tcpreq", A: reqAddr})
}
func (l c18Logger) TCPError(addr net.Addr, reqAddr string, err error) {}
func (l c18Logger) UDPRequest(addr net.Addr)                          { *l.log = append(*l.log, c18Ev{Kind: "udpreq"}) }
func (l c18Logger) UDPError(addr net.Addr, err error)                 {}

// ---- reference reader (RFC 1928 section 3,4; RFC 1929 section 2) --------------------------------

type c18Ref struct {
	Stage    string // where the reference stopped
	Creds    bool   // the stream presents a well-formed user/pass message carrying (u,p)
	Outcome  string // none | tcp | udp
	Addr     string
	Consumed int // offset of the first byte after the request
	// Presented: the stream carries a complete, well-formed user/pass message; User/Pass are its fields
	Presented  bool
	User, Pass string
}

var c18Addrs = map[string]string{ // address field (hex, as on the wire after ATYP) -> host, from the RFC text formats
	"01020304":                         "1.2.3.4",
	"03612e62":                         "a.b",
	"20010db8000000000000000000000001": "2001:db8::1",
}

func c18Reference(s []byte, authConfigured bool) c18Ref {
	return c18ReferenceFor(s, authConfigured, "u", "p")
}

// c18ReferenceFor: the reference reader for a server whose AuthFunc accepts exactly (accU, accP).
func c18ReferenceFor(s []byte, authConfigured bool, accU, accP string) c18Ref {
	r := c18Ref{Outcome: "none"}
	off := 0
	need := func(n int) bool { return len(s)-off >= n }
	// version identifier / method selection message
	if !need(1) {
		r.Stage = "neg-trunc"
		return r
	}
	if s[0] != 5 {
		r.Stage = "neg-ver"
		return r
	}
	if !need(2) {
		r.Stage = "neg-trunc"
		return r
	}
	nm := int(s[1])
	if nm == 0 {
		r.Stage = "neg-nomethods"
		return r
	}
	off = 2
	if !need(nm) {
		r.Stage = "neg-trunc"
		return r
	}
	methods := s[off : off+nm]
	off += nm
	want := byte(0)
	if authConfigured {
		want = 2
	}
	if bytes.IndexByte(methods, want) < 0 {
		r.Stage = "neg-unacceptable"
		return r
	}
	if authConfigured {
		// RFC 1929: VER(1)=1 ULEN(1..255) UNAME PLEN(1..255) PASSWD
		if !need(2) {
			r.Stage = "up-trunc"
			return r
		}
		if s[off] != 1 {
			r.Stage = "up-ver"
			return r
		}
		ul := int(s[off+1])
		if ul == 0 {
			r.Stage = "up-empty"
			return r
		}
		off += 2
		if !need(ul + 1) {
			r.Stage = "up-trunc"
			return r
		}
		user := string(s[off : off+ul])
		pl := int(s[off+ul])
		off += ul + 1
		if pl == 0 {
			r.Stage = "up-empty"
			return r
		}
		if !need(pl) {
			r.Stage = "up-trunc"
			return r
		}
		pass := string(s[off : off+pl])
		off += pl
		r.User, r.Pass, r.Presented = user, pass, true
		if user != accU || pass != accP {
			r.Stage = "up-wrong"
			return r
		}
		r.Creds = true
	}
	// request: VER CMD RSV ATYP DST.ADDR DST.PORT
	if !need(4) {
		r.Stage = "req-trunc"
		return r
	}
	if s[off] != 5 {
		r.Stage = "req-ver"
		return r
	}
	cmd, atyp := s[off+1], s[off+3]
	off += 4
	var al int
	switch atyp {
	case 1:
		al = 4
	case 4:
		al = 16
	case 3:
		if !need(1) {
			r.Stage = "req-trunc"
			return r
		}
		if s[off] == 0 {
			r.Stage = "req-emptydomain"
			return r
		}
		al = 1 + int(s[off])
	default:
		r.Stage = "req-atyp"
		return r
	}
	if !need(al + 2) {
		r.Stage = "req-trunc"
		return r
	}
	host, known := c18Addrs[hex.EncodeToString(s[off:off+al])]
	port := int(s[off+al])<<8 | int(s[off+al+1])
	off += al + 2
	r.Consumed = off
	switch cmd {
	case 1:
		r.Stage, r.Outcome = "connect", "tcp"
		if known {
			if atyp == 4 {
				host = "[" + host + "]"
			}
			r.Addr = fmt.Sprintf("%s:%d", host, port)
		}
	case 3:
		r.Stage, r.Outcome = "udp-associate", "udp"
	default:
		r.Stage = "cmd-unsupported"
	}
	return r
}

// ---- one case --------------------------------------------------------------------------------

type c18Case struct {
	Stream []byte `json:"stream"`
	Cuts   []int  `json:"cuts,omitempty"`
	Zero   bool   `json:"zero_reads,omitempty"`
	Auth   bool   `json:"auth_configured"`
	// Warm: another local client completed an authenticated CONNECT through the same Server first
	Warm bool `json:"after_another_connection_authenticated,omitempty"`
	// EOFLast: the client connection reports io.EOF in the same Read call that returns the last
	// bytes of the stream (instead of a separate (0, io.EOF) afterwards)
	EOFLast bool `json:"eof_with_last_bytes,omitempty"`
	// AccU/AccP: the one pair AuthFunc accepts; empty = (u,p). Set by the long-credentials part.
	AccU string `json:"accepted_user,omitempty"`
	AccP string `json:"accepted_pass,omitempty"`
	// askedOther (out): first AuthFunc call whose arguments are not the pair the stream carries
	askedOther string
}

// accepted returns the pair the case's AuthFunc accepts.
func (c *c18Case) accepted() (string, string) {
	if c.AccU == "" && c.AccP == "" {
		return "u", "p"
	}
	return c.AccU, c.AccP
}

var c18SuccessReply = []byte{5, 0, 0, 1, 0, 0, 0, 0, 0, 0}

// c18Run runs one case on the real code; returns the violated clause id and a detail text.
func c18Run(c *c18Case) (clause, detail string, ref c18Ref) {
	accU, accP := c.accepted()
	ref = c18ReferenceFor(c.Stream, c.Auth, accU, accP)
	val, stack := evidence.Catch(func() { clause, detail = c18RunInner(c, ref) })
	if val != nil {
		return "panic", fmt.Sprintf("panic: %v at %s", val, evidence.PanicSite(stack)), ref
	}
	return
}

func c18RunInner(c *c18Case, ref c18Ref) (string, string) {
	var log []c18Ev
	hy := &c18Client{log: &log}
	s := &Server{HyClient: hy, EventLogger: c18Logger{&log}}
	acceptedOther := false // AuthFunc said yes to a pair that is not the one the stream carries
	if c.Auth {
		accU, accP := c.accepted()
		s.AuthFunc = func(u, p string) bool {
			ok := u == accU && p == accP
			log = append(log, c18Ev{Kind: "auth", A: u, B: p, OK: ok})
			if ok && !(ref.Presented && u == ref.User && p == ref.Pass) {
				acceptedOther = true
			}
			if !(ref.Presented && u == ref.User && p == ref.Pass) && c.askedOther == "" {
				c.askedOther = fmt.Sprintf("AuthFunc was asked (%d-byte user %.12q.., %d-byte pass %.12q..), the stream carries (%d-byte user %.12q.., %d-byte pass %.12q..)", len(u), u, len(p), p, len(ref.User), ref.User, len(ref.Pass), ref.Pass)
			}
			return ok
		}
	}
	if c.Warm {
		// neg(ver 5, method user/pass) + user/pass u:p + CONNECT 1.2.3.4:80
		warm := []byte{5, 1, 2, 1, 1, 'u', 1, 'p', 5, 1, 0, 1, 1, 2, 3, 4, 0, 80}
		s.dispatch(&c18Conn{data: warm})
		log = nil
		hy.peers = nil
		c.askedOther, acceptedOther = "", false
	}
	conn := &c18Conn{data: append(make([]byte, 0, len(c.Stream)), c.Stream...), cuts: c.Cuts, zero: c.Zero, eofLast: c.EOFLast}
	s.dispatch(conn) // returns when the connection is finished (relay ends at client EOF)

	accepted := false
	var ups []c18Ev
	for _, ev := range log {
		switch ev.Kind {
		case "auth":
			if ev.OK {
				accepted = true
			}
		default:
			if c.Auth && !accepted && !c.Warm {
				// (on a warm server AuthFunc need not be consulted again for credentials it has seen:
				// the credential clauses below judge what the stream carries)
				return "upstream-before-auth", fmt.Sprintf("%s(%s) before any accepted AuthFunc call; events %v", ev.Kind, ev.A, log)
			}
			ups = append(ups, ev)
		}
	}
	if c.Auth && !ref.Creds && len(ups) > 0 {
		return "upstream-without-credentials", fmt.Sprintf("stream presents no acceptable credentials (%s) but events %v", ref.Stage, log)
	}
	if c.Auth && acceptedOther {
		// the yes that opens the gate must be a yes to what THIS client presented (long-credentials part:
		// the accepted pair and the presented pair differ only in the head of one field)
		return "auth-accepted-unpresented", fmt.Sprintf("AuthFunc accepted a pair other than the one the stream carries: %s", c.askedOther)
	}
	if c.Auth && accepted && !ref.Creds {
		return "auth-accepted-unpresented", fmt.Sprintf("AuthFunc accepted credentials the stream does not carry (%s): %v", ref.Stage, log)
	}
	var tcp []string
	nUDP := 0
	for _, ev := range ups {
		switch ev.Kind {
		case "tcp":
			tcp = append(tcp, ev.A)
		case "udp", "udpreq":
			nUDP++
		}
	}
	switch ref.Outcome {
	case "tcp":
		if len(tcp) != 1 || nUDP != 0 {
			return "connect-not-dialled", fmt.Sprintf("well-formed CONNECT: TCP calls %v, udp events %d", tcp, nUDP)
		}
		if ref.Addr != "" && tcp[0] != ref.Addr {
			return "connect-wrong-address", fmt.Sprintf("requested %s, dialled %s", ref.Addr, tcp[0])
		}
		i := len(conn.wrote) - len(c18SuccessReply)
		if i < 0 || !bytes.Equal(conn.wrote[i:], c18SuccessReply) {
			return "connect-no-success-reply", fmt.Sprintf("client received % x", conn.wrote)
		}
		// what the upstream end receives = everything the client sent after the request
		peer := hy.peers[0]
		got, _ := io.ReadAll(peer)
		if !bytes.Equal(got, c.Stream[ref.Consumed:]) {
			return "relay-not-intact", fmt.Sprintf("client sent % x after the request, upstream received % x", c.Stream[ref.Consumed:], got)
		}
	case "udp":
		if len(tcp) != 0 || nUDP == 0 {
			return "udp-not-handled", fmt.Sprintf("well-formed UDP ASSOCIATE: events %v", log)
		}
	default:
		if len(ups) != 0 {
			return "upstream-for-rejected-stream", fmt.Sprintf("reference stops at %s, events %v", ref.Stage, log)
		}
	}
	if conn.closes == 0 {
		return "client-conn-not-closed", "dispatch returned without closing the client connection"
	}
	return "", ""
}

// ---- grammar ---------------------------------------------------------------------------------

type c18Neg struct {
	ver, nm byte
	methods []byte
}
type c18UP struct {
	present    bool
	ver        byte
	user, pass string
}
type c18Req struct {
	ver, cmd, atyp byte
	addr           []byte
	port           uint16
}

var (
	c18Vers      = []byte{5, 4, 0}
	c18NMs       = []byte{0, 1, 2}
	c18Methods   = [][]byte{{}, {0}, {2}, {0xff}, {0, 2}, {2, 0}, {0, 0xff}, {2, 0xff}, {0, 2, 0xff}}
	c18UPVers    = []byte{1, 0, 5}
	c18Users     = []string{"u", "x", ""}
	c18Passes    = []string{"p", "y", ""}
	c18ReqVers   = []byte{5, 4}
	c18Cmds      = []byte{1, 2, 3, 9}
	c18AddrForms = []struct {
		atyp byte
		addr []byte
	}{
		{1, []byte{1, 2, 3, 4}},
		{3, []byte{3, 'a', '.', 'b'}},
		{3, []byte{0}},
		{4, []byte{0x20, 0x01, 0x0d, 0xb8, 0, 0, 0, 0, 0, 0, 0, 0, 0, 0, 0, 1}},
		{9, []byte{1, 2, 3, 4}},
	}
	c18Ports   = []uint16{80, 65535}
	c18Payload = []byte{5, 2, 'P'} // pipelined behind the request; looks like a negotiation on purpose
)

func (n c18Neg) bytes() []byte { return append([]byte{n.ver, n.nm}, n.methods...) }
func (u c18UP) bytes() []byte {
	if !u.present {
		return nil
	}
	b := []byte{u.ver, byte(len(u.user))}
	b = append(b, u.user...)
	b = append(b, byte(len(u.pass)))
	return append(b, u.pass...)
}
func (r c18Req) bytes() []byte {
	b := []byte{r.ver, r.cmd, 0, r.atyp}
	b = append(b, r.addr...)
	return append(b, byte(r.port>>8), byte(r.port))
}

func c18AllNeg() (out []c18Neg) {
	for _, v := range c18Vers {
		for _, nm := range c18NMs {
			for _, m := range c18Methods {
				out = append(out, c18Neg{v, nm, m})
			}
		}
	}
	return
}
func c18AllUP() (out []c18UP) {
	out = append(out, c18UP{})
	for _, v := range c18UPVers {
		for _, u := range c18Users {
			for _, p := range c18Passes {
				out = append(out, c18UP{true, v, u, p})
			}
		}
	}
	return
}
func c18AllReq() (out []c18Req) {
	for _, v := range c18ReqVers {
		for _, cmd := range c18Cmds {
			for _, af := range c18AddrForms {
				for _, p := range c18Ports {
					out = append(out, c18Req{v, cmd, af.atyp, af.addr, p})
				}
			}
		}
	}
	return
}

func c18Stream(n c18Neg, u c18UP, r c18Req) []byte {
	s := n.bytes()
	s = append(s, u.bytes()...)
	s = append(s, r.bytes()...)
	s = append(s, c18Payload...)
	return append(make([]byte, 0, len(s)), s...) // cap == len
}

// c18Star: streams that differ from one of the base streams in exactly one grammar dimension.
func c18Star() [][]byte {
	negs, ups, reqs := c18AllNeg(), c18AllUP(), c18AllReq()
	type base struct {
		n c18Neg
		u c18UP
		r c18Req
	}
	ipv4 := c18Req{5, 1, 1, c18AddrForms[0].addr, 80}
	dom := c18Req{5, 1, 3, c18AddrForms[1].addr, 80}
	bases := []base{
		{c18Neg{5, 1, []byte{2}}, c18UP{true, 1, "u", "p"}, ipv4},
		{c18Neg{5, 2, []byte{0, 2}}, c18UP{true, 1, "u", "p"}, dom},
		{c18Neg{5, 1, []byte{0}}, c18UP{}, ipv4},
		{c18Neg{5, 1, []byte{2}}, c18UP{true, 1, "x", "p"}, dom},
		{c18Neg{5, 2, []byte{2, 0}}, c18UP{}, ipv4},
	}
	seen := map[string]bool{}
	var out [][]byte
	add := func(s []byte) {
		if !seen[string(s)] {
			seen[string(s)] = true
			out = append(out, s)
		}
	}
	for _, b := range bases {
		add(c18Stream(b.n, b.u, b.r))
	}
	for _, b := range bases {
		for _, n := range negs {
			add(c18Stream(n, b.u, b.r))
		}
		for _, u := range ups {
			add(c18Stream(b.n, u, b.r))
		}
		for _, r := range reqs {
			add(c18Stream(b.n, b.u, r))
		}
	}
	return out
}

// ---- enumeration -----------------------------------------------------------------------------

type c18SocksRun struct {
	sh       *evidence.Shard
	reported map[string]bool
}

func (x *c18SocksRun) one(p *evidence.Part, c *c18Case, trunc bool) {
	p.Evaluations++
	clause, detail, ref := c18Run(c)
	p.Class(ref.Stage, ref.Outcome, ref.Creds, c.Auth, len(c.Cuts), c.Zero, trunc, c.EOFLast, clause)
	if p.Evaluations%9973 == 7 {
		p.Sample(map[string]any{"stream": hex.EncodeToString(c.Stream), "cuts": c.Cuts, "zero_reads": c.Zero, "auth_configured": c.Auth, "reference": ref.Stage + "/" + ref.Outcome})
	}
	if clause != "" {
		key := p.Name + "/" + clause
		if x.reported[key] { // one (the simplest) case per clause and shard
			return
		}
		x.reported[key] = true
		cc := *c
		sig := fmt.Sprintf("%s/%s/stream=%x,cuts=%v,zero=%v,auth=%v", p.Name, clause, c.Stream, c.Cuts, c.Zero, c.Auth)
		if c.EOFLast {
			sig += ",eof-with-last-bytes"
		}
		x.sh.Violate(p.Name, sig, detail, &cc)
	}
}

// c18Cuts2 calls f with every chunking of n bytes that has <=2 cuts.
func c18Cuts2(n int, f func(cuts []int)) {
	f(nil)
	for a := 1; a < n; a++ {
		f([]int{a})
	}
	for a := 1; a < n; a++ {
		for b := a + 1; b < n; b++ {
			f([]int{a, b})
		}
	}
}

func c18SocksEnumerate(sh *evidence.Shard) {
	env := sh.Env()
	th := env.Thorough()
	x := &c18SocksRun{sh: sh, reported: map[string]bool{}}
	var item int64
	expired := false
	mine := func() bool {
		item++
		if item&4095 == 0 && !expired && env.Expired() {
			expired = true
		}
		return !expired && env.Mine(item)
	}
	negs, ups, reqs := c18AllNeg(), c18AllUP(), c18AllReq()
	alphabet := map[string]any{
		"negotiation":  "ver {5,4,0} x nmethods {0,1,2} x method bytes sent {[],[0],[2],[ff],[0 2],[2 0],[0 ff],[2 ff],[0 2 ff]} (declared count independent of the bytes sent)",
		"userpass":     "absent | ver {1,0,5} x user {u,x,''} x pass {p,y,''}",
		"request":      "ver {5,4} x cmd {1,2,3,9} x (atyp,addr) {ipv4 1.2.3.4, domain a.b, empty domain, ipv6 2001:db8::1, atyp 9} x port {80,65535}",
		"pipelined":    "05 02 'P' behind the request",
		"auth":         "AuthFunc accepts only (u,p); the star part also runs with AuthFunc == nil; every whole stream also after another connection completed an authenticated CONNECT on the same Server",
		"streams":      len(negs) * len(ups) * len(reqs),
		"star_streams": len(c18Star()),
	}

	// (1) full grammar product: the whole stream and every truncation
	p1 := sh.Part("socks-truncations", "enum")
	p1.Alphabet = alphabet
	for _, n := range negs {
		for _, u := range ups {
			for _, r := range reqs {
				s := c18Stream(n, u, r)
				for l := len(s); l >= 0; l-- {
					if !mine() {
						continue
					}
					x.one(p1, &c18Case{Stream: append(make([]byte, 0, l), s[:l]...), Auth: true}, l < len(s))
					if l == len(s) && mine() {
						x.one(p1, &c18Case{Stream: append(make([]byte, 0, l), s[:l]...), Auth: true, Warm: true}, false)
					}
				}
			}
		}
	}
	if expired {
		p1.Exhaustive = false
		p1.Note("deadline reached inside the truncation product")
	}

	// (2) chunkings: every <=2-cut chunking, with and without zero-length reads
	p2 := sh.Part("socks-chunkings", "enum")
	p2.Alphabet = alphabet
	chunk := func(s []byte, auth bool, zeroUpTo int) {
		c18Cuts2(len(s), func(cuts []int) {
			for _, z := range []bool{false, true} {
				if z && len(cuts) > zeroUpTo {
					continue
				}
				if !mine() {
					continue
				}
				x.one(p2, &c18Case{Stream: s, Cuts: append([]int(nil), cuts...), Zero: z, Auth: auth}, false)
			}
		})
	}
	if th {
		p2.Bounds = map[string]any{"streams": "full grammar product with port 80 (auth configured): <=2 cuts at every offset, with and without zero-length reads; star streams (AuthFunc configured and nil): <=2 cuts with and without zero-length reads", "cuts": "<=2, every offset"}
		for _, n := range negs {
			for _, u := range ups {
				for _, r := range reqs {
					if expired {
						break
					}
					if r.port != 80 {
						continue
					}
					chunk(c18Stream(n, u, r), true, 2)
				}
			}
		}
		for _, s := range c18Star() {
			chunk(s, true, 2)
			chunk(s, false, 2)
		}
	} else {
		p2.Bounds = map[string]any{"streams": "star streams (one grammar dimension varied from 5 base streams), AuthFunc configured and nil", "cuts": "<=2, every offset", "zero_reads": []bool{false, true}}
		for _, s := range c18Star() {
			chunk(s, true, 2)
			chunk(s, false, 2)
		}
	}
	// byte-at-a-time for the star streams
	for _, s := range c18Star() {
		cuts := make([]int, 0, len(s))
		for i := 1; i < len(s); i++ {
			cuts = append(cuts, i)
		}
		for _, z := range []bool{false, true} {
			for _, a := range []bool{true, false} {
				if !mine() {
					continue
				}
				x.one(p2, &c18Case{Stream: s, Cuts: cuts, Zero: z, Auth: a}, false)
			}
		}
	}
	if expired {
		p2.Exhaustive = false
		p2.Note("deadline reached inside the chunking enumeration; the truncation product and earlier streams are complete")
	}

	// (3) repetition inside one connection: k well-formed username/password sub-negotiations that all
	// carry WRONG credentials, one after the other, then a request. RFC 1929 section 2: after a failure
	// status the server MUST close the connection, and by the property no AuthFunc call ever accepted
	// anything, so nothing behind the first rejected attempt may reach HyClient.TCP/UDP. The reference
	// reader stops at the first attempt ("up-wrong"); the clauses of c18RunInner judge the run.
	// Added after the independently seeded change C18-9 (a retry loop of 3 user/pass attempts that
	// fell through to "authenticated" when the attempts ran out).
	p3 := sh.Part("socks-repeated-userpass", "enum")
	maxRep := 6
	if th {
		maxRep = 8
	}
	wrong := []c18UP{{true, 1, "x", "p"}, {true, 1, "u", "y"}, {true, 1, "x", "y"}}
	tails := []c18Req{
		{5, 1, 1, c18AddrForms[0].addr, 80}, // CONNECT 1.2.3.4:80
		{5, 1, 3, c18AddrForms[1].addr, 80}, // CONNECT a.b:80
		{5, 3, 1, c18AddrForms[0].addr, 80}, // UDP ASSOCIATE
	}
	p3.Alphabet = map[string]any{
		"negotiation":  "05 01 02 | 05 02 00 02",
		"repetitions":  fmt.Sprintf("k = 1..%d well-formed user/pass messages in a row, every sequence over the wrong credentials {x:p, u:y, x:y}", maxRep),
		"request":      "CONNECT 1.2.3.4:80 | CONNECT a.b:80 | UDP ASSOCIATE, then the pipelined 05 02 'P'",
		"delivery":     "whole stream in one read; every truncation; one read per message (client waits for each answer), with and without zero-length reads; byte at a time",
		"auth":         "AuthFunc accepts only (u,p); every whole stream also after another connection completed an authenticated CONNECT on the same Server",
		"max_attempts": maxRep,
	}
	p3.Bounds = map[string]any{"repetitions": maxRep, "wrong_credentials": len(wrong), "requests": len(tails)}
	negs3 := []c18Neg{{5, 1, []byte{2}}, {5, 2, []byte{0, 2}}}
	seq := make([]int, 0, maxRep)
	var rep func(k int)
	emit := func() {
		for _, n := range negs3 {
			for _, r := range tails {
				s := n.bytes()
				bounds := []int{len(s)} // message boundaries
				for _, w := range seq {
					s = append(s, wrong[w].bytes()...)
					bounds = append(bounds, len(s))
				}
				s = append(s, r.bytes()...)
				bounds = append(bounds, len(s))
				s = append(s, c18Payload...)
				s = append(make([]byte, 0, len(s)), s...)
				for l := len(s); l >= 0; l-- {
					if !mine() {
						continue
					}
					x.one(p3, &c18Case{Stream: s[:l:l], Auth: true}, l < len(s))
				}
				if mine() {
					x.one(p3, &c18Case{Stream: s, Auth: true, Warm: true}, false)
				}
				every := make([]int, 0, len(s))
				for i := 1; i < len(s); i++ {
					every = append(every, i)
				}
				for _, cuts := range [][]int{bounds, every} {
					for _, z := range []bool{false, true} {
						if !mine() {
							continue
						}
						x.one(p3, &c18Case{Stream: s, Cuts: cuts, Zero: z, Auth: true}, false)
					}
				}
			}
		}
	}
	rep = func(k int) {
		if len(seq) > 0 {
			emit()
		}
		if k == maxRep || expired {
			return
		}
		for w := range wrong {
			seq = append(seq, w)
			rep(k + 1)
			seq = seq[:len(seq)-1]
		}
	}
	rep(0)
	if expired {
		p3.Exhaustive = false
		p3.Note("deadline reached inside the repeated user/pass enumeration")
	}

	// (4) end of the client stream reported together with its last bytes: the scripted connection
	// returns (n > 0, io.EOF) from the Read call that delivers the tail of the stream, wherever
	// that tail starts (inside the negotiation, at the end of the request, or inside the bytes
	// pipelined behind the CONNECT request, which the relay reads itself). Same reference reader
	// and clauses; in particular relay-not-intact: every byte behind the request reaches the
	// upstream, in order. Added after the independently seeded change C18-10 (HTTP inbound: io.Copy
	// replaced by a hand-written relay loop that drops the bytes a Read call returns together with
	// io.EOF or an error).
	p4 := sh.Part("socks-eof-with-last-bytes", "enum")
	p4.Alphabet = alphabet
	maxCuts := 1
	if th {
		maxCuts = 2
	}
	p4.Bounds = map[string]any{"streams": "star streams (one grammar dimension varied from 5 base streams), AuthFunc configured and nil; whole, every truncation, chunkings, byte at a time", "end_of_stream": "Read returns the last chunk of the stream together with io.EOF (n > 0, io.EOF)", "cuts": fmt.Sprintf("<=%d, every offset", maxCuts), "zero_reads": []bool{false, true}}
	for _, s := range c18Star() {
		for _, a := range []bool{true, false} {
			for l := len(s) - 1; l >= 0; l-- {
				if mine() {
					x.one(p4, &c18Case{Stream: s[:l:l], Auth: a, EOFLast: true}, true)
				}
			}
			if a && mine() {
				x.one(p4, &c18Case{Stream: s, Auth: true, Warm: true, EOFLast: true}, false)
			}
			c18Cuts2(len(s), func(cuts []int) {
				if len(cuts) > maxCuts {
					return
				}
				for _, z := range []bool{false, true} {
					if mine() {
						x.one(p4, &c18Case{Stream: s, Cuts: append([]int(nil), cuts...), Zero: z, Auth: a, EOFLast: true}, false)
					}
				}
			})
			every := make([]int, 0, len(s))
			for i := 1; i < len(s); i++ {
				every = append(every, i)
			}
			for _, z := range []bool{false, true} {
				if mine() {
					x.one(p4, &c18Case{Stream: s, Cuts: every, Zero: z, Auth: a, EOFLast: true}, false)
				}
			}
		}
	}
	if expired {
		p4.Exhaustive = false
		p4.Note("deadline reached inside the eof-with-last-bytes enumeration")
	}

	// (5) credential LENGTH: RFC 1929 allows ULEN and PLEN 1..255 each; the parts above hold both at
	// 0/1. Here (ULEN, PLEN) ranges over boundary pairs around 127/128/255 and around ULEN+1+PLEN =
	// 256 (a whole user/pass message behind its 2-byte head in one 256-byte buffer), the fields are
	// two-segment strings whose segment boundary is the OTHER field's length (so a field whose head
	// was replaced by the other field, or by a wrong filler, is in the alphabet), and the accepted
	// pair and the presented pair range independently: right, wrong username sharing its TAIL with
	// the right one + right password, right username + wrong password. Same reference reader
	// (c18ReferenceFor with the accepted pair) and the same clauses: nothing reaches HyClient unless
	// the stream carries exactly the accepted pair, and a yes of AuthFunc counts only if it was a yes
	// to the pair the stream carries. (AuthFunc asked about a pair the stream does not carry and
	// answering no is recorded as a note, not a violation.)
	// Added after the independently seeded change C18-13 (negotiate() parses the user/pass message
	// itself into one 256-byte scratch buffer; when ULEN+1+PLEN > 256 the password is read over the
	// head of the username that still aliases the buffer, so AuthFunc is asked (password + tail of
	// username, password) instead of what the client sent).
	p5 := sh.Part("socks-long-credentials", "enum")
	c18LongCredentials(x, p5, th, mine)
	if expired {
		p5.Exhaustive = false
		p5.Note("deadline reached inside the long-credentials enumeration")
	}
}

// ---- long credentials (part 5) -----------------------------------------------------------------

var (
	c18LongULens = []int{1, 100, 127, 128, 200, 254, 255}
	c18LongPLens = []int{1, 55, 56, 100, 155, 156, 254, 255}
)

func c18Fill(b byte, n int) string { return string(bytes.Repeat([]byte{b}, n)) }

// c18LongUsers: the username alphabet for one (ULEN, PLEN): m = min(ULEN, PLEN) head bytes, then 'u's.
func c18LongUsers(ul, pl int) map[string]string {
	m := min(ul, pl)
	return map[string]string{
		"u*":        c18Fill('u', ul),
		"p^m.u*":    c18Fill('p', m) + c18Fill('u', ul-m), // begins with (a prefix of) the accepted password
		"x^m.u*":    c18Fill('x', m) + c18Fill('u', ul-m), // wrong head, same tail
		"u*.x-last": c18Fill('u', ul-1) + "x",             // wrong last byte
	}
}

func c18LongCredentials(x *c18SocksRun, p *evidence.Part, th bool, mine func() bool) {
	accUsers := []string{"u*", "p^m.u*"}
	sentUsers := []string{"u*", "p^m.u*", "x^m.u*", "u*.x-last"}
	sentPasses := []string{"p*", "y*", "p*.y-last"}
	reqs := []struct {
		name string
		r    c18Req
	}{
		{"connect", c18Req{5, 1, 1, c18AddrForms[0].addr, 80}},
		{"udp-associate", c18Req{5, 3, 1, c18AddrForms[0].addr, 80}},
	}
	p.Alphabet = map[string]any{
		"negotiation":        "05 01 02",
		"credential_lengths": fmt.Sprintf("ULEN %v x PLEN %v (ULEN+1+PLEN on both sides of 256)", c18LongULens, c18LongPLens),
		"accepted_pair":      "user {u^ULEN, p^m.u^(ULEN-m)} (m = min(ULEN,PLEN)) : pass p^PLEN",
		"presented_user":     "u^ULEN | p^m.u^(ULEN-m) | x^m.u^(ULEN-m) (wrong head, right tail) | u^(ULEN-1).x (wrong last byte)",
		"presented_pass":     "p^PLEN | y^PLEN | p^(PLEN-1).y",
		"request":            "CONNECT 1.2.3.4:80 | UDP ASSOCIATE, then the pipelined 05 02 'P'",
		"delivery":           "whole stream in one read; one read per message (client waits for each answer) with and without zero-length reads; byte at a time; truncation and a single cut at every field boundary -1/0/+1 (quick) / at every offset (thorough)",
		"auth":               "AuthFunc accepts exactly the accepted pair and records what it is asked",
	}
	p.Bounds = map[string]any{"ulen": c18LongULens, "plen": c18LongPLens, "accepted_users": len(accUsers), "presented_users": len(sentUsers), "presented_passes": len(sentPasses), "requests": len(reqs)}
	neg := c18Neg{5, 1, []byte{2}}
	noted := false
	run := func(c *c18Case, desc, delivery string, over, trunc bool) {
		p.Evaluations++
		clause, detail, ref := c18Run(c)
		kind, _, _ := strings.Cut(delivery, "@")
		p.Class(ref.Stage, ref.Outcome, ref.Creds, over, kind, c.Zero, trunc, clause)
		if c.askedOther != "" && clause == "" && !noted {
			noted = true
			p.Note("fidelity (not a violation, AuthFunc answered no): " + desc + "," + delivery + ": " + c.askedOther)
		}
		if clause == "" {
			return
		}
		key := p.Name + "/" + clause
		if x.reported[key] { // one (the simplest) case per clause and shard
			return
		}
		x.reported[key] = true
		cc := *c
		x.sh.Violate(p.Name, fmt.Sprintf("%s/%s/%s,%s", p.Name, clause, desc, delivery), detail, &cc)
	}
	for _, ul := range c18LongULens {
		for _, pl := range c18LongPLens {
			users := c18LongUsers(ul, pl)
			passes := map[string]string{"p*": c18Fill('p', pl), "y*": c18Fill('y', pl), "p*.y-last": c18Fill('p', pl-1) + "y"}
			over := ul+1+pl > 256
			for _, au := range accUsers {
				for _, su := range sentUsers {
					for _, sp := range sentPasses {
						for _, rq := range reqs {
							nb := neg.bytes()
							s := append([]byte(nil), nb...)
							s = append(s, c18UP{true, 1, users[su], passes[sp]}.bytes()...)
							upEnd := len(s)
							s = append(s, rq.r.bytes()...)
							reqEnd := len(s)
							s = append(s, c18Payload...)
							s = append(make([]byte, 0, len(s)), s...) // cap == len
							desc := fmt.Sprintf("ulen=%d,plen=%d,accepted=%s:p*,presented=%s:%s,%s", ul, pl, au, su, sp, rq.name)
							mk := func(l int, cuts []int, zero bool) *c18Case {
								return &c18Case{Stream: s[:l:l], Cuts: cuts, Zero: zero, Auth: true, AccU: users[au], AccP: passes["p*"]}
							}
							if p.Evaluations%997 == 3 {
								p.Sample(map[string]any{"case": desc, "stream_len": len(s)})
							}
							if mine() {
								run(mk(len(s), nil, false), desc, "whole", over, false)
							}
							msgs := []int{len(nb), upEnd, reqEnd}
							every := make([]int, 0, len(s))
							for i := 1; i < len(s); i++ {
								every = append(every, i)
							}
							for _, z := range []bool{false, true} {
								if mine() {
									run(mk(len(s), msgs, z), desc, "per-message", over, false)
								}
								if mine() {
									run(mk(len(s), every, z), desc, "byte-at-a-time", over, false)
								}
							}
							// offsets: field boundaries of the user/pass message (VER, ULEN, UNAME, PLEN, PASSWD) -1/0/+1,
							// and the offset at which 256 bytes of it have been delivered
							var offs []int
							if th {
								offs = every
							} else {
								seen := map[int]bool{}
								b0 := len(nb)
								for _, b := range []int{b0, b0 + 1, b0 + 2, b0 + 2 + ul, b0 + 3 + ul, upEnd, b0 + 256, b0 + 2 + 256, reqEnd} {
									for d := -1; d <= 1; d++ {
										if o := b + d; o >= 1 && o < len(s) && !seen[o] {
											seen[o] = true
											offs = append(offs, o)
										}
									}
								}
							}
							for _, o := range offs {
								if mine() {
									run(mk(o, nil, false), desc, fmt.Sprintf("truncated@%d", o), over, true)
								}
								if mine() {
									run(mk(len(s), []int{o}, false), desc, fmt.Sprintf("cut@%d", o), over, false)
								}
							}
						}
					}
				}
			}
		}
	}
}

func c18SocksReplay(part string, raw json.RawMessage) (bool, bool, string) {
	if part != "socks-truncations" && part != "socks-chunkings" && part != "socks-repeated-userpass" && part != "socks-eof-with-last-bytes" && part != "socks-long-credentials" {
		return false, false, ""
	}
	var c c18Case
	if err := json.Unmarshal(raw, &c); err != nil {
		return true, false, err.Error()
	}
	clause, detail, _ := c18Run(&c)
	return true, clause != "", clause + ": " + detail
}

func TestVerifC18Socks(t *testing.T) {
	evidence.Main(t, "C18", evidence.Seq{Run: c18SocksEnumerate, Replay: c18SocksReplay})
}
