package conform

import (
	"net"
	"sync"
	"sync/atomic"
	"time"
)

// memNet is an in-memory datagram network for the real quic-go stack: sockets are registered by
// address, WriteTo copies the packet into the destination's inbox (a real channel). No OS
// sockets, no ports. Packets to unknown/closed addresses vanish (as on UDP); a full inbox drops.
type memNet struct {
	mu  sync.Mutex
	eps map[string]*memPC
}

func newMemNet() *memNet { return &memNet{eps: map[string]*memPC{}} }

type memPkt struct {
	data []byte
	from net.Addr
}

// memPC implements net.PacketConn. It also counts Close calls made by its user (the property of
// S9: quic.Transport.Close must not close a user supplied PacketConn).
type memPC struct {
	net    *memNet
	addr   *net.UDPAddr
	in     chan memPkt
	closed chan struct{}
	once   sync.Once
	closes atomic.Int32

	mu   sync.Mutex
	rdl  time.Time
	wake chan struct{} // closed whenever the read deadline changes
}

func (n *memNet) socket(ip string, port int) *memPC {
	c := &memPC{net: n, addr: &net.UDPAddr{IP: net.ParseIP(ip), Port: port}, in: make(chan memPkt, 4096),
		closed: make(chan struct{}), wake: make(chan struct{})}
	if n != nil {
		n.mu.Lock()
		n.eps[c.addr.String()] = c
		n.mu.Unlock()
	}
	return c
}

type memTimeout struct{}

func (memTimeout) Error() string   { return "memnet: i/o timeout" }
func (memTimeout) Timeout() bool   { return true }
func (memTimeout) Temporary() bool { return true }

func (c *memPC) ReadFrom(p []byte) (int, net.Addr, error) {
	for {
		c.mu.Lock()
		dl, wake := c.rdl, c.wake
		c.mu.Unlock()
		var tc <-chan time.Time
		var tm *time.Timer
		if !dl.IsZero() {
			d := time.Until(dl)
			if d <= 0 {
				select {
				case <-c.closed:
					return 0, nil, net.ErrClosed
				default:
				}
				return 0, nil, memTimeout{}
			}
			tm = time.NewTimer(d)
			tc = tm.C
		}
		select {
		case pkt := <-c.in:
			if tm != nil {
				tm.Stop()
			}
			return copy(p, pkt.data), pkt.from, nil
		case <-c.closed:
			if tm != nil {
				tm.Stop()
			}
			return 0, nil, net.ErrClosed
		case <-tc:
			return 0, nil, memTimeout{}
		case <-wake:
			if tm != nil {
				tm.Stop()
			}
		}
	}
}

func (c *memPC) WriteTo(p []byte, addr net.Addr) (int, error) {
	select {
	case <-c.closed:
		return 0, net.ErrClosed
	default:
	}
	c.net.mu.Lock()
	dst := c.net.eps[addr.String()]
	c.net.mu.Unlock()
	if dst == nil {
		return len(p), nil
	}
	pkt := memPkt{data: append([]byte(nil), p...), from: c.addr}
	select {
	case <-dst.closed:
	case dst.in <- pkt:
	default: // inbox full: dropped
	}
	return len(p), nil
}

func (c *memPC) Close() error {
	c.closes.Add(1)
	c.shut()
	return nil
}

// shut closes the socket without counting (harness clean-up).
func (c *memPC) shut() {
	c.once.Do(func() {
		close(c.closed)
		if c.net != nil {
			c.net.mu.Lock()
			if c.net.eps[c.addr.String()] == c {
				delete(c.net.eps, c.addr.String())
			}
			c.net.mu.Unlock()
		}
	})
}

func (c *memPC) LocalAddr() net.Addr { return c.addr }

func (c *memPC) SetDeadline(t time.Time) error { return c.SetReadDeadline(t) }

func (c *memPC) SetReadDeadline(t time.Time) error {
	c.mu.Lock()
	c.rdl = t
	close(c.wake)
	c.wake = make(chan struct{})
	c.mu.Unlock()
	return nil
}

func (c *memPC) SetWriteDeadline(time.Time) error { return nil }

// stubPC is the PacketConn handed to the FAKE transport: vquic only asks for LocalAddr and must
// never close it; Close calls are counted the same way as on memPC.
type stubPC struct {
	addr   *net.UDPAddr
	closes int
}

func (c *stubPC) ReadFrom([]byte) (int, net.Addr, error)    { return 0, nil, net.ErrClosed }
func (c *stubPC) WriteTo(p []byte, _ net.Addr) (int, error) { return len(p), nil }
func (c *stubPC) Close() error                              { c.closes++; return nil }
func (c *stubPC) LocalAddr() net.Addr                       { return c.addr }
func (c *stubPC) SetDeadline(time.Time) error               { return nil }
func (c *stubPC) SetReadDeadline(time.Time) error           { return nil }
func (c *stubPC) SetWriteDeadline(time.Time) error          { return nil }
