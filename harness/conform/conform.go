// Package conform binds the fake QUIC layer (verif.local/engine/vquic and its fake http3) to the
// real quic-go stack: every script of the table in scripts.go is executed once against the fake
// (under the controlled scheduler, default schedule) and once against the real quic-go
// Transport/Listener/Conn/http3 joined by an in-memory PacketConn pair, and the two observation
// logs must be equal. Logs hold only semantic classes (data read, io.EOF, normalised error
// classes); whatever real QUIC leaves to timing is normalised inside the scripts.
//
// Real time is used only inside realStack (guards, settle pauses, idle timeouts); it never decides
// an oracle: a script that does not finish within the guard is "inconclusive", not a mismatch.
package conform

import (
	"context"
	"crypto/sha256"
	"errors"
	"fmt"
	"io"
	"net"
	"net/http"
	"strings"
	"sync"
	"time"

	quic "github.com/apernet/quic-go"
)

// xStream is the stream surface hysteria uses; *quic.Stream and *vquic.Stream both satisfy it
// directly (identical method sets).
type xStream interface {
	StreamID() quic.StreamID
	io.Reader
	io.Writer
	io.Closer
	CancelRead(quic.StreamErrorCode)
	CancelWrite(quic.StreamErrorCode)
	SetReadDeadline(time.Time) error
	SetWriteDeadline(time.Time) error
	SetDeadline(time.Time) error
	Context() context.Context
}

// xConn is the connection surface hysteria uses (contexts are always Background, as in hysteria).
type xConn interface {
	OpenStream() (xStream, error)
	AcceptStream() (xStream, error)
	SendDatagram([]byte) error
	ReceiveDatagram() ([]byte, error)
	CloseWithError(code uint64, msg string) error
	Context() context.Context
	SupportsDatagrams() (local, remote bool)
}

// dispatchFn is http3.Server.StreamDispatcher over the abstraction.
type dispatchFn func(ft uint64, s xStream, err error) (handled bool, derr error)

// h3Client is http3.Transport{Dial: ...} used the way hysteria's client does: the connection is
// dialled lazily by the first RoundTrip and kept.
type h3Client interface {
	RoundTrip(*http.Request) (*http.Response, error)
	Conn() xConn // the dialled connection (nil before the first RoundTrip)
	Dials() int
}

// gate is a one-shot barrier usable from script threads of either stack.
type gate interface {
	Wait()
	Open()
}

// stack is what scripts are written against. One value = one fresh world (one server socket with a
// listening transport; client endpoints are created per dial).
type stack interface {
	kind() string // "fake" | "real"
	logf(format string, a ...any)

	// dial creates a new client socket + Transport and dials the server (DialEarly).
	dial() (xConn, error)
	// dialNowhere dials an address nobody listens on.
	dialNowhere() (xConn, error)
	// accept is Listener.Accept.
	accept() (xConn, error)
	// connect = dial + accept (fails the script on error).
	connect() (cli, srv xConn)
	closeListener() error
	// closeTransport closes the Transport of client endpoint i (dial order) or of the server (-1).
	closeTransport(i int) error
	// socketCloses reports how often Close was called on the user supplied PacketConn of client
	// endpoint i or of the server (-1).
	socketCloses(i int) int

	// spawn runs fn in a helper thread; join waits for it.
	spawn(fn func()) (join func())
	// settle lets every other thread run until it blocks (fake: WaitIdle; real: a short pause that
	// also covers a network round trip). Scripts may only use it where the outcome does not
	// depend on it having been long enough, or inside a bounded retry loop.
	settle()
	now() time.Time
	newGate() gate

	// serveH3 is http3.Server{Handler, StreamDispatcher}.ServeQUICConn(srv) (blocking).
	serveH3(srv xConn, h http.Handler, d dispatchFn) error
	newH3Client() h3Client
}

// script is one conformance history.
type script struct {
	name string
	body func(st stack)
	// idle is the QUIC MaxIdleTimeout of the real stack for this script (default 30 s); scripts
	// that need to observe an idle timeout set it small.
	idle time.Duration
	// maxStreams, when >0, limits the bidirectional streams the server accepts from a client:
	// real: quic.Config.MaxIncomingStreams of the listener; fake: vquic has no accounting of its
	// own, the limit is injected through Conn.OpenStreamErr the way harness/C16 injects it (the
	// VALUE quic.StreamLimitReachedError{}).
	maxStreams int
	// expectMismatch marks a known deviation of the fake (documented in DEVIATIONS.md): the
	// suite lists it in a Note instead of failing.
	expectMismatch bool
}

// result of one script on one stack.
type result struct {
	Log    []string `json:"log"`
	Status string   `json:"status"` // "ok" | "inconclusive: ..."
}

// obsLog is the shared observation log.
type obsLog struct {
	mu    sync.Mutex
	lines []string
}

func (l *obsLog) logf(format string, a ...any) {
	l.mu.Lock()
	l.lines = append(l.lines, fmt.Sprintf(format, a...))
	l.mu.Unlock()
}

func (l *obsLog) snapshot() []string {
	l.mu.Lock()
	defer l.mu.Unlock()
	return append([]string(nil), l.lines...)
}

// classify maps an error to its normalised class. The quic-go error types are matched with
// errors.As on the real types; vquic aliases them, so one classifier serves both stacks.
func classify(err error) string {
	if err == nil {
		return "nil"
	}
	if err == io.EOF {
		return "EOF"
	}
	var se *quic.StreamError
	if errors.As(err, &se) {
		return fmt.Sprintf("StreamError{code=%d,remote=%v}", uint64(se.ErrorCode), se.Remote)
	}
	var ae *quic.ApplicationError
	if errors.As(err, &ae) {
		if ae.ErrorMessage != "" {
			return fmt.Sprintf("ApplicationError{code=%#x,remote=%v,msg=%s}", uint64(ae.ErrorCode), ae.Remote, ae.ErrorMessage)
		}
		return fmt.Sprintf("ApplicationError{code=%#x,remote=%v}", uint64(ae.ErrorCode), ae.Remote)
	}
	var dt *quic.DatagramTooLargeError
	if errors.As(err, &dt) {
		return "DatagramTooLargeError"
	}
	var it *quic.IdleTimeoutError
	if errors.As(err, &it) {
		return "IdleTimeout"
	}
	var ht *quic.HandshakeTimeoutError
	if errors.As(err, &ht) {
		return "HandshakeTimeout"
	}
	var te *quic.TransportError
	if errors.As(err, &te) {
		return fmt.Sprintf("TransportError{code=%#x,remote=%v}", uint64(te.ErrorCode), te.Remote)
	}
	// what hysteria's client does with an OpenStream error (core/client/client.go
	// wrapIfConnectionClosed): errors.Is(err, quic.StreamLimitReachedError{}) decides between
	// "recoverable" and ClosedError. The dynamic type (value vs pointer) matters for that.
	var sl quic.StreamLimitReachedError
	var slp *quic.StreamLimitReachedError
	if errors.As(err, &sl) || errors.As(err, &slp) {
		return fmt.Sprintf("StreamLimitReached{hysteria-treats-as-recoverable=%v}", errors.Is(err, quic.StreamLimitReachedError{}))
	}
	if errors.Is(err, quic.ErrServerClosed) {
		return "ServerClosed"
	}
	// quic-go: *errTransportClosed (unexported, Is(net.ErrClosed)); vquic: errors.New with the
	// same text. hysteria never inspects this error (it only reaches Disconnect loggers), so the
	// two are one class here.
	if errors.Is(err, quic.ErrTransportClosed) || strings.HasSuffix(err.Error(), "quic: transport closed") {
		return "TransportClosed"
	}
	var ne net.Error
	if errors.As(err, &ne) && ne.Timeout() {
		return "deadline(timeout=true)"
	}
	msg := err.Error()
	switch {
	case strings.HasPrefix(msg, "write on closed stream"):
		return "write-on-closed-stream"
	case strings.HasPrefix(msg, "close called for canceled stream"):
		return "close-of-canceled-stream"
	}
	return "other(" + msg + ")"
}

// show renders received bytes: short printable data verbatim, everything else by length+hash.
func show(b []byte) string {
	if len(b) <= 48 {
		return fmt.Sprintf("%q", b)
	}
	h := sha256.Sum256(b)
	return fmt.Sprintf("bytes[len=%d,sha=%x]", len(b), h[:6])
}

// readAll reads s to its end. quic-go may return the last bytes together with io.EOF or in a
// separate call; both are normalised to (concatenated data, final class).
func readAll(s xStream) ([]byte, string) {
	var out []byte
	buf := make([]byte, 4096)
	for {
		n, err := s.Read(buf)
		out = append(out, buf[:n]...)
		if err != nil {
			return out, classify(err)
		}
	}
}

// readN reads exactly n bytes (or stops at the first error).
func readN(s xStream, n int) ([]byte, string) {
	out := make([]byte, 0, n)
	buf := make([]byte, n)
	for len(out) < n {
		m, err := s.Read(buf[:n-len(out)])
		out = append(out, buf[:m]...)
		if err != nil {
			return out, classify(err)
		}
	}
	return out, "nil"
}

// writeUntilFail repeats Write until it fails (a STOP_SENDING / CONNECTION_CLOSE needs a round
// trip on the real stack) or the attempt bound is reached; only the final class is reported.
func writeUntilFail(st stack, s xStream, p []byte) string {
	var err error
	for i := 0; i < 150; i++ {
		if _, err = s.Write(p); err != nil {
			break
		}
		st.settle()
	}
	return classify(err)
}

// pattern returns n deterministic bytes.
func pattern(n int) []byte {
	b := make([]byte, n)
	x := uint32(2463534242)
	for i := range b {
		x ^= x << 13
		x ^= x >> 17
		x ^= x << 5
		b[i] = byte(x)
	}
	return b
}

func ctxDone(ctx context.Context) bool {
	select {
	case <-ctx.Done():
		return true
	default:
		return false
	}
}

// ctxDoneSoon is for contexts that are expected to be done: quic-go fails pending calls first and
// cancels the connection context a moment later (closing sequence of connection.go), so "done
// right after a call failed" is a race on the real stack. Bounded wait; hysteria only uses the
// context through http3's accept loop, which tolerates either order (http3/server.go:512-540).
func ctxDoneSoon(st stack, ctx context.Context) bool {
	for i := 0; i < 120 && !ctxDone(ctx); i++ {
		st.settle()
	}
	return ctxDone(ctx)
}

type scriptAbort struct{ why string }

// must aborts the script (both stacks log the same line) when a set-up step fails.
func must(st stack, what string, err error) {
	if err != nil {
		st.logf("ABORT %s: %s", what, classify(err))
		panic(scriptAbort{what})
	}
}
