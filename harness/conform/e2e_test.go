package conform

// Real side of the auth / rate / reconnect end-to-end histories of e2e.go: hysteria's real server
// (and client) over real quic-go on memNet. Run by TestVerifConformRelay (unit relay-real).

import (
	"context"
	"crypto/tls"
	"errors"
	"fmt"
	"net"
	"net/http"
	"sync"
	"time"

	"github.com/apernet/hysteria/core/v2/client"
	"github.com/apernet/hysteria/core/v2/server"
	quic "github.com/apernet/quic-go"
	"github.com/apernet/quic-go/http3"
)

// realHy is the real hysteria server on memNet with recording plug-ins.
type realHy struct {
	obsLog
	net   *memNet
	srvPC *memPC
	srv   server.Server

	mu        sync.Mutex
	cond      *sync.Cond
	authCalls []string
	authTx    []uint64
	tcpDials  []string
	udpDials  []string
	udpWrites []string
	connects  []string
	connectTx []uint64
	targets   []net.Conn
	udpSocks  []*rhUDPConn
	armed     bool

	socks  []*memPC
	qconns []*quic.Conn
	trs    []*quic.Transport
}

type hyOpts struct {
	masq       http.Handler
	bw         server.BandwidthConfig
	ignore     bool
	maxStreams int64
	traffic    bool
}

func newRealHy(o hyOpts) (*realHy, error) {
	w := &realHy{net: newMemNet()}
	w.cond = sync.NewCond(&w.mu)
	w.srvPC = w.net.socket(srvIP, 443)
	cfg := &server.Config{
		TLSConfig:             server.TLSConfig{Certificates: []tls.Certificate{selfSigned()}},
		Conn:                  w.srvPC,
		Outbound:              rhOutbound{w},
		Authenticator:         rhAuth{w},
		EventLogger:           rhEvents{w},
		MasqHandler:           o.masq,
		BandwidthConfig:       o.bw,
		IgnoreClientBandwidth: o.ignore,
	}
	cfg.QUICConfig.MaxIncomingStreams = o.maxStreams
	if o.traffic {
		cfg.TrafficLogger = rhTraffic{w}
	}
	srv, err := server.NewServer(cfg)
	if err != nil {
		w.srvPC.shut()
		return nil, err
	}
	w.srv = srv
	go func() { _ = srv.Serve() }()
	return w, nil
}

func (w *realHy) teardown(extra func()) {
	fin := make(chan struct{})
	go func() {
		defer close(fin)
		if extra != nil {
			extra()
		}
		w.mu.Lock()
		qc := append([]*quic.Conn(nil), w.qconns...)
		trs := append([]*quic.Transport(nil), w.trs...)
		w.mu.Unlock()
		for _, c := range qc {
			_ = c.CloseWithError(0x100, "")
		}
		for _, t := range trs {
			_ = t.Close()
		}
		_ = w.srv.Close()
	}()
	select {
	case <-fin:
	case <-time.After(3 * time.Second):
	}
	w.mu.Lock()
	for _, s := range w.socks {
		s.shut()
	}
	for _, u := range w.udpSocks {
		_ = u.Close()
	}
	w.mu.Unlock()
	w.srvPC.shut()
}

func (w *realHy) newSocket() *memPC {
	w.mu.Lock()
	defer w.mu.Unlock()
	pc := w.net.socket(cliIP, 50000+len(w.socks))
	w.socks = append(w.socks, pc)
	return pc
}

func (w *realHy) snap(f func() []string) []string {
	w.mu.Lock()
	defer w.mu.Unlock()
	return append([]string{}, f()...)
}

func (w *realHy) Logf(format string, a ...any) { w.logf(format, a...) }
func (w *realHy) Settle()                      { time.Sleep(realSettle) }
func (w *realHy) AuthCalls() []string          { return w.snap(func() []string { return w.authCalls }) }
func (w *realHy) TCPDials() []string           { return w.snap(func() []string { return w.tcpDials }) }
func (w *realHy) UDPDials() []string           { return w.snap(func() []string { return w.udpDials }) }
func (w *realHy) UDPWrites() []string          { return w.snap(func() []string { return w.udpWrites }) }
func (w *realHy) Connects() []string           { return w.snap(func() []string { return w.connects }) }

func (w *realHy) WaitUDPWrites(n int) {
	w.mu.Lock()
	defer w.mu.Unlock()
	for len(w.udpWrites) < n {
		w.cond.Wait()
	}
}

func (w *realHy) UDPReply(i int, data []byte, from string) {
	w.mu.Lock()
	for len(w.udpSocks) <= i {
		w.cond.Wait()
	}
	u := w.udpSocks[i]
	w.mu.Unlock()
	u.in <- rhPacket{append([]byte(nil), data...), from}
}

func (w *realHy) target(i int) net.Conn {
	w.mu.Lock()
	defer w.mu.Unlock()
	for len(w.targets) <= i {
		w.cond.Wait()
	}
	return w.targets[i]
}

// --- plug-ins ---------------------------------------------------------------------------------

type rhOutbound struct{ w *realHy }

func (o rhOutbound) TCP(reqAddr string) (net.Conn, error) {
	a, b := net.Pipe()
	o.w.mu.Lock()
	o.w.tcpDials = append(o.w.tcpDials, reqAddr)
	o.w.targets = append(o.w.targets, b)
	o.w.cond.Broadcast()
	o.w.mu.Unlock()
	return a, nil
}

func (o rhOutbound) UDP(reqAddr string) (server.UDPConn, error) {
	u := &rhUDPConn{w: o.w, in: make(chan rhPacket, 16), closed: make(chan struct{})}
	o.w.mu.Lock()
	o.w.udpDials = append(o.w.udpDials, reqAddr)
	o.w.udpSocks = append(o.w.udpSocks, u)
	o.w.cond.Broadcast()
	o.w.mu.Unlock()
	return u, nil
}
func (o rhOutbound) CheckUDP(string) error { return nil }

type rhPacket struct {
	data []byte
	from string
}

type rhUDPConn struct {
	w      *realHy
	in     chan rhPacket
	closed chan struct{}
	once   sync.Once
}

func (u *rhUDPConn) ReadFrom(b []byte) (int, string, error) {
	select {
	case p := <-u.in:
		return copy(b, p.data), p.from, nil
	case <-u.closed:
		return 0, "", net.ErrClosed
	}
}

func (u *rhUDPConn) WriteTo(b []byte, addr string) (int, error) {
	u.w.mu.Lock()
	u.w.udpWrites = append(u.w.udpWrites, addr+" "+string(b))
	u.w.cond.Broadcast()
	u.w.mu.Unlock()
	return len(b), nil
}

func (u *rhUDPConn) Close() error {
	u.once.Do(func() { close(u.closed) })
	return nil
}

type rhAuth struct{ w *realHy }

func (a rhAuth) Authenticate(addr net.Addr, auth string, tx uint64) (bool, string) {
	ok := auth == "good"
	a.w.mu.Lock()
	a.w.authCalls = append(a.w.authCalls, fmt.Sprintf("cred=%s tx=%d ok=%v", auth, tx, ok))
	a.w.authTx = append(a.w.authTx, tx)
	a.w.mu.Unlock()
	return ok, "user:" + auth
}

type rhEvents struct{ w *realHy }

func (l rhEvents) Connect(addr net.Addr, id string, tx uint64) {
	l.w.mu.Lock()
	l.w.connects = append(l.w.connects, fmt.Sprintf("id=%s tx=%d", id, tx))
	l.w.connectTx = append(l.w.connectTx, tx)
	l.w.cond.Broadcast()
	l.w.mu.Unlock()
}
func (l rhEvents) Disconnect(net.Addr, string, error)            {}
func (l rhEvents) TCPRequest(net.Addr, string, string)           {}
func (l rhEvents) TCPError(net.Addr, string, string, error)      {}
func (l rhEvents) UDPRequest(net.Addr, string, uint32, string)   {}
func (l rhEvents) UDPError(net.Addr, string, uint32, error)      {}

type rhTraffic struct{ w *realHy }

func (t rhTraffic) LogTraffic(id string, tx, rx uint64) bool {
	t.w.mu.Lock()
	defer t.w.mu.Unlock()
	if t.w.armed {
		t.w.armed = false
		return false
	}
	return true
}
func (t rhTraffic) LogOnlineState(string, bool)                        {}
func (t rhTraffic) TraceStream(server.HyStream, *server.StreamStats) {}
func (t rhTraffic) UntraceStream(server.HyStream)                    {}

// guarded runs body with the real-stack guard.
func guarded(log *obsLog, body func()) string {
	done := make(chan struct{})
	go func() {
		defer close(done)
		defer func() {
			if p := recover(); p != nil {
				if _, ok := p.(scriptAbort); !ok {
					log.logf("real-execution:panic:%v", p)
				}
			}
		}()
		body()
	}()
	tm := time.NewTimer(realGuard)
	defer tm.Stop()
	select {
	case <-done:
		return "ok"
	case <-tm.C:
		return fmt.Sprintf("inconclusive: real stack did not finish within %v", realGuard)
	}
}

// ---- auth / masquerade --------------------------------------------------------------------------

// hyClientQUICConf mirrors core/client/client.go connect().
func hyClientQUICConf() *quic.Config {
	return &quic.Config{
		MaxIdleTimeout:           30 * time.Second,
		KeepAlivePeriod:          10 * time.Second,
		EnableDatagrams:          true,
		MaxDatagramFrameSize:     hyMaxDatagramFrameSize,
		OmitMaxDatagramFrameSize: true,
		DisablePathManager:       true,
		ChromeParrot:             true,
	}
}

// Dial: a raw quic connection (ALPN h3) with an http3 client connection on top, so that requests,
// raw streams and datagrams share one connection like in hysteria's client.
func (w *realHy) Dial() (*E2EConn, error) {
	pc := w.newSocket()
	tr := &quic.Transport{Conn: pc, ConnectionIDGenerator: quic.ZeroLengthConnectionIDGenerator{}}
	qc, err := tr.DialEarly(context.Background(), w.srvPC.addr, rawTLS(), hyClientQUICConf())
	w.mu.Lock()
	w.trs = append(w.trs, tr)
	if err == nil {
		w.qconns = append(w.qconns, qc)
	}
	w.mu.Unlock()
	if err != nil {
		return nil, err
	}
	cc := (&http3.Transport{}).NewClientConn(qc)
	return &E2EConn{Do: cc.RoundTrip, Raw: realConn{qc}}, nil
}

func runRealAuth(h AuthHistory) result {
	w, err := newRealHy(hyOpts{masq: MasqHandler()})
	if err != nil {
		return result{Log: []string{"ABORT NewServer: " + err.Error()}, Status: "inconclusive: NewServer failed"}
	}
	status := guarded(&w.obsLog, func() { RunAuthHistory(w, h) })
	log := w.snapshot()
	w.teardown(nil)
	return result{Log: log, Status: status}
}

// ---- rate negotiation ---------------------------------------------------------------------------

type realRate struct {
	*realHy
	c  RateCase
	cl client.Client
}

func (w *realRate) New(net.Addr) (net.PacketConn, error) { return w.newSocket(), nil }

func (w *realRate) Handshake() (bool, uint64, error) {
	cl, info, err := client.NewClient(&client.Config{
		ConnFactory: w, ServerAddr: w.srvPC.addr, Auth: "good",
		TLSConfig:       client.TLSConfig{ServerName: "conform", InsecureSkipVerify: true},
		BandwidthConfig: client.BandwidthConfig{MaxTx: w.c.ClientTx, MaxRx: w.c.ClientRx},
	})
	if err != nil {
		return false, 0, err
	}
	w.cl = cl
	return info.UDPEnabled, info.Tx, nil
}

func (w *realRate) ServerSide() (uint64, uint64) {
	w.mu.Lock()
	defer w.mu.Unlock()
	for len(w.connectTx) < 1 {
		w.cond.Wait()
	}
	return w.connectTx[0], w.authTx[0]
}

func runRealRate(c RateCase) result {
	hy, err := newRealHy(hyOpts{bw: server.BandwidthConfig{MaxTx: c.ServerTx, MaxRx: c.ServerRx}, ignore: c.Ignore})
	if err != nil {
		return result{Log: []string{"ABORT NewServer: " + err.Error()}, Status: "inconclusive: NewServer failed"}
	}
	w := &realRate{realHy: hy, c: c}
	status := guarded(&hy.obsLog, func() { RunRateCase(w, c) })
	log := hy.snapshot()
	hy.teardown(func() {
		if w.cl != nil {
			_ = w.cl.Close()
		}
	})
	return result{Log: log, Status: status}
}

// ---- reconnecting client ------------------------------------------------------------------------

type realReconn struct {
	*realHy
	h         ReconnHistory
	rc        client.Client
	connected []int
}

func (w *realReconn) New(net.Addr) (net.PacketConn, error) { return w.newSocket(), nil }

func (w *realReconn) NewClient(lazy bool) error {
	rc, err := client.NewReconnectableClient(
		func() (*client.Config, error) {
			return &client.Config{ConnFactory: w, ServerAddr: w.srvPC.addr, Auth: "good",
				TLSConfig: client.TLSConfig{ServerName: "conform", InsecureSkipVerify: true}}, nil
		},
		func(c client.Client, info *client.HandshakeInfo, count int) {
			w.mu.Lock()
			w.connected = append(w.connected, count)
			w.mu.Unlock()
		}, lazy)
	if err != nil {
		return err
	}
	w.rc = rc
	return nil
}

func (w *realReconn) TCP(addr string) (net.Conn, error) { return w.rc.TCP(addr) }
func (w *realReconn) Close() error {
	if w.rc == nil {
		return errors.New("no client")
	}
	return w.rc.Close()
}

func (w *realReconn) Factory() (int, []bool) {
	w.mu.Lock()
	defer w.mu.Unlock()
	closed := []bool{}
	for _, s := range w.socks {
		closed = append(closed, s.closes.Load() > 0)
	}
	return len(w.socks), closed
}

func (w *realReconn) Connected() []int {
	w.mu.Lock()
	defer w.mu.Unlock()
	return append([]int{}, w.connected...)
}

func (w *realReconn) ArmVeto() {
	w.mu.Lock()
	w.armed = true
	w.mu.Unlock()
}

func (w *realReconn) Target(i int) net.Conn { return w.target(i) }

func runRealReconn(h ReconnHistory) result {
	hy, err := newRealHy(hyOpts{traffic: true, maxStreams: int64(h.MaxStreams)})
	if err != nil {
		return result{Log: []string{"ABORT NewServer: " + err.Error()}, Status: "inconclusive: NewServer failed"}
	}
	w := &realReconn{realHy: hy, h: h}
	status := guarded(&hy.obsLog, func() { h.Body(w) })
	log := hy.snapshot()
	hy.teardown(func() {
		if w.rc != nil {
			_ = w.rc.Close()
		}
	})
	return result{Log: log, Status: status}
}
