package conform

// End-to-end relay histories (stretch part of the conformance suite): the same sequential history
// is driven through hysteria's REAL client and server packages joined (a) by the fake QUIC layer
// (unit relay-fake: an in-package harness of /repo/core/server built with the quic overlay, file
// relayfake/relay_fake_test.go, which imports this package for the history table and the driver)
// and (b) by the real quic-go stack over memNet (unit relay-real: relay_test.go, no overlay).
// Both sides implement RelayWorld; RunRelayHistory is written once. The fake unit dumps its
// observation logs to RelayObsPath(); the real unit compares.
//
// This file must not import hysteria's client/server packages (the in-package harness of
// core/server imports it).

import (
	"errors"
	"fmt"
	"io"
	"net"
	"os"
	"path/filepath"
	"strings"

	coreErrs "github.com/apernet/hysteria/core/v2/errors"
)

// RelayHistory is one sequential end-to-end history.
type RelayHistory struct {
	Name       string
	AppSend    []string // chunks the application writes (each is read completely by the target before the next)
	TgtSend    []string // chunks the target writes (each read completely by the application)
	Big        int      // >0: additionally n patterned bytes app -> target with a concurrent writer
	CloseFirst string   // "app" | "target"
	FastOpen   bool
	Logger     bool   // TrafficLogger installed
	VetoAt     int    // k>0: the k-th LogTraffic call returns false
	DialErr    string // non-empty: Outbound.TCP fails with this message
}

const RelayAddr = "target.example:80"

// RelayHistories is the table.
func RelayHistories() []RelayHistory {
	return []RelayHistory{
		{Name: "echo-app-closes-first", AppSend: []string{"hello"}, TgtSend: []string{"world"}, CloseFirst: "app"},
		{Name: "echo-target-closes-first", AppSend: []string{"hello"}, TgtSend: []string{"world"}, CloseFirst: "target"},
		{Name: "upload-only-app-closes", AppSend: []string{"a", "bcd", "efghij"}, CloseFirst: "app"},
		{Name: "download-only-target-closes", TgtSend: []string{"x", "yz0", "123456"}, CloseFirst: "target"},
		{Name: "dial-error", AppSend: []string{"a"}, DialErr: "connection refused by policy"},
		{Name: "fastopen-echo-app-closes-first", AppSend: []string{"hello"}, TgtSend: []string{"world"}, CloseFirst: "app", FastOpen: true},
		{Name: "fastopen-echo-target-closes-first", AppSend: []string{"hello"}, TgtSend: []string{"world"}, CloseFirst: "target", FastOpen: true},
		{Name: "fastopen-dial-error", DialErr: "connection refused by policy", FastOpen: true},
		{Name: "logger-echo-app-closes-first", AppSend: []string{"hello", "again"}, TgtSend: []string{"world"}, CloseFirst: "app", Logger: true},
		{Name: "logger-echo-target-closes-first", AppSend: []string{"hello"}, TgtSend: []string{"wor", "ld"}, CloseFirst: "target", Logger: true},
		{Name: "logger-veto-closes-connection", AppSend: []string{"hello"}, Logger: true, VetoAt: 1},
		{Name: "big-upload-100k", Big: 100000, CloseFirst: "app", Logger: true},
	}
}

// RelayWorld is what the driver needs from either side.
type RelayWorld interface {
	Logf(format string, a ...any)
	// Connect is client.NewClient(...); it reports UDPEnabled and Tx of the HandshakeInfo.
	Connect() (udp bool, tx uint64, err error)
	// TCP is Client.TCP(addr).
	TCP(addr string) (net.Conn, error)
	// Target blocks until Outbound.TCP handed out a connection and returns the harness end.
	Target() net.Conn
	// WaitTCPError blocks until the server's EventLogger.TCPError was called for the n-th time
	// (1-based) and reports whether its err argument was nil.
	WaitTCPError(n int) (errIsNil bool)
	// Traffic returns the sums over all LogTraffic calls so far and whether one was vetoed.
	Traffic() (tx, rx uint64, vetoed bool)
	// Requests returns the reqAddr of every TCPRequest event so far.
	Requests() []string
	// CloseClient is Client.Close(); WaitDisconnect blocks until EventLogger.Disconnect and
	// reports whether its err was nil.
	CloseClient()
	WaitDisconnect() (errIsNil bool)
	Spawn(fn func()) (join func())
	Settle()
}

// RelayClass normalises errors seen by the application side.
func RelayClass(err error) string {
	if err == nil {
		return "nil"
	}
	if err == io.EOF {
		return "EOF"
	}
	var de coreErrs.DialError
	if errors.As(err, &de) {
		return fmt.Sprintf("DialError{%s}", de.Message)
	}
	var ce coreErrs.ClosedError
	if errors.As(err, &ce) {
		return fmt.Sprintf("ClosedError{%s}", classify(ce.Err))
	}
	cls := classify(err)
	if strings.HasPrefix(cls, "other(") && (errors.Is(err, io.ErrClosedPipe) || errors.Is(err, net.ErrClosed)) {
		// net.Pipe (real side target) and vnet.Pipe (fake side target) name a closed pipe differently
		return "closed-pipe"
	}
	return cls
}

func relayReadAll(c net.Conn) ([]byte, string) {
	var out []byte
	buf := make([]byte, 4096)
	for {
		n, err := c.Read(buf)
		out = append(out, buf[:n]...)
		if err != nil {
			return out, RelayClass(err)
		}
	}
}

func relayReadN(c net.Conn, n int) ([]byte, string) {
	buf := make([]byte, n)
	m, err := io.ReadFull(c, buf)
	return buf[:m], RelayClass(err)
}

// RunRelayHistory drives one history; every observation goes to w.Logf.
func RunRelayHistory(w RelayWorld, h RelayHistory) {
	udp, tx, err := w.Connect()
	w.Logf("NewClient: %s udp=%v tx=%d", RelayClass(err), udp, tx)
	if err != nil {
		return
	}
	finish := func() {
		reqs := w.Requests()
		if h.VetoAt > 0 && len(reqs) > 1 {
			// probing TCP calls made while waiting for the close to arrive may or may not have
			// reached the server on the real stack
			reqs = reqs[:1]
		}
		w.Logf("TCPRequest events: %v", reqs)
		if h.Logger {
			tx, rx, vetoed := w.Traffic()
			w.Logf("traffic logged: tx=%d rx=%d vetoed=%v", tx, rx, vetoed)
		}
		w.CloseClient()
		w.Logf("Disconnect err==nil: %v", w.WaitDisconnect())
	}
	conn, err := w.TCP(RelayAddr)
	w.Logf("TCP: %s", RelayClass(err))
	if err != nil {
		w.Logf("server TCPError err==nil: %v", w.WaitTCPError(1))
		finish()
		return
	}
	if h.DialErr != "" { // fast open: the failure surfaces at the first Read
		one := make([]byte, 8)
		n, err := conn.Read(one)
		w.Logf("first Read: n=%d %s", n, RelayClass(err))
		_ = conn.Close()
		w.Logf("server TCPError err==nil: %v", w.WaitTCPError(1))
		finish()
		return
	}
	t := w.Target()
	if t == nil {
		w.Logf("no target connection")
		finish()
		return
	}
	if h.VetoAt > 0 {
		for _, ch := range h.AppSend {
			_, err := conn.Write([]byte(ch))
			w.Logf("app write %q %s", ch, RelayClass(err))
		}
		w.Logf("server TCPError err==nil: %v", w.WaitTCPError(1))
		d, end := relayReadAll(t)
		w.Logf("target read %s end=%s", show(d), end)
		_ = t.Close()
		// the veto closes the whole connection; wait until the client has noticed
		cls := "still-open"
		for i := 0; i < 150; i++ {
			c2, err := w.TCP(RelayAddr)
			if err != nil {
				cls = RelayClass(err)
				break
			}
			_ = c2.Close()
			w.Settle()
		}
		w.Logf("later TCP: %s", cls)
		one := make([]byte, 8)
		n, err := conn.Read(one)
		w.Logf("app read: n=%d %s", n, RelayClass(err))
		finish()
		return
	}
	for _, ch := range h.AppSend {
		_, err := conn.Write([]byte(ch))
		w.Logf("app write %q %s", ch, RelayClass(err))
		d, cls := relayReadN(t, len(ch))
		w.Logf("target got %s %s", show(d), cls)
	}
	for _, ch := range h.TgtSend {
		_, err := t.Write([]byte(ch))
		w.Logf("target write %q %s", ch, RelayClass(err))
		d, cls := relayReadN(conn, len(ch))
		w.Logf("app got %s %s", show(d), cls)
	}
	if h.Big > 0 {
		p := pattern(h.Big)
		var wcls string
		join := w.Spawn(func() {
			_, err := conn.Write(p)
			wcls = RelayClass(err)
		})
		d, cls := relayReadN(t, h.Big)
		join()
		w.Logf("big upload: write %s; target got %s intact=%v %s", wcls, show(d), string(d) == string(p), cls)
	}
	switch h.CloseFirst {
	case "app":
		w.Logf("app close %s", RelayClass(conn.Close()))
		d, end := relayReadAll(t)
		w.Logf("target read %s end=%s", show(d), end)
		_ = t.Close()
	case "target":
		_ = t.Close()
		d, end := relayReadAll(conn)
		w.Logf("app read %s end=%s", show(d), end)
		// the result of this Close depends on whether the server's STOP_SENDING already arrived
		// (deviation D3 of DEVIATIONS.md); not logged
		_ = conn.Close()
	}
	w.Logf("server TCPError err==nil: %v", w.WaitTCPError(1))
	finish()
}

// RelayObsPath is where the fake unit leaves its observation logs for the real unit:
// <build dir of the check>/relay-fake/obs.json. vcheck wipes the unit directory at every build,
// so a file found there was written during the current run.
func RelayObsPath() string {
	base := "/verif/.build/conform"
	if d := os.Getenv("VERIF_BUILD_DIR"); d != "" {
		base = d // bin/vcheck: the build directory of this run (differs per tier)
	}
	if out := os.Getenv("VERIF_OUT"); out != "" {
		base = filepath.Dir(filepath.Dir(out))
	}
	return filepath.Join(base, "relay-fake", "obs.json")
}
