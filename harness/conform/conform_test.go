package conform

import (
	"encoding/json"
	"fmt"
	"os"
	"strings"
	"testing"
	"time"

	"verif.local/engine/evidence"
)

// TestVerifConform runs every script of the table on the fake and on the real stack and requires
// equal observation logs. Sharded by script index. Set CONFORM_ONLY=<substring> and -v to look at
// single scripts by hand.
func TestVerifConform(t *testing.T) {
	evidence.Main(t, "CONFORM", evidence.Seq{
		Run:    func(sh *evidence.Shard) { runTable(t, sh) },
		Replay: replayOne,
	})
}

type verdict struct {
	Script  string   `json:"script"`
	Outcome string   `json:"outcome"` // matched | mismatch | expected-mismatch | inconclusive | unexpected-match
	Fake    []string `json:"fake"`
	Real    []string `json:"real"`
	Status  string   `json:"real_status"`
}

func equalLogs(a, b []string) bool {
	if len(a) != len(b) {
		return false
	}
	for i := range a {
		if a[i] != b[i] {
			return false
		}
	}
	return true
}

func evaluate(sc *script) verdict {
	fr := runFake(sc)
	rr := runReal(sc)
	v := verdict{Script: sc.name, Fake: fr.Log, Real: rr.Log, Status: rr.Status}
	switch {
	case rr.Status != "ok":
		v.Outcome = "inconclusive"
	case equalLogs(fr.Log, rr.Log):
		v.Outcome = "matched"
		if sc.expectMismatch {
			v.Outcome = "unexpected-match"
		}
	case sc.expectMismatch:
		v.Outcome = "expected-mismatch"
	default:
		v.Outcome = "mismatch"
	}
	return v
}

func diffDetail(v verdict) string {
	var sb strings.Builder
	fmt.Fprintf(&sb, "script %s (fake | real):\n", v.Script)
	n := len(v.Fake)
	if len(v.Real) > n {
		n = len(v.Real)
	}
	for i := 0; i < n; i++ {
		f, r := "<none>", "<none>"
		if i < len(v.Fake) {
			f = v.Fake[i]
		}
		if i < len(v.Real) {
			r = v.Real[i]
		}
		mark := "  "
		if f != r {
			mark = "!="
		}
		fmt.Fprintf(&sb, " %s fake: %-70s | real: %s\n", mark, f, r)
	}
	return sb.String()
}

func runTable(t *testing.T, sh *evidence.Shard) {
	env := sh.Env()
	p := sh.Part("quic-conformance", "enum")
	tab := scripts()
	var names []string
	for _, sc := range tab {
		names = append(names, sc.name)
	}
	p.Alphabet = map[string]any{"scripts": names, "stacks": []string{"fake: vquic + fake http3 under vsched.RunDefault", "real: apernet/quic-go + http3 over an in-memory PacketConn pair"}}
	p.Bounds = map[string]any{"real_guard_s": int(realGuard / time.Second)}
	only := os.Getenv("CONFORM_ONLY")
	for i, sc := range tab {
		if !env.Mine(int64(i)) {
			continue
		}
		if only != "" && !strings.Contains(sc.name, only) {
			continue
		}
		if env.Expired() {
			p.Exhaustive = false
			p.Note("deadline reached before script %s", sc.name)
			break
		}
		p.Evaluations++
		t0 := time.Now()
		v := evaluate(sc)
		p.Class(sc.name, v.Outcome)
		p.Count(v.Outcome, 1)
		if only != "" {
			t.Logf("%s: %s (%.2fs)\n%s", sc.name, v.Outcome, time.Since(t0).Seconds(), diffDetail(v))
		}
		switch v.Outcome {
		case "matched":
			p.ImplTraces++
			p.Sample(map[string]any{"script": sc.name, "log": v.Real})
		case "inconclusive":
			p.Exhaustive = false
			p.Note("inconclusive (not validated): %s: %s; real log so far: %s", sc.name, v.Status, strings.Join(v.Real, " / "))
		case "expected-mismatch":
			p.Note("known deviation of the fake (DEVIATIONS.md): %s", sc.name)
		case "unexpected-match":
			p.ImplTraces++
			p.Note("script %s is marked expectMismatch but the logs are equal now (fake repaired? drop the mark)", sc.name)
		case "mismatch":
			sh.Violate("quic-conformance", "conform/"+sc.name+"/mismatch", diffDetail(v), map[string]any{"script": sc.name, "fake": v.Fake, "real": v.Real})
		}
	}
}

func replayOne(part string, raw json.RawMessage) (handled, reproduced bool, detail string) {
	if part != "quic-conformance" {
		return false, false, ""
	}
	var r struct {
		Script string `json:"script"`
	}
	if err := json.Unmarshal(raw, &r); err != nil {
		return true, false, "bad replay data: " + err.Error()
	}
	for _, sc := range scripts() {
		if sc.name == r.Script {
			v := evaluate(sc)
			return true, v.Outcome == "mismatch" || v.Outcome == "expected-mismatch", v.Outcome + "\n" + diffDetail(v)
		}
	}
	return true, false, "unknown script " + r.Script
}
