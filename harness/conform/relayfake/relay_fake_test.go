package server

// Fake side of the end-to-end relay conformance (unit relay-fake of harness/conform/check.json):
// hysteria's real client and server packages joined by vquic + fake http3 (build overlay with
// "quic": true), driven sequentially under the default schedule by conform.RunRelayHistory. The
// observation logs are dumped to conform.RelayObsPath() for the real-stack unit to compare.
// Injected together with harness/common/server_rig_test.go.

import (
	"encoding/json"
	"fmt"
	"net"
	"os"
	"path/filepath"
	"testing"

	"github.com/apernet/hysteria/core/v2/client"
	"verif.local/engine/evidence"
	"verif.local/engine/vnet"
	"verif.local/engine/vquic"
	"verif.local/engine/vsched"
	"verif.local/harness/conform"
)

type rfWorld struct {
	e       *vsched.Exec
	h       conform.RelayHistory
	r       *rig
	log     []string
	cl      client.Client
	nsock   int
	tcperrs []bool
	discs   []bool
}

// rfLogger wraps the rig's EventLogger to keep what the rig drops (the err arguments).
type rfLogger struct {
	EventLogger
	w *rfWorld
}

func (l rfLogger) TCPError(addr net.Addr, id, reqAddr string, err error) {
	l.EventLogger.TCPError(addr, id, reqAddr, err)
	l.w.tcperrs = append(l.w.tcperrs, err == nil)
}

func (l rfLogger) Disconnect(addr net.Addr, id string, err error) {
	l.EventLogger.Disconnect(addr, id, err)
	l.w.discs = append(l.w.discs, err == nil)
}

func (w *rfWorld) New(net.Addr) (net.PacketConn, error) {
	w.nsock++
	return newRigSock(fmt.Sprintf("client-sock-%d", w.nsock), 50000+w.nsock-1), nil
}

func (w *rfWorld) Logf(format string, a ...any) { w.log = append(w.log, fmt.Sprintf(format, a...)) }

func (w *rfWorld) Connect() (bool, uint64, error) {
	cl, info, err := client.NewClient(&client.Config{ConnFactory: w, ServerAddr: w.r.pc.LocalAddr(), Auth: "good", FastOpen: w.h.FastOpen})
	if err != nil {
		return false, 0, err
	}
	w.cl = cl
	return info.UDPEnabled, info.Tx, nil
}

func (w *rfWorld) TCP(addr string) (net.Conn, error) { return w.cl.TCP(addr) }

func (w *rfWorld) connClosed() bool {
	nt := vquic.GetNet(w.e)
	return len(nt.Conns) > 0 && nt.Conns[0].IsClosed()
}

func (w *rfWorld) Target() net.Conn {
	w.e.Point("env", func() bool { return w.r.Targets[conform.RelayAddr] != nil || w.connClosed() }, "target waits for dial")
	if t := w.r.Targets[conform.RelayAddr]; t != nil {
		return t
	}
	return nil
}

func (w *rfWorld) WaitTCPError(n int) bool {
	w.e.Point("env", func() bool { return len(w.tcperrs) >= n }, "wait TCPError")
	return w.tcperrs[n-1]
}

func (w *rfWorld) Traffic() (tx, rx uint64, vetoed bool) {
	for _, ev := range w.r.Events {
		if ev.Kind == "traffic" {
			tx += ev.N
			rx += ev.M
			if !ev.OK {
				vetoed = true
			}
		}
	}
	return
}

func (w *rfWorld) Requests() []string {
	var out []string
	for _, ev := range w.r.Events {
		if ev.Kind == "tcpreq" {
			out = append(out, ev.B)
		}
	}
	return out
}

func (w *rfWorld) CloseClient() { _ = w.cl.Close() }

func (w *rfWorld) WaitDisconnect() bool {
	w.e.Point("env", func() bool { return len(w.discs) >= 1 }, "wait Disconnect")
	return w.discs[0]
}

func (w *rfWorld) Spawn(fn func()) func() {
	done := false
	vsched.GoNamed("relay-helper", func() {
		defer func() { done = true }()
		fn()
	})
	return func() { w.e.Point("join", func() bool { return done }, "join") }
}

func (w *rfWorld) Settle() { w.e.WaitIdle() }

func rfRun(h conform.RelayHistory) []string {
	w := &rfWorld{h: h}
	o := vsched.RunDefault(vsched.Options{}, func(e *vsched.Exec) {
		w.e = e
		w.r = newRig(e, rigOpts{Traffic: h.Logger, Mutate: func(c *Config) { c.EventLogger = rfLogger{EventLogger: c.EventLogger, w: w} }})
		if w.r.srv == nil {
			w.Logf("ABORT NewServer")
			return
		}
		if h.VetoAt > 0 {
			w.r.TrafficVeto = func(n int, id string, tx, rx uint64) bool { return n == h.VetoAt }
		}
		if h.DialErr != "" {
			w.r.DialErr[conform.RelayAddr] = fmt.Errorf("%s", h.DialErr)
		}
		conform.RunRelayHistory(w, h)
		w.r.shutdown(false)
	})
	log := append([]string(nil), w.log...)
	if o.Kind != "ok" {
		log = append(log, fmt.Sprintf("fake-execution:%s:%s", o.Kind, o.Detail))
	}
	return log
}

func TestVerifConformRelayFake(t *testing.T) {
	evidence.Main(t, "CONFORM", evidence.Seq{Run: func(sh *evidence.Shard) {
		p := sh.Part("relay-fake", "enum")
		obs := map[string][]string{}
		var names []string
		for _, h := range conform.RelayHistories() {
			names = append(names, h.Name)
			p.Evaluations++
			log := rfRun(h)
			obs[h.Name] = log
			p.Class(h.Name, fmt.Sprint(log))
			p.Sample(map[string]any{"history": h.Name, "log": log})
		}
		p.Alphabet = names
		for _, h := range conform.AuthHistories() {
			p.Evaluations++
			log := afRun(h)
			obs["auth/"+h.Name] = log
			p.Class("auth", h.Name, fmt.Sprint(log))
		}
		for _, c := range conform.RateCases() {
			p.Evaluations++
			log := rtRun(c)
			obs["rate/"+c.Name] = log
			p.Class("rate", c.Name, fmt.Sprint(log))
		}
		for _, h := range conform.ReconnHistories() {
			p.Evaluations++
			log := rcRun(h)
			obs["reconnect/"+h.Name] = log
			p.Class("reconnect", h.Name, fmt.Sprint(log))
		}
		path := conform.RelayObsPath()
		b, _ := json.MarshalIndent(obs, "", " ")
		if err := os.MkdirAll(filepath.Dir(path), 0o755); err != nil {
			sh.InfraError("relay-fake: %v", err)
			return
		}
		tmp := path + ".tmp"
		if err := os.WriteFile(tmp, b, 0o644); err != nil {
			sh.InfraError("relay-fake: %v", err)
			return
		}
		if err := os.Rename(tmp, path); err != nil {
			sh.InfraError("relay-fake: %v", err)
		}
		p.Note("observation logs of %d histories written to %s", len(obs), path)
	}})
}

// ---- shared plumbing of the other end-to-end histories (conform/e2e.go) ------------------------

type fakeBase struct {
	e   *vsched.Exec
	r   *rig
	log []string
}

func (w *fakeBase) Logf(format string, a ...any) { w.log = append(w.log, fmt.Sprintf(format, a...)) }
func (w *fakeBase) Settle()                      { w.e.WaitIdle() }

func (w *fakeBase) events(kind string, f func(rigEvent) string) []string {
	out := []string{}
	for _, ev := range w.r.Events {
		if ev.Kind == kind {
			out = append(out, f(ev))
		}
	}
	return out
}

func fakeExec(body func(e *vsched.Exec) *fakeBase) []string {
	var b *fakeBase
	o := vsched.RunDefault(vsched.Options{}, func(e *vsched.Exec) {
		b = body(e)
		if b != nil && b.r != nil {
			b.r.shutdown(false)
		}
	})
	var log []string
	if b != nil {
		log = append(log, b.log...)
	}
	if o.Kind != "ok" {
		log = append(log, fmt.Sprintf("fake-execution:%s:%s", o.Kind, o.Detail))
	}
	return log
}

// ---- auth / masquerade ------------------------------------------------------------------------

type afWorld struct {
	fakeBase
	n int
}

func (w *afWorld) Dial() (*conform.E2EConn, error) {
	w.n++
	rc := w.r.dial(fmt.Sprintf("c%d", w.n))
	if rc.Conn == nil {
		return nil, errRigDial
	}
	return conform.NewFakeE2EConn(rc.Conn), nil
}

func (w *afWorld) AuthCalls() []string {
	return w.events("auth", func(ev rigEvent) string { return fmt.Sprintf("cred=%s tx=%d ok=%v", ev.A, ev.N, ev.OK) })
}
func (w *afWorld) TCPDials() []string {
	return w.events("tcp", func(ev rigEvent) string { return ev.A })
}
func (w *afWorld) UDPDials() []string {
	return w.events("udp", func(ev rigEvent) string { return ev.A })
}
func (w *afWorld) UDPWrites() []string {
	return w.events("udpwrite", func(ev rigEvent) string { return ev.A + " " + ev.B })
}
func (w *afWorld) Connects() []string {
	return w.events("connect", func(ev rigEvent) string { return fmt.Sprintf("id=%s tx=%d", ev.A, ev.N) })
}
func (w *afWorld) WaitUDPWrites(n int) {
	w.e.Point("env", func() bool { return len(w.UDPWrites()) >= n }, "wait udp write")
}
func (w *afWorld) UDPReply(i int, data []byte, from string) {
	w.e.Point("env", func() bool { return len(w.r.UDPSocks) > i }, "wait udp socket")
	w.r.UDPSocks[i].Inject(data, from)
}

func afRun(h conform.AuthHistory) []string {
	return fakeExec(func(e *vsched.Exec) *fakeBase {
		w := &afWorld{}
		w.e = e
		w.r = newRig(e, rigOpts{Masq: conform.MasqHandler()})
		if w.r.srv == nil {
			w.Logf("ABORT NewServer")
			return &w.fakeBase
		}
		conform.RunAuthHistory(w, h)
		return &w.fakeBase
	})
}

// ---- rate negotiation -------------------------------------------------------------------------

type rtWorld struct {
	fakeBase
	c     conform.RateCase
	nsock int
	cl    client.Client
}

func (w *rtWorld) New(net.Addr) (net.PacketConn, error) {
	w.nsock++
	return newRigSock(fmt.Sprintf("client-sock-%d", w.nsock), 50000+w.nsock-1), nil
}

func (w *rtWorld) Handshake() (bool, uint64, error) {
	cl, info, err := client.NewClient(&client.Config{ConnFactory: w, ServerAddr: w.r.pc.LocalAddr(), Auth: "good",
		BandwidthConfig: client.BandwidthConfig{MaxTx: w.c.ClientTx, MaxRx: w.c.ClientRx}})
	if err != nil {
		return false, 0, err
	}
	w.cl = cl
	return info.UDPEnabled, info.Tx, nil
}

func (w *rtWorld) ServerSide() (connectTx, authTx uint64) {
	find := func(kind string) (uint64, bool) {
		for _, ev := range w.r.Events {
			if ev.Kind == kind {
				return ev.N, true
			}
		}
		return 0, false
	}
	w.e.Point("env", func() bool { _, ok := find("connect"); return ok }, "wait Connect")
	connectTx, _ = find("connect")
	authTx, _ = find("auth")
	return
}

func rtRun(c conform.RateCase) []string {
	return fakeExec(func(e *vsched.Exec) *fakeBase {
		w := &rtWorld{c: c}
		w.e = e
		w.r = newRig(e, rigOpts{Mutate: func(cfg *Config) {
			cfg.BandwidthConfig = BandwidthConfig{MaxTx: c.ServerTx, MaxRx: c.ServerRx}
			cfg.IgnoreClientBandwidth = c.Ignore
		}})
		if w.r.srv == nil {
			w.Logf("ABORT NewServer")
			return &w.fakeBase
		}
		conform.RunRateCase(w, c)
		if w.cl != nil {
			_ = w.cl.Close()
		}
		return &w.fakeBase
	})
}

// ---- reconnecting client ----------------------------------------------------------------------

type rcWorld struct {
	fakeBase
	h         conform.ReconnHistory
	socks     []*vnet.PacketConn
	connected []int
	rc        client.Client
	armed     bool
}

func (w *rcWorld) New(net.Addr) (net.PacketConn, error) {
	pc := newRigSock(fmt.Sprintf("client-sock-%d", len(w.socks)), 50000+len(w.socks))
	w.socks = append(w.socks, pc)
	return pc, nil
}

func (w *rcWorld) NewClient(lazy bool) error {
	rc, err := client.NewReconnectableClient(
		func() (*client.Config, error) {
			return &client.Config{ConnFactory: w, ServerAddr: w.r.pc.LocalAddr(), Auth: "good"}, nil
		},
		func(c client.Client, info *client.HandshakeInfo, count int) {
			w.connected = append(w.connected, count)
			if w.h.MaxStreams > 0 {
				nt := vquic.GetNet(w.e)
				nt.Conns[len(nt.Conns)-1].MaxStreams = w.h.MaxStreams
			}
		}, lazy)
	if err != nil {
		return err
	}
	w.rc = rc
	return nil
}

func (w *rcWorld) TCP(addr string) (net.Conn, error) { return w.rc.TCP(addr) }
func (w *rcWorld) Close() error                      { return w.rc.Close() }
func (w *rcWorld) Factory() (int, []bool) {
	closed := []bool{}
	for _, s := range w.socks {
		closed = append(closed, s.Closes > 0)
	}
	return len(w.socks), closed
}
func (w *rcWorld) Connected() []int { return append([]int{}, w.connected...) }
func (w *rcWorld) ArmVeto()         { w.armed = true }

func (w *rcWorld) Target(i int) net.Conn {
	addrs := func() []string {
		var out []string
		for _, ev := range w.r.Events {
			if ev.Kind == "tcp" && ev.OK {
				out = append(out, ev.A)
			}
		}
		return out
	}
	w.e.Point("env", func() bool { return len(addrs()) > i }, "wait target")
	return w.r.Targets[addrs()[i]]
}

func rcRun(h conform.ReconnHistory) []string {
	return fakeExec(func(e *vsched.Exec) *fakeBase {
		w := &rcWorld{h: h}
		w.e = e
		w.r = newRig(e, rigOpts{Traffic: true})
		if w.r.srv == nil {
			w.Logf("ABORT NewServer")
			return &w.fakeBase
		}
		w.r.TrafficVeto = func(n int, id string, tx, rx uint64) bool {
			if w.armed {
				w.armed = false
				return true
			}
			return false
		}
		h.Body(w)
		if w.rc != nil {
			_ = w.rc.Close()
		}
		return &w.fakeBase
	})
}
