package server

// Fake side of the end-to-end relay conformance (unit relay-fake of harness/conform/check.json):
// hysteria's real client and server packages joined by vquic + fake http3 (build overlay with
// "quic": true), driven sequentially under the default schedule by conform.RunRelayHistory. The
// observation logs are dumped to conform.RelayObsPath() for the real-stack unit to compare.
// Injected together with harness/common/server_rig_test.go.

import (
	"encoding/json"
	"fmt"
	"net"
	"os"
	"path/filepath"
	"testing"

	"github.com/apernet/hysteria/core/v2/client"
	"verif.local/engine/evidence"
	"verif.local/engine/vquic"
	"verif.local/engine/vsched"
	"verif.local/harness/conform"
)

type rfWorld struct {
	e       *vsched.Exec
	h       conform.RelayHistory
	r       *rig
	log     []string
	cl      client.Client
	nsock   int
	tcperrs []bool
	discs   []bool
}

// rfLogger wraps the rig's EventLogger to keep what the rig drops (the err arguments).
type rfLogger struct {
	EventLogger
	w *rfWorld
}

func (l rfLogger) TCPError(addr net.Addr, id, reqAddr string, err error) {
	l.EventLogger.TCPError(addr, id, reqAddr, err)
	l.w.tcperrs = append(l.w.tcperrs, err == nil)
}

func (l rfLogger) Disconnect(addr net.Addr, id string, err error) {
	l.EventLogger.Disconnect(addr, id, err)
	l.w.discs = append(l.w.discs, err == nil)
}

func (w *rfWorld) New(net.Addr) (net.PacketConn, error) {
	w.nsock++
	return newRigSock(fmt.Sprintf("client-sock-%d", w.nsock), 50000+w.nsock-1), nil
}

func (w *rfWorld) Logf(format string, a ...any) { w.log = append(w.log, fmt.Sprintf(format, a...)) }

func (w *rfWorld) Connect() (bool, uint64, error) {
	cl, info, err := client.NewClient(&client.Config{ConnFactory: w, ServerAddr: w.r.pc.LocalAddr(), Auth: "good", FastOpen: w.h.FastOpen})
	if err != nil {
		return false, 0, err
	}
	w.cl = cl
	return info.UDPEnabled, info.Tx, nil
}

func (w *rfWorld) TCP(addr string) (net.Conn, error) { return w.cl.TCP(addr) }

func (w *rfWorld) connClosed() bool {
	nt := vquic.GetNet(w.e)
	return len(nt.Conns) > 0 && nt.Conns[0].IsClosed()
}

func (w *rfWorld) Target() net.Conn {
	w.e.Point("env", func() bool { return w.r.Targets[conform.RelayAddr] != nil || w.connClosed() }, "target waits for dial")
	if t := w.r.Targets[conform.RelayAddr]; t != nil {
		return t
	}
	return nil
}

func (w *rfWorld) WaitTCPError(n int) bool {
	w.e.Point("env", func() bool { return len(w.tcperrs) >= n }, "wait TCPError")
	return w.tcperrs[n-1]
}

func (w *rfWorld) Traffic() (tx, rx uint64, vetoed bool) {
	for _, ev := range w.r.Events {
		if ev.Kind == "traffic" {
			tx += ev.N
			rx += ev.M
			if !ev.OK {
				vetoed = true
			}
		}
	}
	return
}

func (w *rfWorld) Requests() []string {
	var out []string
	for _, ev := range w.r.Events {
		if ev.Kind == "tcpreq" {
			out = append(out, ev.B)
		}
	}
	return out
}

func (w *rfWorld) CloseClient() { _ = w.cl.Close() }

func (w *rfWorld) WaitDisconnect() bool {
	w.e.Point("env", func() bool { return len(w.discs) >= 1 }, "wait Disconnect")
	return w.discs[0]
}

func (w *rfWorld) Spawn(fn func()) func() {
	done := false
	vsched.GoNamed("relay-helper", func() {
		defer func() { done = true }()
		fn()
	})
	return func() { w.e.Point("join", func() bool { return done }, "join") }
}

func (w *rfWorld) Settle() { w.e.WaitIdle() }

func rfRun(h conform.RelayHistory) []string {
	w := &rfWorld{h: h}
	o := vsched.RunDefault(vsched.Options{}, func(e *vsched.Exec) {
		w.e = e
		w.r = newRig(e, rigOpts{Traffic: h.Logger, Mutate: func(c *Config) { c.EventLogger = rfLogger{EventLogger: c.EventLogger, w: w} }})
		if w.r.srv == nil {
			w.Logf("ABORT NewServer")
			return
		}
		if h.VetoAt > 0 {
			w.r.TrafficVeto = func(n int, id string, tx, rx uint64) bool { return n == h.VetoAt }
		}
		if h.DialErr != "" {
			w.r.DialErr[conform.RelayAddr] = fmt.Errorf("%s", h.DialErr)
		}
		conform.RunRelayHistory(w, h)
		w.r.shutdown(false)
	})
	log := append([]string(nil), w.log...)
	if o.Kind != "ok" {
		log = append(log, fmt.Sprintf("fake-execution:%s:%s", o.Kind, o.Detail))
	}
	return log
}

func TestVerifConformRelayFake(t *testing.T) {
	evidence.Main(t, "CONFORM", evidence.Seq{Run: func(sh *evidence.Shard) {
		p := sh.Part("relay-fake", "enum")
		obs := map[string][]string{}
		var names []string
		for _, h := range conform.RelayHistories() {
			names = append(names, h.Name)
			p.Evaluations++
			log := rfRun(h)
			obs[h.Name] = log
			p.Class(h.Name, fmt.Sprint(log))
			p.Sample(map[string]any{"history": h.Name, "log": log})
		}
		p.Alphabet = names
		path := conform.RelayObsPath()
		b, _ := json.MarshalIndent(obs, "", " ")
		if err := os.MkdirAll(filepath.Dir(path), 0o755); err != nil {
			sh.InfraError("relay-fake: %v", err)
			return
		}
		tmp := path + ".tmp"
		if err := os.WriteFile(tmp, b, 0o644); err != nil {
			sh.InfraError("relay-fake: %v", err)
			return
		}
		if err := os.Rename(tmp, path); err != nil {
			sh.InfraError("relay-fake: %v", err)
		}
		p.Note("observation logs of %d histories written to %s", len(obs), path)
	}})
}
