package conform

// More end-to-end histories through hysteria's REAL server (and, for rate/reconnect, REAL client),
// run over the fake (unit relay-fake, in-package harness of core/server) and over real quic-go
// (unit relay-real) like the relay histories of relay.go:
//
//	auth/...       authentication and masquerade as a raw HTTP/3 + QUIC client sees them (C01, C02)
//	rate/...       negotiated rates reported by client and server (C10)
//	reconnect/...  client.NewReconnectableClient over a counting ConnFactory (C16)
//
// The drivers are written once against small world interfaces. This file must not import
// hysteria's client/server packages (core/server's in-package harness imports it); the wire
// encodings of hysteria's TCP request/response and UDP message are therefore written out here
// from PROTOCOL.md.

import (
	"encoding/binary"
	"errors"
	"fmt"
	"io"
	"net"
	"net/http"
	"net/url"
	"sort"
	"strings"

	quic "github.com/apernet/quic-go"
	"github.com/apernet/quic-go/quicvarint"

	"verif.local/engine/vquic"
	vh3 "verif.local/engine/vquic/http3"
)

// ---- wire helpers -----------------------------------------------------------------------------

// TCPRequestBytes encodes 0x401, address, padding. The padding is fixed text (hysteria uses
// random alphanumerics): 16 x 'p' — chosen so that the HTTP/3 request parser, which gets to see
// the stream when the dispatcher declines it, reads "unknown frame 0x401 (skip address), unknown
// frame 0x10 with a length beyond the end of the stream" and ends in a parse error.
func TCPRequestBytes(addr string) []byte {
	pad := strings.Repeat("p", 16)
	b := quicvarint.Append(nil, 0x401)
	b = quicvarint.Append(b, uint64(len(addr)))
	b = append(b, addr...)
	b = quicvarint.Append(b, uint64(len(pad)))
	return append(b, pad...)
}

// readTCPResponse parses status, message, padding.
func readTCPResponse(r io.Reader) (ok bool, msg string, err error) {
	var st [1]byte
	if _, err = io.ReadFull(r, st[:]); err != nil {
		return false, "", err
	}
	br := quicvarint.NewReader(r)
	l, err := quicvarint.Read(br)
	if err != nil {
		return false, "", err
	}
	m := make([]byte, l)
	if _, err = io.ReadFull(r, m); err != nil {
		return false, "", err
	}
	pl, err := quicvarint.Read(br)
	if err != nil {
		return false, "", err
	}
	if _, err = io.CopyN(io.Discard, r, int64(pl)); err != nil {
		return false, "", err
	}
	return st[0] == 0, string(m), nil
}

// UDPMessageBytes encodes one unfragmented UDPMessage.
func UDPMessageBytes(session uint32, addr string, data []byte) []byte {
	b := make([]byte, 8)
	binary.BigEndian.PutUint32(b, session)
	binary.BigEndian.PutUint16(b[4:], 0) // packet id
	b[6], b[7] = 0, 1                    // frag id, frag count
	b = quicvarint.Append(b, uint64(len(addr)))
	b = append(b, addr...)
	return append(b, data...)
}

func parseUDPMessage(b []byte) string {
	if len(b) < 9 {
		return fmt.Sprintf("short(%d)", len(b))
	}
	sid := binary.BigEndian.Uint32(b)
	l, n, err := quicvarint.Parse(b[8:])
	if err != nil || 8+n+int(l) > len(b) {
		return "malformed"
	}
	addr := string(b[8+n : 8+n+int(l)])
	return fmt.Sprintf("session=%d frag=%d/%d addr=%s data=%s", sid, b[6], b[7], addr, show(b[8+n+int(l):]))
}

// MasqHandler is the masquerade site both sides configure.
func MasqHandler() http.Handler {
	return http.HandlerFunc(func(w http.ResponseWriter, r *http.Request) {
		w.Header().Set("X-Masq", "yes")
		w.WriteHeader(http.StatusTeapot)
		_, _ = w.Write([]byte("masq " + r.Method + " " + r.Host + r.URL.Path))
	})
}

// ---- a raw client connection ------------------------------------------------------------------

// E2EConn is one raw client connection to the hysteria server: HTTP/3 requests and raw QUIC
// streams/datagrams on the SAME connection (as hysteria's client uses it).
type E2EConn struct {
	Do  func(*http.Request) (*http.Response, error)
	Raw xConn
}

// NewFakeE2EConn wraps a vquic connection (fake side: requests go through vquic/http3.Do).
func NewFakeE2EConn(c *vquic.Conn) *E2EConn {
	return &E2EConn{Do: func(r *http.Request) (*http.Response, error) { return vh3.Do(c, r) }, Raw: fakeConn{c}}
}

func e2eRequest(method, host, path string, hdr http.Header) *http.Request {
	if hdr == nil {
		hdr = http.Header{}
	}
	return &http.Request{Method: method, URL: &url.URL{Scheme: "https", Host: host, Path: path}, Host: host, Header: hdr, Body: http.NoBody}
}

// doLine performs one exchange and renders what a client can tell apart: status, the Hysteria-*
// response headers (names; values of the two meaningful ones), the masquerade marker, the body.
func doLine(c *E2EConn, req *http.Request) string {
	resp, err := c.Do(req)
	if err != nil {
		return "error " + classify(err)
	}
	body, _ := io.ReadAll(resp.Body)
	_ = resp.Body.Close()
	var hy []string
	for k := range resp.Header {
		if strings.HasPrefix(strings.ToLower(k), "hysteria-") {
			hy = append(hy, http.CanonicalHeaderKey(k))
		}
	}
	sort.Strings(hy)
	return fmt.Sprintf("status=%d hysteria-headers=%v udp=%q ccrx=%q x-masq=%q body=%s", resp.StatusCode, hy,
		resp.Header.Get("Hysteria-UDP"), resp.Header.Get("Hysteria-CC-RX"), resp.Header.Get("X-Masq"), show(body))
}

func authReq(cred string, rx uint64) *http.Request {
	h := http.Header{}
	h.Set("Hysteria-Auth", cred)
	h.Set("Hysteria-CC-RX", fmt.Sprint(rx))
	h.Set("Hysteria-Padding", "pppppppp")
	return e2eRequest(http.MethodPost, "hysteria", "/auth", h)
}

// ---- auth / masquerade --------------------------------------------------------------------------

// AuthWorld is the real hysteria server with recording plug-ins (Authenticator accepting "good",
// Outbound handing out pipes / recording UDP sockets, MasqHandler()).
type AuthWorld interface {
	Logf(format string, a ...any)
	// Dial makes a new client socket and a raw QUIC connection to the server.
	Dial() (*E2EConn, error)
	AuthCalls() []string // "cred=<c> tx=<n> ok=<b>" per Authenticate call
	TCPDials() []string  // reqAddr per Outbound.TCP call
	UDPDials() []string  // reqAddr per Outbound.UDP call
	UDPWrites() []string // "<addr> <data>" per WriteTo on a socket handed out by Outbound.UDP
	Connects() []string  // "id=<id> tx=<n>" per EventLogger.Connect
	// WaitUDPWrites blocks until n WriteTo calls were recorded.
	WaitUDPWrites(n int)
	// UDPReply makes the i-th UDP socket (0-based) return one packet from ReadFrom.
	UDPReply(i int, data []byte, from string)
	Settle()
}

// AuthHistory is one sequential history against the server.
type AuthHistory struct {
	Name string
	Body func(w AuthWorld)
}

func authState(w AuthWorld) {
	w.Logf("Authenticate calls: %v", w.AuthCalls())
	w.Logf("Connect events: %v", w.Connects())
	w.Logf("Outbound.TCP calls: %v", w.TCPDials())
	w.Logf("Outbound.UDP calls: %v", w.UDPDials())
}

func mustDial(w AuthWorld) *E2EConn {
	c, err := w.Dial()
	if err != nil {
		w.Logf("ABORT dial: %s", classify(err))
		panic(scriptAbort{"dial"})
	}
	return c
}

// rawTCPRequest opens a stream, sends a TCP request for addr and reports what comes back. With fin
// the write side is closed after the request (an unauthenticated stream is then parsed to its end
// by the HTTP/3 request parser and reset); without it the TCP response is parsed.
func rawTCPRequest(w AuthWorld, c *E2EConn, addr string, expectResponse bool) {
	cs, err := c.Raw.OpenStream()
	if err != nil {
		w.Logf("raw stream: OpenStream %s", classify(err))
		return
	}
	_, err = cs.Write(TCPRequestBytes(addr))
	if !expectResponse {
		cerr := cs.Close()
		data, end := readAll(cs)
		w.Logf("raw TCP request for %s: write %s close %s; bytes back=%d end=%s", addr, classify(err), classify(cerr), len(data), end)
		return
	}
	ok, msg, rerr := readTCPResponse(cs)
	w.Logf("raw TCP request for %s: write %s; response ok=%v msg=%q %s", addr, classify(err), ok, msg, classify(rerr))
	cs.CancelRead(0)
	_ = cs.Close()
}

func AuthHistories() []AuthHistory {
	return []AuthHistory{
		{Name: "good-credentials", Body: func(w AuthWorld) {
			c := mustDial(w)
			w.Logf("auth good: %s", doLine(c, authReq("good", 4321)))
			authState(w)
		}},
		{Name: "bad-credentials-get-masquerade", Body: func(w AuthWorld) {
			c := mustDial(w)
			w.Logf("auth bad: %s", doLine(c, authReq("wrong", 0)))
			w.Logf("auth empty: %s", doLine(c, authReq("", 7)))
			authState(w)
			w.Logf("auth good afterwards: %s", doLine(c, authReq("good", 0)))
			authState(w)
		}},
		{Name: "non-auth-requests-get-masquerade", Body: func(w AuthWorld) {
			c := mustDial(w)
			w.Logf("GET /: %s", doLine(c, e2eRequest(http.MethodGet, "example.com", "/", nil)))
			w.Logf("GET hysteria/auth: %s", doLine(c, e2eRequest(http.MethodGet, "hysteria", "/auth", authReq("good", 0).Header)))
			w.Logf("POST other-host/auth: %s", doLine(c, e2eRequest(http.MethodPost, "hysteria.example", "/auth", authReq("good", 0).Header)))
			w.Logf("POST hysteria/auth2: %s", doLine(c, e2eRequest(http.MethodPost, "hysteria", "/auth2", authReq("good", 0).Header)))
			authState(w)
		}},
		{Name: "second-auth-on-authenticated-connection", Body: func(w AuthWorld) {
			c := mustDial(w)
			w.Logf("auth good: %s", doLine(c, authReq("good", 100000)))
			w.Logf("auth good again: %s", doLine(c, authReq("good", 5)))
			w.Logf("auth bad on the authenticated connection: %s", doLine(c, authReq("wrong", 6)))
			w.Logf("GET / on the authenticated connection: %s", doLine(c, e2eRequest(http.MethodGet, "example.com", "/", nil)))
			authState(w)
		}},
		{Name: "tcp-request-before-auth", Body: func(w AuthWorld) {
			c := mustDial(w)
			rawTCPRequest(w, c, "early.example:80", false)
			authState(w)
			// the connection is still served (and still unauthenticated)
			w.Logf("GET /: %s", doLine(c, e2eRequest(http.MethodGet, "example.com", "/", nil)))
			w.Logf("auth bad: %s", doLine(c, authReq("wrong", 0)))
			rawTCPRequest(w, c, "early2.example:80", false)
			authState(w)
		}},
		{Name: "tcp-request-after-auth", Body: func(w AuthWorld) {
			c := mustDial(w)
			w.Logf("auth good: %s", doLine(c, authReq("good", 0)))
			rawTCPRequest(w, c, "late.example:80", true)
			authState(w)
		}},
		{Name: "datagram-before-auth", Body: func(w AuthWorld) {
			c := mustDial(w)
			w.Logf("datagram: %s", classify(c.Raw.SendDatagram(UDPMessageBytes(1, "early.example:53", []byte("q1")))))
			// requests after the datagram on the same loss-free path: when they are answered the
			// datagram has long arrived
			w.Logf("GET /: %s", doLine(c, e2eRequest(http.MethodGet, "example.com", "/", nil)))
			w.Logf("auth bad: %s", doLine(c, authReq("wrong", 0)))
			authState(w)
		}},
		{Name: "datagram-after-auth", Body: func(w AuthWorld) {
			c := mustDial(w)
			w.Logf("auth good: %s", doLine(c, authReq("good", 0)))
			w.Logf("datagram: %s", classify(c.Raw.SendDatagram(UDPMessageBytes(7, "dns.example:53", []byte("query")))))
			w.WaitUDPWrites(1)
			authState(w)
			w.Logf("UDP writes: %v", w.UDPWrites())
			w.UDPReply(0, []byte("answer"), "dns.example:53")
			d, err := c.Raw.ReceiveDatagram()
			if err != nil {
				w.Logf("client ReceiveDatagram %s", classify(err))
			} else {
				w.Logf("client got %s", parseUDPMessage(d))
			}
		}},
		{Name: "datagram-sent-before-auth-then-auth", Body: func(w AuthWorld) {
			// both quic-go and vquic queue datagrams nobody receives yet; the session manager
			// started by the successful auth then finds the early one
			c := mustDial(w)
			w.Logf("datagram: %s", classify(c.Raw.SendDatagram(UDPMessageBytes(3, "early.example:53", []byte("q1")))))
			w.Logf("GET /: %s", doLine(c, e2eRequest(http.MethodGet, "example.com", "/", nil)))
			w.Logf("Outbound.UDP calls before auth: %v", w.UDPDials())
			w.Logf("auth good: %s", doLine(c, authReq("good", 0)))
			for i := 0; i < 100 && len(w.UDPWrites()) == 0; i++ {
				w.Settle()
			}
			w.Logf("Outbound.UDP calls after auth: %v writes %v", w.UDPDials(), w.UDPWrites())
		}},
		{Name: "auth-on-A-does-not-authorise-B", Body: func(w AuthWorld) {
			a := mustDial(w)
			b := mustDial(w)
			w.Logf("A auth good: %s", doLine(a, authReq("good", 0)))
			rawTCPRequest(w, b, "b.example:80", false)
			w.Logf("B datagram: %s", classify(b.Raw.SendDatagram(UDPMessageBytes(1, "b.example:53", []byte("q")))))
			w.Logf("B GET /: %s", doLine(b, e2eRequest(http.MethodGet, "example.com", "/", nil)))
			authState(w)
			rawTCPRequest(w, a, "a.example:80", true)
			authState(w)
		}},
	}
}

// RunAuthHistory runs one history (recovering from set-up aborts).
func RunAuthHistory(w AuthWorld, h AuthHistory) {
	defer func() {
		if r := recover(); r != nil {
			if _, ok := r.(scriptAbort); !ok {
				panic(r)
			}
		}
	}()
	h.Body(w)
}

// ---- rate negotiation ---------------------------------------------------------------------------

// RateCase is one handshake configuration.
type RateCase struct {
	Name               string
	ClientTx, ClientRx uint64 // client BandwidthConfig.MaxTx / MaxRx
	ServerTx, ServerRx uint64 // server BandwidthConfig.MaxTx / MaxRx
	Ignore             bool   // server IgnoreClientBandwidth
}

func RateCases() []RateCase {
	return []RateCase{
		{Name: "nothing-declared"},
		{Name: "client-rx-100000-server-unlimited", ClientRx: 100000},
		{Name: "client-rx-100000-server-tx-65536", ClientRx: 100000, ServerTx: 65536},
		{Name: "client-rx-2^63-server-tx-65536", ClientRx: 1 << 63, ServerTx: 65536},
		{Name: "client-rx-2^63-server-unlimited", ClientRx: 1 << 63},
		{Name: "client-rx-100000-ignored", ClientRx: 100000, ClientTx: 200000, ServerTx: 65536, Ignore: true},
		{Name: "client-tx-200000-server-rx-70000", ClientTx: 200000, ServerRx: 70000},
		{Name: "client-tx-66000-server-rx-70000", ClientTx: 66000, ClientRx: 50000, ServerRx: 70000, ServerTx: 65536},
	}
}

// RateWorld performs the real handshake for one case.
type RateWorld interface {
	Logf(format string, a ...any)
	// Handshake is client.NewClient; it reports HandshakeInfo.
	Handshake() (udp bool, tx uint64, err error)
	// ServerSide blocks until EventLogger.Connect and reports its tx and the tx Authenticate saw.
	ServerSide() (connectTx, authTx uint64)
}

func RunRateCase(w RateWorld, c RateCase) {
	udp, tx, err := w.Handshake()
	w.Logf("NewClient: %s udp=%v HandshakeInfo.Tx=%d", RelayClass(err), udp, tx)
	if err != nil {
		return
	}
	ctx, atx := w.ServerSide()
	w.Logf("server: Authenticate tx=%d Connect tx=%d", atx, ctx)
}

// ---- reconnecting client ------------------------------------------------------------------------

// ReconnWorld is client.NewReconnectableClient over a counting ConnFactory against the real
// server (TrafficLogger installed; its next LogTraffic call can be armed to veto, which makes the
// server close the connection with CloseWithError(0x107)).
type ReconnWorld interface {
	Logf(format string, a ...any)
	NewClient(lazy bool) error
	TCP(addr string) (net.Conn, error)
	Close() error
	Factory() (calls int, closed []bool) // ConnFactory.New calls; per socket handed out: Close called?
	Connected() []int                     // counts passed to connectedFunc
	ArmVeto()
	// Target blocks until the i-th (0-based) Outbound.TCP connection exists, returns the harness end.
	Target(i int) net.Conn
	Settle()
}

type ReconnHistory struct {
	Name       string
	MaxStreams int // >0: server MaxIncomingStreams (fake: vquic.Conn.MaxStreams of the client side)
	Body       func(w ReconnWorld)
}

func reconnState(w ReconnWorld, what string) {
	n, closed := w.Factory()
	w.Logf("%s: factory calls=%d sockets closed=%v connected=%v", what, n, closed, w.Connected())
}

// reconnClass tells the classes C16 distinguishes.
func reconnClass(err error) string {
	if err == nil {
		return "nil"
	}
	cls := RelayClass(err)
	if strings.HasPrefix(cls, "ClosedError{") {
		return cls
	}
	var slp *quic.StreamLimitReachedError
	if errors.As(err, &slp) || errors.Is(err, quic.StreamLimitReachedError{}) {
		return "stream-limit(not ClosedError)"
	}
	return cls
}

func ReconnHistories() []ReconnHistory {
	return []ReconnHistory{
		{Name: "kill-reconnect-close", Body: func(w ReconnWorld) {
			if err := w.NewClient(true); err != nil {
				w.Logf("NewReconnectableClient: %s", RelayClass(err))
				return
			}
			reconnState(w, "lazy client created")
			c1, err := w.TCP("one.example:80")
			w.Logf("TCP #1: %s", reconnClass(err))
			if err != nil {
				return
			}
			reconnState(w, "after first TCP")
			t := w.Target(0)
			_, err = c1.Write([]byte("hi"))
			d, cls := relayReadN(t, 2)
			w.Logf("relay works: write %s target got %s %s", RelayClass(err), show(d), cls)
			// the server kills the connection (logger veto -> CloseWithError 0x107)
			w.ArmVeto()
			_, err = c1.Write([]byte("x"))
			w.Logf("write that triggers the veto: %s", RelayClass(err))
			one := make([]byte, 4)
			_, rerr := c1.Read(one) // returns when the stream or the connection is gone (FIN or close first: not compared)
			_ = rerr
			// next call(s): until the client has noticed the close a call may still get through
			var cerr error
			for i := 0; i < 150; i++ {
				var c net.Conn
				c, cerr = w.TCP("two.example:80")
				if cerr != nil {
					break
				}
				_ = c.Close()
				w.Settle()
			}
			w.Logf("call on the dead connection: %s", reconnClass(cerr))
			reconnState(w, "after the failed call")
			c3, err := w.TCP("three.example:80")
			w.Logf("next call: %s", reconnClass(err))
			reconnState(w, "after reconnect")
			if err == nil {
				_ = c3.Close()
			}
			w.Logf("Close: %s", RelayClass(w.Close()))
			reconnState(w, "after Close")
			_, err = w.TCP("four.example:80")
			w.Logf("call after Close: %s", reconnClass(err))
			reconnState(w, "after the call on the closed client")
		}},
		{Name: "eager-connect-then-close", Body: func(w ReconnWorld) {
			err := w.NewClient(false)
			w.Logf("NewReconnectableClient(lazy=false): %s", RelayClass(err))
			reconnState(w, "created")
			if err != nil {
				return
			}
			c, err := w.TCP("one.example:80")
			w.Logf("TCP: %s", reconnClass(err))
			if err == nil {
				_ = c.Close()
			}
			reconnState(w, "after TCP")
			w.Logf("Close: %s", RelayClass(w.Close()))
			w.Logf("Close again: %s", RelayClass(w.Close()))
			reconnState(w, "after Close")
		}},
		{Name: "stream-limit-is-not-a-dead-connection", MaxStreams: 8, Body: func(w ReconnWorld) {
			if err := w.NewClient(true); err != nil {
				w.Logf("NewReconnectableClient: %s", RelayClass(err))
				return
			}
			var conns []net.Conn
			var lerr error
			for i := 0; i < 12; i++ {
				c, err := w.TCP(fmt.Sprintf("t%d.example:80", i))
				if err != nil {
					lerr = err
					break
				}
				conns = append(conns, c)
			}
			// whether the credit of the finished auth request stream was already returned is a
			// matter of timing on the real stack: 7 or 8 streams fit
			w.Logf("streams opened before the limit: 7-or-8=%v", len(conns) == 7 || len(conns) == 8)
			w.Logf("call beyond the limit: %s", reconnClass(lerr))
			reconnState(w, "at the limit")
			if len(conns) < 2 {
				return
			}
			// the connection is alive: an open stream still relays
			_, err := conns[0].Write([]byte("ping"))
			d, cls := relayReadN(w.Target(0), 4)
			w.Logf("first stream still relays: write %s target got %s %s", RelayClass(err), show(d), cls)
			// finishing a stream frees a slot (after a round trip on the real stack)
			_ = conns[1].Close()
			var cerr error
			for i := 0; i < 150; i++ {
				var c net.Conn
				if c, cerr = w.TCP("again.example:80"); cerr == nil {
					conns = append(conns, c)
					break
				}
				w.Settle()
			}
			w.Logf("call after finishing one stream: %s", reconnClass(cerr))
			reconnState(w, "at the end")
			_ = w.Close()
		}},
	}
}
