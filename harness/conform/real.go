package conform

import (
	"context"
	"crypto/ecdsa"
	"crypto/elliptic"
	"crypto/rand"
	"crypto/tls"
	"crypto/x509"
	"crypto/x509/pkix"
	"fmt"
	"math/big"
	"net"
	"net/http"
	"sync"
	"time"

	quic "github.com/apernet/quic-go"
	"github.com/apernet/quic-go/http3"
)

// realStack runs a script against the real quic-go Transport/Listener/Conn and the real http3
// Server/Transport, configured the way hysteria's server.NewServer / client.connect configure them
// (datagrams on, MaxDatagramFrameSize 1200, client omits max_datagram_frame_size and uses the
// Chrome parrot + zero-length connection IDs, path manager off), over memNet. Real goroutines.
type realStack struct {
	obsLog
	sc    *script
	net   *memNet
	srvPC *memPC
	srvTr *quic.Transport
	ln    *quic.Listener

	mu    sync.Mutex
	cls   []*realEP
	conns []*quic.Conn
}

type realEP struct {
	pc *memPC
	tr *quic.Transport
}

const (
	realGuard  = 20 * time.Second
	realSettle = 25 * time.Millisecond
	// protocol.MaxDatagramFrameSize of /repo/core/internal/protocol (not importable from here)
	hyMaxDatagramFrameSize = 1200
)

var (
	certOnce sync.Once
	certVal  tls.Certificate
)

func selfSigned() tls.Certificate {
	certOnce.Do(func() {
		key, err := ecdsa.GenerateKey(elliptic.P256(), rand.Reader)
		if err != nil {
			panic(err)
		}
		tpl := &x509.Certificate{
			SerialNumber: big.NewInt(1), Subject: pkix.Name{CommonName: "conform"},
			NotBefore: time.Now().Add(-time.Hour), NotAfter: time.Now().Add(24 * time.Hour),
			KeyUsage: x509.KeyUsageDigitalSignature, ExtKeyUsage: []x509.ExtKeyUsage{x509.ExtKeyUsageServerAuth},
			DNSNames: []string{"conform"},
		}
		der, err := x509.CreateCertificate(rand.Reader, tpl, tpl, &key.PublicKey, key)
		if err != nil {
			panic(err)
		}
		certVal = tls.Certificate{Certificate: [][]byte{der}, PrivateKey: key}
	})
	return certVal
}

func (r *realStack) idle() time.Duration {
	if r.sc.idle > 0 {
		return r.sc.idle
	}
	return 30 * time.Second
}

func (r *realStack) serverConf() *quic.Config {
	return &quic.Config{
		MaxIdleTimeout:                 r.idle(),
		MaxIncomingStreams:             int64(r.sc.maxStreams), // 0 = quic-go default
		DisablePathMTUDiscovery:        true,
		EnableDatagrams:                true,
		MaxDatagramFrameSize:           hyMaxDatagramFrameSize,
		AssumePeerMaxDatagramFrameSize: hyMaxDatagramFrameSize,
		DisablePathManager:             true,
	}
}

func (r *realStack) clientConf() *quic.Config {
	return &quic.Config{
		MaxIdleTimeout:           r.idle(),
		HandshakeIdleTimeout:     1500 * time.Millisecond,
		DisablePathMTUDiscovery:  true,
		EnableDatagrams:          true,
		MaxDatagramFrameSize:     hyMaxDatagramFrameSize,
		OmitMaxDatagramFrameSize: true,
		DisablePathManager:       true,
		ChromeParrot:             true,
	}
}

func clientTLS() *tls.Config {
	return &tls.Config{ServerName: "conform", InsecureSkipVerify: true}
}

func runReal(sc *script) result {
	r := &realStack{sc: sc, net: newMemNet()}
	r.srvPC = r.net.socket(srvIP, 443)
	r.srvTr = &quic.Transport{Conn: r.srvPC}
	ln, err := r.srvTr.Listen(http3.ConfigureTLSConfig(&tls.Config{Certificates: []tls.Certificate{selfSigned()}}), r.serverConf())
	if err != nil {
		return result{Log: []string{"ABORT listen: " + err.Error()}, Status: "inconclusive: listen failed"}
	}
	r.ln = ln
	done := make(chan struct{})
	go func() {
		defer close(done)
		defer func() {
			if p := recover(); p != nil {
				if _, ok := p.(scriptAbort); !ok {
					r.logf("real-execution:panic:%v", p)
				}
			}
		}()
		sc.body(r)
	}()
	status := "ok"
	tm := time.NewTimer(realGuard)
	select {
	case <-done:
		tm.Stop()
	case <-tm.C:
		status = fmt.Sprintf("inconclusive: real stack did not finish within %v", realGuard)
	}
	log := r.snapshot()
	r.cleanup()
	return result{Log: log, Status: status}
}

// cleanup tears the world down without waiting for stragglers.
func (r *realStack) cleanup() {
	r.mu.Lock()
	conns := append([]*quic.Conn(nil), r.conns...)
	cls := append([]*realEP(nil), r.cls...)
	r.mu.Unlock()
	fin := make(chan struct{})
	go func() {
		defer close(fin)
		for _, c := range conns {
			_ = c.CloseWithError(0, "")
		}
		_ = r.ln.Close()
		for _, ep := range cls {
			_ = ep.tr.Close()
		}
		_ = r.srvTr.Close()
	}()
	select {
	case <-fin:
	case <-time.After(3 * time.Second):
	}
	for _, ep := range cls {
		ep.pc.shut()
	}
	r.srvPC.shut()
}

func (r *realStack) kind() string { return "real" }

type realConn struct{ c *quic.Conn }

func (c realConn) OpenStream() (xStream, error) {
	s, err := c.c.OpenStream()
	if err != nil {
		return nil, err
	}
	return s, nil
}

func (c realConn) AcceptStream() (xStream, error) {
	s, err := c.c.AcceptStream(context.Background())
	if err != nil {
		return nil, err
	}
	return s, nil
}
func (c realConn) SendDatagram(p []byte) error { return c.c.SendDatagram(p) }
func (c realConn) ReceiveDatagram() ([]byte, error) {
	return c.c.ReceiveDatagram(context.Background())
}
func (c realConn) CloseWithError(code uint64, msg string) error {
	return c.c.CloseWithError(quic.ApplicationErrorCode(code), msg)
}
func (c realConn) Context() context.Context { return c.c.Context() }
func (c realConn) SupportsDatagrams() (bool, bool) {
	s := c.c.ConnectionState()
	return s.SupportsDatagrams.Local, s.SupportsDatagrams.Remote
}

func (r *realStack) track(c *quic.Conn) {
	r.mu.Lock()
	r.conns = append(r.conns, c)
	r.mu.Unlock()
}

func (r *realStack) newEP() *realEP {
	r.mu.Lock()
	defer r.mu.Unlock()
	ep := &realEP{pc: r.net.socket(cliIP, 50000+len(r.cls))}
	// as hysteria's client with the Chrome parrot enabled (the default)
	ep.tr = &quic.Transport{Conn: ep.pc, ConnectionIDGenerator: quic.ZeroLengthConnectionIDGenerator{}}
	r.cls = append(r.cls, ep)
	return ep
}

func (r *realStack) dialTo(addr net.Addr, tlsCfg *tls.Config, cfg *quic.Config) (*quic.Conn, error) {
	ep := r.newEP()
	c, err := ep.tr.DialEarly(context.Background(), addr, tlsCfg, cfg)
	if err != nil {
		return nil, err
	}
	r.track(c)
	return c, nil
}

func rawTLS() *tls.Config {
	t := clientTLS()
	t.NextProtos = []string{http3.NextProtoH3}
	return t
}

func (r *realStack) dial() (xConn, error) {
	c, err := r.dialTo(r.srvPC.addr, rawTLS(), r.clientConf())
	if err != nil {
		return nil, err
	}
	return realConn{c}, nil
}

func (r *realStack) dialNowhere() (xConn, error) {
	c, err := r.dialTo(nowhereAddr, rawTLS(), r.clientConf())
	if err != nil {
		return nil, err
	}
	return realConn{c}, nil
}

func (r *realStack) accept() (xConn, error) {
	c, err := r.ln.Accept(context.Background())
	if err != nil {
		return nil, err
	}
	r.track(c)
	return realConn{c}, nil
}

func (r *realStack) connect() (xConn, xConn) {
	c, err := r.dial()
	must(r, "dial", err)
	s, err := r.accept()
	must(r, "accept", err)
	return c, s
}

func (r *realStack) closeListener() error { return r.ln.Close() }

func (r *realStack) closeTransport(i int) error {
	if i < 0 {
		return r.srvTr.Close()
	}
	r.mu.Lock()
	ep := r.cls[i]
	r.mu.Unlock()
	return ep.tr.Close()
}

func (r *realStack) socketCloses(i int) int {
	if i < 0 {
		return int(r.srvPC.closes.Load())
	}
	r.mu.Lock()
	ep := r.cls[i]
	r.mu.Unlock()
	return int(ep.pc.closes.Load())
}

func (r *realStack) spawn(fn func()) func() {
	done := make(chan struct{})
	go func() {
		defer close(done)
		defer func() {
			if p := recover(); p != nil {
				if _, ok := p.(scriptAbort); !ok {
					r.logf("real-execution:panic:%v", p)
				}
			}
		}()
		fn()
	}()
	return func() { <-done }
}

func (r *realStack) settle()        { time.Sleep(realSettle) }
func (r *realStack) now() time.Time { return time.Now() }

type realGate struct {
	ch   chan struct{}
	once sync.Once
}

func (g *realGate) Wait() { <-g.ch }
func (g *realGate) Open() { g.once.Do(func() { close(g.ch) }) }

func (r *realStack) newGate() gate { return &realGate{ch: make(chan struct{})} }

func (r *realStack) serveH3(srv xConn, h http.Handler, d dispatchFn) error {
	s := &http3.Server{Handler: h}
	if d != nil {
		s.StreamDispatcher = func(ft http3.FrameType, str *quic.Stream, err error) (bool, error) {
			return d(uint64(ft), str, err)
		}
	}
	return s.ServeQUICConn(srv.(realConn).c)
}

type realH3 struct {
	r  *realStack
	tr *http3.Transport

	mu    sync.Mutex
	conn  *quic.Conn
	dials int
}

func (r *realStack) newH3Client() h3Client {
	h := &realH3{r: r}
	h.tr = &http3.Transport{
		TLSClientConfig: clientTLS(),
		QUICConfig:      r.clientConf(),
		Dial: func(ctx context.Context, _ string, tlsCfg *tls.Config, cfg *quic.Config) (*quic.Conn, error) {
			h.mu.Lock()
			h.dials++
			h.mu.Unlock()
			ep := r.newEP()
			c, err := ep.tr.DialEarly(ctx, r.srvPC.addr, tlsCfg, cfg)
			if err != nil {
				return nil, err
			}
			r.track(c)
			h.mu.Lock()
			h.conn = c
			h.mu.Unlock()
			return c, nil
		},
	}
	return h
}

func (h *realH3) RoundTrip(req *http.Request) (*http.Response, error) { return h.tr.RoundTrip(req) }
func (h *realH3) Dials() int {
	h.mu.Lock()
	defer h.mu.Unlock()
	return h.dials
}
func (h *realH3) Conn() xConn {
	h.mu.Lock()
	defer h.mu.Unlock()
	if h.conn == nil {
		return nil
	}
	return realConn{h.conn}
}
