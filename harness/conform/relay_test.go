package conform

// Real side of the end-to-end relay conformance (unit relay-real): hysteria's real client and
// server packages joined by the real quic-go stack over memNet (no overlay), driven by the same
// RunRelayHistory as the fake side; the logs are compared with the file the fake unit wrote.

import (
	"crypto/tls"
	"encoding/json"
	"errors"
	"fmt"
	"net"
	"os"
	"strings"
	"sync"
	"testing"
	"time"

	"github.com/apernet/hysteria/core/v2/client"
	"github.com/apernet/hysteria/core/v2/server"
	"verif.local/engine/evidence"
)

type realRelay struct {
	obsLog
	h     RelayHistory
	net   *memNet
	srvPC *memPC
	srv   server.Server
	cl    client.Client
	nsock int

	targets chan net.Conn

	mu       sync.Mutex
	cond     *sync.Cond
	tcperrs  []bool
	discs    []bool
	reqs     []string
	tx, rx   uint64
	vetoed   bool
	nTraffic int
	socks    []*memPC
}

// --- server side plug-ins -------------------------------------------------------------------

type rrOutbound struct{ w *realRelay }

func (o rrOutbound) TCP(reqAddr string) (net.Conn, error) {
	if o.w.h.DialErr != "" {
		return nil, errors.New(o.w.h.DialErr)
	}
	a, b := net.Pipe()
	o.w.targets <- b
	return a, nil
}
func (o rrOutbound) UDP(string) (server.UDPConn, error) { return nil, errors.New("no udp") }
func (o rrOutbound) CheckUDP(string) error              { return nil }

type rrAuth struct{}

func (rrAuth) Authenticate(addr net.Addr, auth string, tx uint64) (bool, string) {
	return auth == "good", "user:" + auth
}

type rrEvents struct{ w *realRelay }

func (l rrEvents) Connect(net.Addr, string, uint64) {}
func (l rrEvents) Disconnect(addr net.Addr, id string, err error) {
	l.w.mu.Lock()
	l.w.discs = append(l.w.discs, err == nil)
	l.w.cond.Broadcast()
	l.w.mu.Unlock()
}
func (l rrEvents) TCPRequest(addr net.Addr, id, reqAddr string) {
	l.w.mu.Lock()
	l.w.reqs = append(l.w.reqs, reqAddr)
	l.w.mu.Unlock()
}
func (l rrEvents) TCPError(addr net.Addr, id, reqAddr string, err error) {
	l.w.mu.Lock()
	l.w.tcperrs = append(l.w.tcperrs, err == nil)
	l.w.cond.Broadcast()
	l.w.mu.Unlock()
}
func (l rrEvents) UDPRequest(net.Addr, string, uint32, string) {}
func (l rrEvents) UDPError(net.Addr, string, uint32, error)    {}

type rrTraffic struct{ w *realRelay }

func (t rrTraffic) LogTraffic(id string, tx, rx uint64) bool {
	t.w.mu.Lock()
	defer t.w.mu.Unlock()
	t.w.nTraffic++
	t.w.tx += tx
	t.w.rx += rx
	if t.w.h.VetoAt > 0 && t.w.nTraffic == t.w.h.VetoAt {
		t.w.vetoed = true
		return false
	}
	return true
}
func (t rrTraffic) LogOnlineState(string, bool)                      {}
func (t rrTraffic) TraceStream(server.HyStream, *server.StreamStats) {}
func (t rrTraffic) UntraceStream(server.HyStream)                    {}

// --- RelayWorld -----------------------------------------------------------------------------

func (w *realRelay) New(net.Addr) (net.PacketConn, error) {
	w.mu.Lock()
	defer w.mu.Unlock()
	pc := w.net.socket(cliIP, 50000+w.nsock)
	w.nsock++
	w.socks = append(w.socks, pc)
	return pc, nil
}

func (w *realRelay) Logf(format string, a ...any) { w.logf(format, a...) }

func (w *realRelay) Connect() (bool, uint64, error) {
	cl, info, err := client.NewClient(&client.Config{
		ConnFactory: w, ServerAddr: w.srvPC.addr, Auth: "good", FastOpen: w.h.FastOpen,
		TLSConfig: client.TLSConfig{ServerName: "conform", InsecureSkipVerify: true},
	})
	if err != nil {
		return false, 0, err
	}
	w.cl = cl
	return info.UDPEnabled, info.Tx, nil
}

func (w *realRelay) TCP(addr string) (net.Conn, error) { return w.cl.TCP(addr) }
func (w *realRelay) Target() net.Conn                  { return <-w.targets }

func (w *realRelay) WaitTCPError(n int) bool {
	w.mu.Lock()
	defer w.mu.Unlock()
	for len(w.tcperrs) < n {
		w.cond.Wait()
	}
	return w.tcperrs[n-1]
}

func (w *realRelay) Traffic() (uint64, uint64, bool) {
	w.mu.Lock()
	defer w.mu.Unlock()
	return w.tx, w.rx, w.vetoed
}

func (w *realRelay) Requests() []string {
	w.mu.Lock()
	defer w.mu.Unlock()
	return append([]string(nil), w.reqs...)
}

func (w *realRelay) CloseClient() { _ = w.cl.Close() }

func (w *realRelay) WaitDisconnect() bool {
	w.mu.Lock()
	defer w.mu.Unlock()
	for len(w.discs) < 1 {
		w.cond.Wait()
	}
	return w.discs[0]
}

func (w *realRelay) Spawn(fn func()) func() {
	done := make(chan struct{})
	go func() {
		defer close(done)
		fn()
	}()
	return func() { <-done }
}

func (w *realRelay) Settle() { time.Sleep(realSettle) }

func runRealRelay(h RelayHistory) result {
	w := &realRelay{h: h, net: newMemNet(), targets: make(chan net.Conn, 16)}
	w.cond = sync.NewCond(&w.mu)
	w.srvPC = w.net.socket(srvIP, 443)
	cfg := &server.Config{
		TLSConfig:     server.TLSConfig{Certificates: []tls.Certificate{selfSigned()}},
		Conn:          w.srvPC,
		Outbound:      rrOutbound{w},
		Authenticator: rrAuth{},
		EventLogger:   rrEvents{w},
	}
	if h.Logger {
		cfg.TrafficLogger = rrTraffic{w}
	}
	srv, err := server.NewServer(cfg)
	if err != nil {
		return result{Log: []string{"ABORT NewServer: " + err.Error()}, Status: "inconclusive: NewServer failed"}
	}
	w.srv = srv
	go func() { _ = srv.Serve() }()
	done := make(chan struct{})
	go func() {
		defer close(done)
		defer func() {
			if p := recover(); p != nil {
				w.logf("real-execution:panic:%v", p)
			}
		}()
		RunRelayHistory(w, h)
	}()
	status := "ok"
	tm := time.NewTimer(realGuard)
	select {
	case <-done:
		tm.Stop()
	case <-tm.C:
		status = fmt.Sprintf("inconclusive: real stack did not finish within %v", realGuard)
	}
	log := w.snapshot()
	fin := make(chan struct{})
	go func() {
		defer close(fin)
		if w.cl != nil {
			_ = w.cl.Close()
		}
		_ = srv.Close()
	}()
	select {
	case <-fin:
	case <-time.After(3 * time.Second):
	}
	w.mu.Lock()
	for _, s := range w.socks {
		s.shut()
	}
	w.mu.Unlock()
	w.srvPC.shut()
	return result{Log: log, Status: status}
}

func loadFakeRelayObs(wait time.Duration) (map[string][]string, error) {
	path := RelayObsPath()
	deadline := time.Now().Add(wait)
	for {
		b, err := os.ReadFile(path)
		if err == nil {
			var m map[string][]string
			if jerr := json.Unmarshal(b, &m); jerr != nil {
				return nil, jerr
			}
			return m, nil
		}
		if time.Now().After(deadline) {
			return nil, fmt.Errorf("%s not written by unit relay-fake within %v: %v", path, wait, err)
		}
		time.Sleep(200 * time.Millisecond)
	}
}

// e2eItem is one end-to-end history of the real unit: the key of the fake unit's observation
// file, the evidence part it is counted in, and how to run it on the real stack.
type e2eItem struct {
	key, part string
	run       func() result
}

func e2eItems() []e2eItem {
	var items []e2eItem
	for _, h := range RelayHistories() {
		items = append(items, e2eItem{h.Name, "relay-conformance", func() result { return runRealRelay(h) }})
	}
	for _, h := range AuthHistories() {
		items = append(items, e2eItem{"auth/" + h.Name, "auth-conformance", func() result { return runRealAuth(h) }})
	}
	for _, c := range RateCases() {
		items = append(items, e2eItem{"rate/" + c.Name, "rate-conformance", func() result { return runRealRate(c) }})
	}
	for _, h := range ReconnHistories() {
		items = append(items, e2eItem{"reconnect/" + h.Name, "reconnect-conformance", func() result { return runRealReconn(h) }})
	}
	return items
}

// TestVerifConformRelay compares hysteria's end-to-end behaviour (TCP relay, authentication and
// masquerade, rate negotiation, reconnecting client) over the real QUIC stack with the same
// histories over the fake (observations of unit relay-fake).
func TestVerifConformRelay(t *testing.T) {
	evidence.Main(t, "CONFORM", evidence.Seq{Replay: replayRelay, Run: func(sh *evidence.Shard) {
		env := sh.Env()
		items := e2eItems()
		names := map[string][]string{}
		for _, it := range items {
			names[it.part] = append(names[it.part], it.key)
		}
		for part, ns := range names {
			sh.Part(part, "enum").Alphabet = ns
		}
		only := os.Getenv("CONFORM_ONLY")
		real := map[string]result{}
		for i, it := range items {
			if !env.Mine(int64(i)) || (only != "" && !strings.Contains(it.key, only)) {
				continue
			}
			real[it.key] = it.run()
		}
		// the fake unit runs concurrently in another process; waiting for its file is a guard
		fake, err := loadFakeRelayObs(90 * time.Second)
		if err != nil {
			for part := range names {
				p := sh.Part(part, "enum")
				p.Exhaustive = false
				p.Note("inconclusive (nothing validated): %v", err)
			}
			return
		}
		for _, it := range items {
			rr, ok := real[it.key]
			if !ok {
				continue
			}
			p := sh.Part(it.part, "enum")
			p.Evaluations++
			v := verdict{Script: it.key, Fake: fake[it.key], Real: rr.Log, Status: rr.Status}
			switch {
			case rr.Status != "ok":
				v.Outcome = "inconclusive"
				p.Exhaustive = false
				p.Note("inconclusive (not validated): %s: %s; real log so far: %s", it.key, rr.Status, strings.Join(rr.Log, " / "))
			case equalLogs(v.Fake, v.Real):
				v.Outcome = "matched"
				p.ImplTraces++
				p.Sample(map[string]any{"history": it.key, "log": v.Real})
			default:
				v.Outcome = "mismatch"
				sh.Violate(it.part, "conform/e2e/"+it.key+"/mismatch", diffDetail(v), map[string]any{"history": it.key, "fake": v.Fake, "real": v.Real})
			}
			p.Class(it.key, v.Outcome)
			p.Count(v.Outcome, 1)
			if only != "" {
				t.Logf("%s: %s\n%s", it.key, v.Outcome, diffDetail(v))
			}
		}
	}})
}

// replayRelay re-runs one history on the real stack and compares it with the fake unit's file
// (which must exist: run unit relay-fake first).
func replayRelay(part string, raw json.RawMessage) (handled, reproduced bool, detail string) {
	if !strings.HasSuffix(part, "-conformance") || part == "quic-conformance" {
		return false, false, ""
	}
	var r struct {
		History string `json:"history"`
	}
	if err := json.Unmarshal(raw, &r); err != nil {
		return true, false, "bad replay data: " + err.Error()
	}
	fake, err := loadFakeRelayObs(time.Second)
	if err != nil {
		return true, false, err.Error()
	}
	for _, it := range e2eItems() {
		if it.key == r.History {
			rr := it.run()
			v := verdict{Script: it.key, Fake: fake[it.key], Real: rr.Log, Status: rr.Status}
			return true, rr.Status == "ok" && !equalLogs(v.Fake, v.Real), diffDetail(v)
		}
	}
	return true, false, "unknown history " + r.History
}
