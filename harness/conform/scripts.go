package conform

import (
	"errors"
	"fmt"
	"io"
	"net/http"
	"net/url"
	"strings"
	"sync"
	"sync/atomic"
	"time"

	quic "github.com/apernet/quic-go"
)

// ---- helpers shared by scripts --------------------------------------------------------------

// openPair opens a bidirectional stream on opener, announces it with one byte (a QUIC stream
// only exists for the peer once a frame for it arrived) and accepts it on the other side.
func openPair(st stack, opener, accepter xConn) (a, b xStream) {
	a, err := opener.OpenStream()
	must(st, "OpenStream", err)
	_, err = a.Write([]byte("!"))
	must(st, "announce", err)
	b, err = accepter.AcceptStream()
	must(st, "AcceptStream", err)
	if d, cls := readN(b, 1); cls != "nil" || string(d) != "!" {
		must(st, "announce-read", fmt.Errorf("got %q %s", d, cls))
	}
	return a, b
}

func read1(s xStream) string {
	buf := make([]byte, 16)
	n, err := s.Read(buf)
	if n > 0 {
		return fmt.Sprintf("%q+%s", buf[:n], classify(err))
	}
	return classify(err)
}

func write1(s xStream, p string) string {
	_, err := s.Write([]byte(p))
	return classify(err)
}

func openClass(c xConn) string {
	_, err := c.OpenStream()
	return classify(err)
}

func acceptClass(c xConn) string {
	_, err := c.AcceptStream()
	return classify(err)
}

func recvClass(c xConn) string {
	d, err := c.ReceiveDatagram()
	if err == nil {
		return "datagram " + show(d)
	}
	return classify(err)
}

// recorder collects observations made by server-side handler threads; the main thread logs them
// at a point ordered after the handler (so the log order is the same on both stacks).
type recorder struct {
	mu    sync.Mutex
	lines []string
}

func (r *recorder) addf(format string, a ...any) {
	r.mu.Lock()
	r.lines = append(r.lines, fmt.Sprintf(format, a...))
	r.mu.Unlock()
}

func (r *recorder) flush(st stack, prefix string) {
	r.mu.Lock()
	defer r.mu.Unlock()
	for _, l := range r.lines {
		st.logf("%s%s", prefix, l)
	}
	r.lines = nil
}

func hyAuthRequest() *http.Request {
	// built exactly like core/client/client.go builds the auth request
	req := &http.Request{
		Method: http.MethodPost,
		URL:    &url.URL{Scheme: "https", Host: "hysteria", Path: "/auth"},
		Header: make(http.Header),
	}
	req.Header.Set("Hysteria-Auth", "good")
	req.Header.Set("Hysteria-CC-RX", "12345")
	req.Header.Set("Hysteria-Padding", "pppp")
	return req
}

func respLine(resp *http.Response, err error) string {
	if err != nil {
		return "roundtrip-error " + classify(err)
	}
	body, rerr := io.ReadAll(resp.Body)
	_ = resp.Body.Close()
	end := "EOF"
	if rerr != nil {
		end = classify(rerr)
	}
	return fmt.Sprintf("status=%d udp=%q ccrx=%q x-multi=%q body=%s end=%s", resp.StatusCode,
		resp.Header.Get("Hysteria-UDP"), resp.Header.Get("Hysteria-CC-RX"), strings.Join(resp.Header.Values("X-Multi"), "|"), show(body), end)
}

const (
	h3NoError           = 0x100
	h3RequestIncomplete = 0x10d
	ftTCPRequest        = 0x401
)

// ---- the table --------------------------------------------------------------------------------

func scripts() []*script {
	return []*script{
		{name: "s01-write-close-eof", body: func(st stack) {
			c, s := st.connect()
			cs, err := c.OpenStream()
			must(st, "OpenStream", err)
			n, err := cs.Write([]byte("abc"))
			st.logf("client write n=%d %s", n, classify(err))
			st.logf("client close %s", classify(cs.Close()))
			ss, err := s.AcceptStream()
			st.logf("server accept %s", classify(err))
			must(st, "AcceptStream", err)
			d, end := readAll(ss)
			st.logf("server read %s end=%s", show(d), end)
			st.logf("server read after EOF: %s", read1(ss))
		}},
		{name: "s02-double-close-and-write-after-close", body: func(st stack) {
			c, s := st.connect()
			cs, ss := openPair(st, c, s)
			st.logf("write %s", write1(cs, "ab"))
			st.logf("close#1 %s", classify(cs.Close()))
			st.logf("close#2 %s", classify(cs.Close()))
			st.logf("write after close %s", write1(cs, "zz"))
			d, end := readAll(ss)
			st.logf("peer read %s end=%s", show(d), end)
		}},
		{name: "s03-cancelread-then-peer-write", body: func(st stack) {
			c, s := st.connect()
			cs, ss := openPair(st, c, s)
			ss.CancelRead(7)
			st.logf("local read after CancelRead: %s", read1(ss))
			ss.CancelRead(8) // duplicate call is a no-op
			st.logf("local read after 2nd CancelRead: %s", read1(ss))
			st.logf("peer write: %s", writeUntilFail(st, cs, []byte("x")))
			st.logf("peer write again: %s", write1(cs, "x"))
			// the opposite direction is unaffected
			st.logf("reverse write %s close %s", write1(ss, "back"), classify(ss.Close()))
			d, end := readAll(cs)
			st.logf("reverse read %s end=%s", show(d), end)
		}},
		{name: "s03b-blocked-writer-unblocked-by-peer-cancelread", body: func(st stack) {
			c, s := st.connect()
			cs, ss := openPair(st, c, s)
			var cls string
			join := st.spawn(func() {
				// far more than any flow-control window: the writer blocks until the reader acts
				big := pattern(1 << 20)
				var err error
				for i := 0; i < 32 && err == nil; i++ {
					_, err = cs.Write(big)
				}
				cls = classify(err)
			})
			st.settle()
			ss.CancelRead(5)
			join()
			st.logf("blocked writer: %s", cls)
		}},
		{name: "s03c-blocked-reader-unblocked-by-local-cancelread", body: func(st stack) {
			c, s := st.connect()
			_, ss := openPair(st, c, s)
			var cls string
			join := st.spawn(func() { cls = read1(ss) })
			st.settle()
			ss.CancelRead(6)
			join()
			st.logf("blocked reader: %s", cls)
		}},
		{name: "s04-cancelwrite-then-peer-read", body: func(st stack) {
			c, s := st.connect()
			cs, ss := openPair(st, c, s)
			cs.CancelWrite(9)
			st.logf("local write after CancelWrite: %s", write1(cs, "y"))
			st.logf("local close after CancelWrite: %s", classify(cs.Close()))
			cs.CancelWrite(10) // no-op
			d, end := readAll(ss)
			st.logf("peer read %s end=%s", show(d), end)
			st.logf("peer read again: %s", read1(ss))
			st.logf("reverse write %s close %s", write1(ss, "back"), classify(ss.Close()))
			d, end = readAll(cs)
			st.logf("reverse read %s end=%s", show(d), end)
		}},
		{name: "s04b-blocked-reader-unblocked-by-peer-cancelwrite", body: func(st stack) {
			c, s := st.connect()
			cs, ss := openPair(st, c, s)
			var cls string
			join := st.spawn(func() { cls = read1(ss) })
			st.settle()
			cs.CancelWrite(11)
			join()
			st.logf("blocked reader: %s", cls)
		}},
		{name: "s05-read-deadline", body: func(st stack) {
			c, s := st.connect()
			cs, ss := openPair(st, c, s)
			st.logf("set past %s", classify(ss.SetReadDeadline(st.now().Add(-time.Second))))
			st.logf("read with past deadline: %s", read1(ss))
			st.logf("read again: %s", read1(ss))
			_ = ss.SetReadDeadline(st.now().Add(40 * time.Millisecond))
			st.logf("read with short deadline, no data: %s", read1(ss))
			_ = ss.SetReadDeadline(time.Time{})
			st.logf("peer write %s", write1(cs, "ok"))
			d, cls := readN(ss, 2)
			st.logf("read after clearing: %s %s", show(d), cls)
			// an expired deadline wins over buffered data; clearing it makes the data readable
			st.logf("peer write %s", write1(cs, "zz"))
			_ = ss.SetReadDeadline(st.now().Add(-time.Second))
			st.logf("read with past deadline: %s", read1(ss))
			_ = ss.SetReadDeadline(time.Time{})
			d, cls = readN(ss, 2)
			st.logf("read after clearing: %s %s", show(d), cls)
		}},
		{name: "s05b-write-deadline-and-setdeadline", body: func(st stack) {
			c, s := st.connect()
			cs, ss := openPair(st, c, s)
			_ = cs.SetWriteDeadline(st.now().Add(-time.Second))
			st.logf("write with past deadline: %s", write1(cs, "no"))
			_ = cs.SetWriteDeadline(time.Time{})
			st.logf("write after clearing: %s", write1(cs, "ok"))
			d, cls := readN(ss, 2)
			st.logf("peer read %s %s", show(d), cls)
			_ = cs.SetDeadline(st.now().Add(-time.Second))
			st.logf("SetDeadline past: write %s read %s", write1(cs, "no"), read1(cs))
			_ = cs.SetDeadline(time.Time{})
			st.logf("peer write %s", write1(ss, "r"))
			d, cls = readN(cs, 1)
			st.logf("after clearing: write %s read %s %s", write1(cs, "w"), show(d), cls)
		}},
		{name: "s05c-blocked-reader-unblocked-by-deadline-set-later", body: func(st stack) {
			c, s := st.connect()
			_, ss := openPair(st, c, s)
			var cls string
			join := st.spawn(func() { cls = read1(ss) })
			st.settle()
			_ = ss.SetReadDeadline(st.now().Add(-time.Second))
			join()
			st.logf("blocked reader: %s", cls)
		}},
		{name: "s06a-closewitherror-local-classes", body: func(st stack) {
			c, s := st.connect()
			cs, _ := openPair(st, c, s)
			st.logf("ctx done before: %v", ctxDone(c.Context()))
			st.logf("CloseWithError %s", classify(c.CloseWithError(42, "bye")))
			st.logf("ctx done after: %v", ctxDoneSoon(st, c.Context()))
			st.logf("stream ctx done: %v", ctxDoneSoon(st, cs.Context()))
			st.logf("Read %s", read1(cs))
			st.logf("Write %s", write1(cs, "x"))
			st.logf("OpenStream %s", openClass(c))
			st.logf("AcceptStream %s", acceptClass(c))
			st.logf("ReceiveDatagram %s", recvClass(c))
			st.logf("CloseWithError again %s", classify(c.CloseWithError(43, "later")))
			st.logf("Read %s", read1(cs))
		}},
		{name: "s06a2-senddatagram-after-local-close", body: func(st stack) {
			// D2 in DEVIATIONS.md: quic-go's datagramQueue.Add does not look at the closed state while
			// the send queue (32 frames) has room, so SendDatagram keeps returning nil after the close.
			c, _ := st.connect()
			_ = c.CloseWithError(42, "")
			st.logf("SendDatagram %s", classify(c.SendDatagram([]byte("late"))))
			n := 1
			var err error
			for ; n < 40; n++ {
				if err = c.SendDatagram([]byte("late")); err != nil {
					break
				}
			}
			st.logf("first failing SendDatagram after close: call #%d %s", n+1, classify(err))
		}},
		{name: "s06b-closewitherror-remote-classes", body: func(st stack) {
			c, s := st.connect()
			_, ss := openPair(st, c, s)
			_ = c.CloseWithError(42, "bye")
			st.logf("AcceptStream %s", acceptClass(s)) // blocks until the close arrived
			st.logf("ctx done: %v", ctxDoneSoon(st, s.Context()))
			st.logf("Read %s", read1(ss))
			st.logf("Write %s", write1(ss, "x"))
			st.logf("OpenStream %s", openClass(s))
			st.logf("ReceiveDatagram %s", recvClass(s))
			st.logf("CloseWithError on closed conn %s", classify(s.CloseWithError(1, "")))
			st.logf("Read %s", read1(ss))
		}},
		{name: "s06b2-senddatagram-after-remote-close", body: func(st stack) {
			// D2 in DEVIATIONS.md (same mechanism on the side that received the close)
			c, s := st.connect()
			_ = c.CloseWithError(42, "")
			st.logf("AcceptStream %s", acceptClass(s))
			st.logf("SendDatagram %s", classify(s.SendDatagram([]byte("late"))))
		}},
		{name: "s06c-pending-ops-unblocked-by-remote-close", body: func(st stack) {
			c, s := st.connect()
			_, ss := openPair(st, c, s)
			var rd, ac, dg string
			j1 := st.spawn(func() { rd = read1(ss) })
			j2 := st.spawn(func() { ac = acceptClass(s) })
			j3 := st.spawn(func() { dg = recvClass(s) })
			st.settle()
			_ = c.CloseWithError(7, "")
			j1()
			j2()
			j3()
			st.logf("pending Read %s", rd)
			st.logf("pending AcceptStream %s", ac)
			st.logf("pending ReceiveDatagram %s", dg)
		}},
		{name: "s06d-pending-ops-unblocked-by-local-close", body: func(st stack) {
			c, s := st.connect()
			cs, _ := openPair(st, c, s)
			var rd, ac, dg string
			j1 := st.spawn(func() { rd = read1(cs) })
			j2 := st.spawn(func() { ac = acceptClass(c) })
			j3 := st.spawn(func() { dg = recvClass(c) })
			st.settle()
			_ = c.CloseWithError(7, "")
			j1()
			j2()
			j3()
			st.logf("pending Read %s", rd)
			st.logf("pending AcceptStream %s", ac)
			st.logf("pending ReceiveDatagram %s", dg)
		}},
		{name: "s06e-blocked-write-unblocked-by-close", body: func(st stack) {
			c, s := st.connect()
			cs, _ := openPair(st, c, s)
			var cls string
			join := st.spawn(func() {
				big := pattern(1 << 20)
				var err error
				for i := 0; i < 32 && err == nil; i++ {
					_, err = cs.Write(big)
				}
				cls = classify(err)
			})
			st.settle()
			_ = s.CloseWithError(9, "")
			join()
			st.logf("blocked writer: %s", cls)
		}},
		{name: "s07-datagram-size-limit", body: func(st stack) {
			c, s := st.connect()
			err := c.SendDatagram(make([]byte, 65536))
			var dt *quic.DatagramTooLargeError
			if !errors.As(err, &dt) {
				st.logf("64KiB datagram: %s", classify(err))
				return
			}
			st.logf("64KiB datagram: too-large max>0=%v", dt.MaxDatagramPayloadSize > 0)
			max := int(dt.MaxDatagramPayloadSize)
			if max <= 0 || max > 65535 {
				return
			}
			p := pattern(max)
			if err := c.SendDatagram(p); err != nil {
				st.logf("datagram of exactly max: %s", classify(err))
				return
			}
			st.logf("datagram of exactly max: ok")
			d, err := s.ReceiveDatagram()
			st.logf("received intact=%v %s", string(d) == string(p), classify(err))
			err = c.SendDatagram(make([]byte, max+1))
			if errors.As(err, &dt) {
				st.logf("max+1: too-large same-max=%v", int(dt.MaxDatagramPayloadSize) == max)
			} else {
				st.logf("max+1: %s", classify(err))
			}
			st.logf("empty datagram: %s", classify(c.SendDatagram(nil)))
			st.logf("received %s", recvClass(s))
		}},
		{name: "s08-datagrams-intact-in-order", body: func(st stack) {
			c, s := st.connect()
			for i := 0; i < 5; i++ {
				st.logf("send %s", classify(c.SendDatagram([]byte(fmt.Sprintf("c2s-%d", i)))))
				st.logf("recv %s", recvClass(s))
			}
			for i := 0; i < 3; i++ {
				st.logf("send %s", classify(s.SendDatagram([]byte(fmt.Sprintf("s2c-%d", i)))))
				st.logf("recv %s", recvClass(c))
			}
			// a short burst (far below either queue limit) on a loss-free path keeps order
			for i := 0; i < 3; i++ {
				_ = c.SendDatagram([]byte(fmt.Sprintf("burst-%d", i)))
			}
			for i := 0; i < 3; i++ {
				st.logf("recv %s", recvClass(s))
			}
			// the payload is copied by SendDatagram
			buf := []byte("AAAA")
			_ = c.SendDatagram(buf)
			buf[0] = 'B'
			st.logf("recv %s", recvClass(s))
			l, r := c.SupportsDatagrams()
			st.logf("client SupportsDatagrams local=%v remote=%v", l, r)
			l, r = s.SupportsDatagrams()
			st.logf("server SupportsDatagrams local=%v remote=%v", l, r)
		}},
		{name: "s09a-transport-close-client-side", body: func(st stack) {
			c, s := st.connect()
			cs, _ := openPair(st, c, s)
			st.logf("Transport.Close %s", classify(st.closeTransport(0)))
			st.logf("user PacketConn Close calls: %d", st.socketCloses(0))
			st.logf("ctx done: %v", ctxDoneSoon(st, c.Context()))
			st.logf("Read %s", read1(cs))
			st.logf("Write %s", write1(cs, "x"))
			st.logf("OpenStream %s", openClass(c))
			st.logf("AcceptStream %s", acceptClass(c))
			st.logf("ReceiveDatagram %s", recvClass(c))
			st.logf("Transport.Close again %s", classify(st.closeTransport(0)))
			st.logf("CloseWithError after %s", classify(c.CloseWithError(0, "")))
		}},
		{name: "s09b-transport-close-peer-times-out", idle: 2 * time.Second, body: func(st stack) {
			c, s := st.connect()
			_, ss := openPair(st, c, s)
			_ = c
			st.logf("Transport.Close %s", classify(st.closeTransport(0)))
			// no CONNECTION_CLOSE is sent by Transport.Close: the peer only times out
			st.logf("peer AcceptStream %s", acceptClass(s))
			st.logf("peer Read %s", read1(ss))
			st.logf("peer ctx done: %v", ctxDoneSoon(st, s.Context()))
		}},
		{name: "s09c-server-close-as-hysteria", idle: 2 * time.Second, body: func(st stack) {
			// serverImpl.Close: listener.Close, tr.Close (then config.Conn.Close by hysteria itself)
			c, s := st.connect()
			cs, ss := openPair(st, c, s)
			var acc string
			join := st.spawn(func() { _, err := st.accept(); acc = classify(err) })
			st.settle()
			st.logf("Listener.Close %s", classify(st.closeListener()))
			join()
			st.logf("pending Accept %s", acc)
			st.logf("Transport.Close %s", classify(st.closeTransport(-1)))
			st.logf("user PacketConn Close calls: %d", st.socketCloses(-1))
			st.logf("server conn Read %s", read1(ss))
			st.logf("server conn ctx done: %v", ctxDoneSoon(st, s.Context()))
			st.logf("client Read %s", read1(cs))
		}},
		{name: "s09d-server-transport-close-without-listener-close", body: func(st stack) {
			var acc string
			join := st.spawn(func() { _, err := st.accept(); acc = classify(err) })
			st.settle()
			st.logf("Transport.Close %s", classify(st.closeTransport(-1)))
			join()
			// quic-go: Accept fails with the transport-closed error, vquic with ErrServerClosed.
			// hysteria cannot observe the difference: serverImpl.Close always closes the listener
			// first (s09c), and Serve() just returns whatever Accept returned. Normalised.
			if acc == "ServerClosed" || acc == "TransportClosed" {
				acc = "accept-failed"
			}
			st.logf("pending Accept %s", acc)
		}},
		{name: "s10-data-before-close-delivered", body: func(st stack) {
			c, s := st.connect()
			for _, n := range []int{1, 1000, 100000} {
				p := pattern(n)
				cs, err := c.OpenStream()
				must(st, "OpenStream", err)
				var wcls, ccls string
				join := st.spawn(func() {
					_, err := cs.Write(p)
					wcls = classify(err)
					ccls = classify(cs.Close()) // immediately
				})
				ss, err := s.AcceptStream()
				must(st, "AcceptStream", err)
				d, end := readAll(ss)
				join()
				st.logf("n=%d write %s close %s; read %s intact=%v end=%s", n, wcls, ccls, show(d), string(d) == string(p), end)
			}
		}},
		{name: "s11-qstream-close-pattern", body: func(st stack) {
			c, s := st.connect()
			cs, ss := openPair(st, c, s)
			// utils.QStream.Close on the server end after writing the response
			st.logf("write %s", write1(ss, "resp"))
			ss.CancelRead(0)
			st.logf("close %s", classify(ss.Close()))
			d, end := readAll(cs)
			st.logf("peer read %s end=%s", show(d), end)
			st.logf("peer late write: %s", writeUntilFail(st, cs, []byte("late")))
		}},
		{name: "s11b-qstream-close-on-both-ends", body: func(st stack) {
			// D3 in DEVIATIONS.md: after the peer's STOP_SENDING the real SendStream.Close reports
			// "close called for canceled stream"; the fake only does so after a LOCAL CancelWrite.
			c, s := st.connect()
			cs, ss := openPair(st, c, s)
			st.logf("write %s", write1(ss, "resp"))
			ss.CancelRead(0)
			st.logf("server QStream.Close %s", classify(ss.Close()))
			d, end := readAll(cs)
			st.logf("client read %s end=%s", show(d), end)
			// make sure the STOP_SENDING arrived, then close the client end the same way
			st.logf("client late write: %s", writeUntilFail(st, cs, []byte("late")))
			cs.CancelRead(0)
			st.logf("client QStream.Close after peer's STOP_SENDING %s", classify(cs.Close()))
		}},
		{name: "s11c-qstream-close-after-reading-eof", body: func(st stack) {
			c, s := st.connect()
			cs, ss := openPair(st, c, s)
			st.logf("client write %s close %s", write1(cs, "req"), classify(cs.Close()))
			d, end := readAll(ss)
			st.logf("server read %s end=%s", show(d), end)
			st.logf("server write %s", write1(ss, "resp"))
			ss.CancelRead(0) // no-op: EOF was read
			st.logf("server close %s", classify(ss.Close()))
			d, end = readAll(cs)
			st.logf("client read %s end=%s", show(d), end)
			cs.CancelRead(0)
			st.logf("client close again %s", classify(cs.Close()))
		}},
		{name: "s12-http3-exchange", body: func(st stack) {
			rec := &recorder{}
			h := http.HandlerFunc(func(w http.ResponseWriter, r *http.Request) {
				rec.addf("method=%s host=%s path=%s proto=%s auth=%q ccrx=%q pad=%q remote=%s", r.Method, r.Host, r.URL.Path, r.Proto,
					r.Header.Get("Hysteria-Auth"), r.Header.Get("Hysteria-CC-RX"), r.Header.Get("Hysteria-Padding"), r.RemoteAddr)
				w.Header().Set("Hysteria-UDP", "true")
				w.Header().Set("Hysteria-CC-RX", "0")
				w.Header().Add("X-Multi", "a")
				w.Header().Add("X-Multi", "b")
				w.WriteHeader(233)
			})
			var serveCls string
			join := st.spawn(func() {
				srv, err := st.accept()
				if err != nil {
					serveCls = "accept:" + classify(err)
					return
				}
				serveCls = classify(st.serveH3(srv, h, nil))
			})
			cl := st.newH3Client()
			st.logf("response: %s", respLine(cl.RoundTrip(hyAuthRequest())))
			rec.flush(st, "handler saw: ")
			st.logf("dials=%d", cl.Dials())
			st.logf("response#2: %s", respLine(cl.RoundTrip(hyAuthRequest())))
			rec.flush(st, "handler saw: ")
			st.logf("dials=%d", cl.Dials())
			_ = cl.Conn().CloseWithError(h3NoError, "")
			join()
			if serveCls != "nil" {
				serveCls = "non-nil"
			}
			st.logf("ServeQUICConn returned %s", serveCls)
		}},
		{name: "s12b-http3-body-and-status", body: func(st stack) {
			h := http.HandlerFunc(func(w http.ResponseWriter, r *http.Request) {
				if r.URL.Path == "/missing" {
					w.WriteHeader(404)
					return
				}
				w.Header().Set("Content-Type", "text/plain")
				_, _ = w.Write([]byte("hello "))
				_, _ = w.Write([]byte("world"))
			})
			join := st.spawn(func() {
				srv, err := st.accept()
				if err == nil {
					_ = st.serveH3(srv, h, nil)
				}
			})
			cl := st.newH3Client()
			req, _ := http.NewRequest(http.MethodGet, "https://example.test/index", nil)
			resp, err := cl.RoundTrip(req)
			st.logf("GET /index: %s", respLine(resp, err))
			req, _ = http.NewRequest(http.MethodGet, "https://example.test/missing", nil)
			resp, err = cl.RoundTrip(req)
			st.logf("GET /missing: %s", respLine(resp, err))
			_ = cl.Conn().CloseWithError(h3NoError, "")
			join()
		}},
		{name: "s13-dispatcher-sees-unconsumed-frame-type", body: func(st stack) {
			c, s := st.connect()
			rec := &recorder{}
			var hjoin func()
			d := func(ft uint64, str xStream, err error) (bool, error) {
				rec.addf("ft=%#x err=%s", ft, classify(err))
				if ft != ftTCPRequest {
					return false, nil
				}
				hdr, cls := readN(str, 2)
				rec.addf("first bytes % x %s", hdr, cls)
				// like ProxyStreamHijacker: hand the stream to a goroutine and return handled
				hjoin = st.spawn(func() {
					body, cls := readN(str, 3)
					rec.addf("handler read %s %s", show(body), cls)
					_, err := str.Write([]byte("pong"))
					rec.addf("handler write %s close %s", classify(err), classify(str.Close()))
				})
				return true, nil
			}
			var serveCls string
			join := st.spawn(func() { serveCls = classify(st.serveH3(s, nil, d)) })
			cs, err := c.OpenStream()
			must(st, "OpenStream", err)
			st.logf("client write %s", write1(cs, "\x44\x01abc"))
			data, end := readAll(cs)
			st.logf("client read %s end=%s", show(data), end)
			if hjoin != nil {
				hjoin()
			}
			rec.flush(st, "dispatcher: ")
			_ = c.CloseWithError(h3NoError, "")
			join()
			st.logf("ServeQUICConn returned %s", serveCls)
		}},
		{name: "s14-dispatcher-declines-raw-stream", body: func(st stack) {
			c, s := st.connect()
			rec := &recorder{}
			d := func(ft uint64, str xStream, err error) (bool, error) {
				rec.addf("ft=%#x err=%s", ft, classify(err))
				if ft == 0x402 {
					_, _ = readN(str, 2)
					_, _ = str.Write([]byte("alive"))
					_ = str.Close()
					return true, nil
				}
				return false, nil
			}
			join := st.spawn(func() { _ = st.serveH3(s, nil, d) })
			cs, err := c.OpenStream()
			must(st, "OpenStream", err)
			// varint 0x401, then a hysteria TCP request "a:1" without padding; FIN
			st.logf("client write %s close %s", write1(cs, "\x44\x01\x03a:1"), classify(cs.Close()))
			data, _ := readAll(cs)
			if len(data) == 0 {
				st.logf("no-app-bytes")
			} else {
				st.logf("client read %s", show(data))
			}
			// the connection stays usable
			cs2, err := c.OpenStream()
			must(st, "OpenStream", err)
			st.logf("second stream write %s", write1(cs2, "\x44\x02"))
			data, end := readAll(cs2)
			st.logf("second stream read %s end=%s", show(data), end)
			rec.flush(st, "dispatcher: ")
			_ = c.CloseWithError(h3NoError, "")
			join()
		}},
		{name: "s14b-declined-raw-stream-parsing-as-h3-DATA", body: func(st stack) {
			// D1 in DEVIATIONS.md: after the dispatcher declines, the real http3 server parses the
			// stream as HTTP/3 frames: 0x401 is skipped as an unknown frame (length 0 here), the next
			// frame is DATA (type 0) where HEADERS is required -> the CONNECTION is closed with
			// H3_FRAME_UNEXPECTED. The fake only resets the stream.
			c, s := st.connect()
			d := func(ft uint64, str xStream, err error) (bool, error) {
				if ft == 0x402 {
					_, _ = readN(str, 2)
					_, _ = str.Write([]byte("alive"))
					_ = str.Close()
					return true, nil
				}
				return false, nil
			}
			var serveCls string
			join := st.spawn(func() { serveCls = classify(st.serveH3(s, nil, d)) })
			cs, err := c.OpenStream()
			must(st, "OpenStream", err)
			st.logf("client write %s close %s", write1(cs, "\x44\x01\x00\x00\x00"), classify(cs.Close()))
			data, _ := readAll(cs)
			if len(data) == 0 {
				st.logf("no-app-bytes")
			}
			cs2, err := c.OpenStream()
			if err != nil {
				st.logf("connection dead: OpenStream %s", classify(err))
			} else {
				_, _ = cs2.Write([]byte("\x44\x02"))
				data, end := readAll(cs2)
				st.logf("second stream read %s end=%s", show(data), end)
			}
			_ = c.CloseWithError(h3NoError, "")
			join()
			if serveCls != "nil" {
				serveCls = "non-nil"
			}
			st.logf("ServeQUICConn returned %s", serveCls)
		}},
		{name: "s14c-dispatcher-error-resets-stream", body: func(st stack) {
			c, s := st.connect()
			d := func(ft uint64, str xStream, err error) (bool, error) {
				return false, errors.New("dispatch failed")
			}
			join := st.spawn(func() { _ = st.serveH3(s, nil, d) })
			cs, err := c.OpenStream()
			must(st, "OpenStream", err)
			st.logf("client write %s", write1(cs, "\x44\x01abc"))
			data, end := readAll(cs)
			st.logf("client read %s end=%s", show(data), end)
			st.logf("client late write: %s", writeUntilFail(st, cs, []byte("x")))
			_ = c.CloseWithError(h3NoError, "")
			join()
		}},
		{name: "s14d-request-stream-passes-dispatcher", body: func(st stack) {
			rec := &recorder{}
			h := http.HandlerFunc(func(w http.ResponseWriter, r *http.Request) {
				rec.addf("handler path=%s", r.URL.Path)
				w.WriteHeader(233)
			})
			d := func(ft uint64, str xStream, err error) (bool, error) {
				rec.addf("dispatcher ft=%#x err=%s", ft, classify(err))
				return false, nil
			}
			join := st.spawn(func() {
				srv, err := st.accept()
				if err == nil {
					_ = st.serveH3(srv, h, d)
				}
			})
			cl := st.newH3Client()
			st.logf("response: %s", respLine(cl.RoundTrip(hyAuthRequest())))
			rec.flush(st, "")
			// then a raw stream on the SAME connection, as hysteria's client does after auth
			cs, err := cl.Conn().OpenStream()
			must(st, "OpenStream", err)
			st.logf("raw stream id=%d", cs.StreamID())
			st.logf("raw write %s close %s", write1(cs, "\x44\x01\x03a:1"), classify(cs.Close()))
			data, _ := readAll(cs)
			st.logf("raw read app-bytes=%d", len(data))
			rec.flush(st, "")
			_ = cl.Conn().CloseWithError(h3NoError, "")
			join()
		}},
		{name: "s14e-dispatcher-gets-peek-error-on-empty-stream", body: func(st stack) {
			c, s := st.connect()
			rec := &recorder{}
			d := func(ft uint64, str xStream, err error) (bool, error) {
				cls := "non-nil"
				if err == nil {
					cls = "nil"
				}
				rec.addf("ft=%#x err=%s", ft, cls)
				return false, nil
			}
			join := st.spawn(func() { _ = st.serveH3(s, nil, d) })
			cs, err := c.OpenStream()
			must(st, "OpenStream", err)
			st.logf("client close without data %s", classify(cs.Close()))
			data, _ := readAll(cs)
			st.logf("client read app-bytes=%d", len(data))
			rec.flush(st, "dispatcher: ")
			_ = c.CloseWithError(h3NoError, "")
			join()
		}},
		{name: "s15-servequicconn-return-classes", body: func(st stack) {
			for _, tc := range []struct {
				who  string
				code uint64
			}{{"client", h3NoError}, {"client", 0}, {"client", 0x101}, {"server", h3NoError}, {"server", 0x10c}} {
				c, s := st.connect()
				var serveCls string
				join := st.spawn(func() { serveCls = classify(st.serveH3(s, nil, nil)) })
				st.settle()
				if tc.who == "client" {
					_ = c.CloseWithError(tc.code, "")
				} else {
					_ = s.CloseWithError(tc.code, "")
				}
				join()
				if serveCls != "nil" {
					serveCls = "non-nil"
				}
				st.logf("%s closes with %#x: ServeQUICConn returned %s", tc.who, tc.code, serveCls)
			}
		}},
		{name: "s15b-servequicconn-waits-for-handlers", body: func(st stack) {
			g := st.newGate()
			var entered, returned atomic.Bool
			h := http.HandlerFunc(func(w http.ResponseWriter, r *http.Request) {
				entered.Store(true)
				g.Wait()
				w.WriteHeader(200)
			})
			var serveCls string
			join := st.spawn(func() {
				srv, err := st.accept()
				if err == nil {
					serveCls = classify(st.serveH3(srv, h, nil))
				}
				returned.Store(true)
			})
			cl := st.newH3Client()
			rt := st.spawn(func() { _, _ = cl.RoundTrip(hyAuthRequest()) })
			for i := 0; i < 200 && !entered.Load(); i++ {
				st.settle()
			}
			st.logf("handler entered: %v", entered.Load())
			if cl.Conn() != nil {
				_ = cl.Conn().CloseWithError(h3NoError, "")
			}
			for i := 0; i < 8; i++ {
				st.settle()
			}
			// (on the real stack an early return could be missed by this pause, never invented)
			st.logf("ServeQUICConn returned while the handler is blocked: %v", returned.Load())
			g.Open()
			join()
			st.logf("ServeQUICConn returned after the handler: %v class %s", returned.Load(), serveCls)
			rt()
		}},
		{name: "s16-openstream-after-peer-close", body: func(st stack) {
			c, s := st.connect()
			_ = c.CloseWithError(h3NoError, "")
			st.logf("AcceptStream %s", acceptClass(s))
			st.logf("OpenStream %s", openClass(s))
		}},
		{name: "s17-last-bytes-and-eof", body: func(st stack) {
			c, s := st.connect()
			cs, ss := openPair(st, c, s)
			st.logf("write %s close %s", write1(cs, "abc"), classify(cs.Close()))
			var out []byte
			one := make([]byte, 1)
			end := ""
			for i := 0; i < 16; i++ {
				n, err := ss.Read(one)
				out = append(out, one[:n]...)
				if err != nil {
					end = classify(err)
					break
				}
			}
			st.logf("1-byte reads: %s end=%s", show(out), end)
		}},
		{name: "s18-context-done-after-close", body: func(st stack) {
			c, s := st.connect()
			st.logf("before: client %v server %v", ctxDone(c.Context()), ctxDone(s.Context()))
			_ = s.CloseWithError(5, "")
			st.logf("closer: %v", ctxDoneSoon(st, s.Context()))
			st.logf("peer AcceptStream %s", acceptClass(c))
			st.logf("peer: %v", ctxDoneSoon(st, c.Context()))
		}},
		{name: "s19-stream-ids", body: func(st stack) {
			c, s := st.connect()
			var ids []string
			for i := 0; i < 3; i++ {
				cs, err := c.OpenStream()
				must(st, "OpenStream", err)
				ids = append(ids, fmt.Sprint(cs.StreamID()))
				_, _ = cs.Write([]byte{byte('a' + i)})
			}
			st.logf("client opened %s", strings.Join(ids, ","))
			ids = nil
			for i := 0; i < 3; i++ {
				ss, err := s.AcceptStream()
				must(st, "AcceptStream", err)
				d, _ := readN(ss, 1)
				ids = append(ids, fmt.Sprintf("%d:%s", ss.StreamID(), d))
			}
			st.logf("server accepted %s", strings.Join(ids, ","))
			ids = nil
			for i := 0; i < 2; i++ {
				ss, err := s.OpenStream()
				must(st, "OpenStream", err)
				ids = append(ids, fmt.Sprint(ss.StreamID()))
				_, _ = ss.Write([]byte{byte('x' + i)})
			}
			st.logf("server opened %s", strings.Join(ids, ","))
			ids = nil
			for i := 0; i < 2; i++ {
				cs, err := c.AcceptStream()
				must(st, "AcceptStream", err)
				d, _ := readN(cs, 1)
				ids = append(ids, fmt.Sprintf("%d:%s", cs.StreamID(), d))
			}
			st.logf("client accepted %s", strings.Join(ids, ","))
		}},
		{name: "s20-listener-close-keeps-connections", body: func(st stack) {
			c, s := st.connect()
			st.logf("Listener.Close %s", classify(st.closeListener()))
			_, err := st.accept()
			st.logf("Accept after close %s", classify(err))
			cs, ss := openPair(st, c, s)
			st.logf("write %s close %s", write1(cs, "still"), classify(cs.Close()))
			d, end := readAll(ss)
			st.logf("read %s end=%s", show(d), end)
			st.logf("ctx done: client %v server %v", ctxDone(c.Context()), ctxDone(s.Context()))
		}},
		{name: "s21-accept-order-follows-stream-ids", body: func(st stack) {
			c, s := st.connect()
			s0, err := c.OpenStream()
			must(st, "OpenStream", err)
			s4, err := c.OpenStream()
			must(st, "OpenStream", err)
			st.logf("write on the second stream only %s", write1(s4, "b"))
			a, err := s.AcceptStream()
			must(st, "AcceptStream", err)
			b, err := s.AcceptStream()
			must(st, "AcceptStream", err)
			st.logf("accepted ids %d,%d", a.StreamID(), b.StreamID())
			d, cls := readN(b, 1)
			st.logf("second stream data %s %s", show(d), cls)
			st.logf("write on the first %s", write1(s0, "a"))
			d, cls = readN(a, 1)
			st.logf("first stream data %s %s", show(d), cls)
		}},
		{name: "s22-two-connections-independent", body: func(st stack) {
			c1, s1 := st.connect()
			c2, s2 := st.connect()
			_ = c1.CloseWithError(h3NoError, "")
			st.logf("conn1 server AcceptStream %s", acceptClass(s1))
			a, b := openPair(st, c2, s2)
			st.logf("conn2 write %s close %s", write1(a, "two"), classify(a.Close()))
			d, end := readAll(b)
			st.logf("conn2 read %s end=%s", show(d), end)
			st.logf("ctx done: conn1 %v conn2 %v", ctxDoneSoon(st, s1.Context()), ctxDone(s2.Context()))
		}},
		{name: "s23-echo-both-close-orders", body: func(st stack) {
			c, s := st.connect()
			for _, first := range []string{"client", "server"} {
				cs, ss := openPair(st, c, s)
				st.logf("c->s %s", write1(cs, "ping"))
				d, cls := readN(ss, 4)
				st.logf("server got %s %s", show(d), cls)
				st.logf("s->c %s", write1(ss, "pong"))
				d, cls = readN(cs, 4)
				st.logf("client got %s %s", show(d), cls)
				x, y := cs, ss
				if first == "server" {
					x, y = ss, cs
				}
				st.logf("%s closes first %s", first, classify(x.Close()))
				d, end := readAll(y)
				st.logf("other reads %s end=%s", show(d), end)
				st.logf("other writes after peer FIN %s then closes %s", write1(y, "tail"), classify(y.Close()))
				d, end = readAll(x)
				st.logf("first closer reads %s end=%s", show(d), end)
			}
		}},
		{name: "s25-dial-without-listener", body: func(st stack) {
			_, err := st.dialNowhere()
			cls := classify(err)
			// quic-go reports an idle timeout while no packet ever arrived (connection.go: idle
			// timeout during the handshake), vquic a HandshakeTimeoutError. hysteria only wraps the
			// error in ConnectError, so both are one class.
			if cls == "IdleTimeout" || cls == "HandshakeTimeout" {
				cls = "handshake-timeout"
			}
			st.logf("dial: %s", cls)
		}},
		{name: "s26-large-transfer-with-concurrent-reader", body: func(st stack) {
			c, s := st.connect()
			cs, ss := openPair(st, c, s)
			p := pattern(300000)
			var wcls string
			join := st.spawn(func() {
				_, err := ss.Write(p)
				wcls = classify(err)
				_ = ss.Close()
			})
			d, end := readAll(cs)
			join()
			st.logf("write %s; read %s intact=%v end=%s", wcls, show(d), string(d) == string(p), end)
		}},
		{name: "s27-stream-limit-error-as-hysteria-sees-it", maxStreams: 2, body: func(st stack) {
			// D5 in DEVIATIONS.md: quic-go returns a POINTER (&StreamLimitReachedError{}), which
			// hysteria's errors.Is(err, quic.StreamLimitReachedError{}) does not match.
			c, _ := st.connect()
			for i := 0; i < 3; i++ {
				s, err := c.OpenStream()
				st.logf("OpenStream #%d %s", i+1, classify(err))
				if err == nil {
					_, _ = s.Write([]byte("x"))
				}
			}
		}},
		{name: "s28-unread-stream-data-is-lost-on-connection-close", body: func(st stack) {
			c, s := st.connect()
			cs, ss := openPair(st, c, s)
			st.logf("write %s", write1(cs, "abc"))
			d, cls := readN(ss, 1)
			st.logf("peer reads one byte %s %s", show(d), cls) // so "bc" is buffered at the receiver
			_ = c.CloseWithError(h3NoError, "")
			st.logf("peer AcceptStream %s", acceptClass(s))
			st.logf("peer Read of the buffered rest: %s", read1(ss))
		}},
		{name: "s29-queued-datagram-after-local-close", body: func(st stack) {
			// D4 in DEVIATIONS.md: quic-go's datagramQueue.Receive hands out datagrams that were
			// queued before the close; the fake fails ReceiveDatagram as soon as the conn is closed.
			c, s := st.connect()
			_ = c.SendDatagram([]byte("d1"))
			_ = c.SendDatagram([]byte("d2"))
			// stream data sent afterwards on the same loss-free path: when it is readable, both
			// datagrams have been queued at the receiver
			cs, err := c.OpenStream()
			must(st, "OpenStream", err)
			_, _ = cs.Write([]byte("!"))
			ss, err := s.AcceptStream()
			must(st, "AcceptStream", err)
			_, _ = readN(ss, 1)
			_ = s.CloseWithError(0, "")
			st.logf("ReceiveDatagram after local close: %s", recvClass(s))
		}},
	}
}
