package conform

import (
	"context"
	"crypto/tls"
	"fmt"
	"net"
	"net/http"
	"time"

	"verif.local/engine/vquic"
	vh3 "verif.local/engine/vquic/http3"
	"verif.local/engine/vsched"
	"verif.local/engine/vtime"
)

// fakeStack runs a script against vquic + the fake http3 inside one vsched execution (default
// schedule). Every blocking step of a script goes through a hooked operation of the fakes or
// through e.Point, so the cooperative scheduler sees it.
type fakeStack struct {
	obsLog
	sc    *script
	e     *vsched.Exec
	srvPC *stubPC
	srvTr *vquic.Transport
	ln    *vquic.Listener
	cls   []*fakeEP
}

type fakeEP struct {
	pc *stubPC
	tr *vquic.Transport
}

var (
	srvIP, cliIP = "10.0.0.1", "10.0.0.2"
	nowhereAddr  = &net.UDPAddr{IP: net.ParseIP("10.0.0.9"), Port: 443}
)

func runFake(sc *script) result {
	f := &fakeStack{sc: sc}
	o := vsched.RunDefault(vsched.Options{}, func(e *vsched.Exec) {
		f.e = e
		f.srvPC = &stubPC{addr: &net.UDPAddr{IP: net.ParseIP(srvIP), Port: 443}}
		f.srvTr = &vquic.Transport{Conn: f.srvPC}
		ln, err := f.srvTr.Listen(nil, nil)
		if err != nil {
			f.logf("ABORT listen: %v", err)
			return
		}
		f.ln = ln
		defer func() {
			if r := recover(); r != nil {
				if _, ok := r.(scriptAbort); ok {
					return
				}
				panic(r)
			}
		}()
		sc.body(f)
	})
	log := f.snapshot()
	if o.Kind != "ok" {
		// a script that blocks for ever on the fake (or panics) is an observation of its own
		log = append(log, fmt.Sprintf("fake-execution:%s:%s", o.Kind, o.Detail))
	}
	return result{Log: log, Status: "ok"}
}

func (f *fakeStack) kind() string { return "fake" }

type fakeConn struct{ c *vquic.Conn }

func (c fakeConn) OpenStream() (xStream, error) {
	s, err := c.c.OpenStream()
	if err != nil {
		return nil, err
	}
	return s, nil
}

func (c fakeConn) AcceptStream() (xStream, error) {
	s, err := c.c.AcceptStream(context.Background())
	if err != nil {
		return nil, err
	}
	return s, nil
}
func (c fakeConn) SendDatagram(p []byte) error { return c.c.SendDatagram(p) }
func (c fakeConn) ReceiveDatagram() ([]byte, error) {
	return c.c.ReceiveDatagram(context.Background())
}
func (c fakeConn) CloseWithError(code uint64, msg string) error {
	return c.c.CloseWithError(vquic.ApplicationErrorCode(code), msg)
}
func (c fakeConn) Context() context.Context { return c.c.Context() }
func (c fakeConn) SupportsDatagrams() (bool, bool) {
	s := c.c.ConnectionState()
	return s.SupportsDatagrams.Local, s.SupportsDatagrams.Remote
}

func (f *fakeStack) dialTo(addr net.Addr) (*vquic.Conn, error) {
	ep := &fakeEP{pc: &stubPC{addr: &net.UDPAddr{IP: net.ParseIP(cliIP), Port: 50000 + len(f.cls)}}}
	ep.tr = &vquic.Transport{Conn: ep.pc}
	f.cls = append(f.cls, ep)
	c, err := ep.tr.DialEarly(context.Background(), addr, nil, nil)
	if err == nil && f.sc.maxStreams > 0 {
		c.MaxStreams = f.sc.maxStreams // vquic's own accounting returns quic-go's pointer form
	}
	return c, err
}

func (f *fakeStack) dial() (xConn, error) {
	c, err := f.dialTo(f.srvPC.addr)
	if err != nil {
		return nil, err
	}
	return fakeConn{c}, nil
}

func (f *fakeStack) dialNowhere() (xConn, error) {
	c, err := f.dialTo(nowhereAddr)
	if err != nil {
		return nil, err
	}
	return fakeConn{c}, nil
}

func (f *fakeStack) accept() (xConn, error) {
	c, err := f.ln.Accept(context.Background())
	if err != nil {
		return nil, err
	}
	return fakeConn{c}, nil
}

func (f *fakeStack) connect() (xConn, xConn) {
	c, err := f.dial()
	must(f, "dial", err)
	s, err := f.accept()
	must(f, "accept", err)
	return c, s
}

func (f *fakeStack) closeListener() error { return f.ln.Close() }

func (f *fakeStack) closeTransport(i int) error {
	if i < 0 {
		return f.srvTr.Close()
	}
	return f.cls[i].tr.Close()
}

func (f *fakeStack) socketCloses(i int) int {
	if i < 0 {
		return f.srvPC.closes
	}
	return f.cls[i].pc.closes
}

func (f *fakeStack) spawn(fn func()) func() {
	done := false
	vsched.Go(func() {
		defer func() { done = true }()
		fn()
	})
	return func() { f.e.Point("join", func() bool { return done }, "join") }
}

func (f *fakeStack) settle()        { f.e.WaitIdle() }
func (f *fakeStack) now() time.Time { return vtime.Now() }

type fakeGate struct {
	e    *vsched.Exec
	open bool
}

func (g *fakeGate) Wait() { g.e.Point("gate", func() bool { return g.open }, "gate") }
func (g *fakeGate) Open() { g.open = true }

func (f *fakeStack) newGate() gate { return &fakeGate{e: f.e} }

func (f *fakeStack) serveH3(srv xConn, h http.Handler, d dispatchFn) error {
	s := &vh3.Server{Handler: h}
	if d != nil {
		s.StreamDispatcher = func(ft vh3.FrameType, str *vquic.Stream, err error) (bool, error) {
			return d(uint64(ft), str, err)
		}
	}
	return s.ServeQUICConn(srv.(fakeConn).c)
}

type fakeH3 struct {
	f     *fakeStack
	tr    *vh3.Transport
	conn  *vquic.Conn
	dials int
}

func (f *fakeStack) newH3Client() h3Client {
	h := &fakeH3{f: f}
	h.tr = &vh3.Transport{
		TLSClientConfig: &tls.Config{},
		QUICConfig:      &vquic.Config{},
		Dial: func(ctx context.Context, _ string, _ *tls.Config, _ *vquic.Config) (*vquic.Conn, error) {
			h.dials++
			c, err := f.dialTo(f.srvPC.addr)
			if err != nil {
				return nil, err
			}
			h.conn = c
			return c, nil
		},
	}
	return h
}

func (h *fakeH3) RoundTrip(r *http.Request) (*http.Response, error) { return h.tr.RoundTrip(r) }
func (h *fakeH3) Dials() int                                        { return h.dials }
func (h *fakeH3) Conn() xConn {
	if h.conn == nil {
		return nil
	}
	return fakeConn{h.conn}
}
