package server

// C17 harness, call-site clause (injected by overlay into core/server).
//
// udpSessionManager.feed is driven with the client's UDP messages (whole or fragmented, every
// arrival order) against fakes of udpIO / UDPConn. The hook only inspects (or rewrites the
// address, or refuses): the bytes written to the outbound conn must equal the client's datagram,
// go to the address the hook left in *reqAddr, and the hook must see exactly the datagram.
// The TCP call site (handleTCPRequest) needs a *quic.Stream and is not driven here: it is driven
// over the fake QUIC layer in c17_replay_test.go (unit server-tcp-replay).

import (
	"bytes"
	"encoding/json"
	"errors"
	"fmt"
	"runtime"
	"strings"
	"sync"
	"testing"
	"time"

	"github.com/apernet/hysteria/core/v2/internal/protocol"
	"verif.local/engine/enum"
	"verif.local/engine/evidence"
)

type c17Write struct {
	data []byte
	addr string
	ptr  *byte
}

type c17Conn struct {
	dialed string
	mu     sync.Mutex
	writes []c17Write
	closed chan struct{}
	once   sync.Once
}

func (c *c17Conn) ReadFrom(b []byte) (int, string, error) {
	<-c.closed
	return 0, "", errors.New("c17: conn closed")
}

func (c *c17Conn) WriteTo(b []byte, addr string) (int, error) {
	w := c17Write{data: append([]byte(nil), b...), addr: addr}
	if len(b) > 0 {
		w.ptr = &b[0]
	}
	c.mu.Lock()
	c.writes = append(c.writes, w)
	c.mu.Unlock()
	return len(b), nil
}

func (c *c17Conn) Close() error {
	c.once.Do(func() { close(c.closed) })
	return nil
}

const (
	c17HookInspect = 0
	c17HookRewrite = 1
	c17HookRefuse  = 2
)

type c17IO struct {
	mode    int
	newHost string
	seen    [][]byte
	seenPtr []*byte
	seenAdr []string
	sum     int
	conns   []*c17Conn
}

func (io *c17IO) ReceiveMessage() (*protocol.UDPMessage, error) {
	return nil, errors.New("c17: not used")
}
func (io *c17IO) SendMessage([]byte, *protocol.UDPMessage) error { return nil }
func (io *c17IO) CheckUDP(string) error                          { return nil }

func (io *c17IO) Hook(data []byte, reqAddr *string) error {
	for _, b := range data { // inspect every byte, write none
		io.sum += int(b)
	}
	io.seen = append(io.seen, append([]byte(nil), data...))
	var p *byte
	if len(data) > 0 {
		p = &data[0]
	}
	io.seenPtr = append(io.seenPtr, p)
	io.seenAdr = append(io.seenAdr, *reqAddr)
	switch io.mode {
	case c17HookRewrite:
		i := strings.LastIndex(*reqAddr, ":")
		*reqAddr = io.newHost + (*reqAddr)[i:]
	case c17HookRefuse:
		return errors.New("c17: refused by hook")
	}
	return nil
}

func (io *c17IO) UDP(reqAddr string) (UDPConn, error) {
	c := &c17Conn{dialed: reqAddr, closed: make(chan struct{})}
	io.conns = append(io.conns, c)
	return c, nil
}

type c17Events struct{ news, closes int }

func (e *c17Events) New(uint32, string)  { e.news++ }
func (e *c17Events) Close(uint32, error) { e.closes++ }

type c17SrvCase struct {
	Payload string `json:"payload"`
	Len     int    `json:"len"`
	Cuts    []int  `json:"cuts,omitempty"`  // fragment boundaries
	Order   []int  `json:"order,omitempty"` // arrival order of the fragments
	Hook    int    `json:"hook"`
	Addr    string `json:"addr"`
	Second  bool   `json:"second_datagram"`
	// Stale: the session id was first seen in a lone fragment of ANOTHER datagram, addressed
	// elsewhere, which never completes (lost sibling): the first datagram the hook can see is
	// still this case's datagram, with this case's address
	Stale bool `json:"stale_fragment_first,omitempty"`
	// DupFrag/DupAt: one fragment of the datagram is delivered TWICE (datagrams may be duplicated
	// on the way): a fresh message with the same packet id, fragment id and bytes. DupFrag is the
	// 1-based index of that fragment (0 = no duplicate); the copy arrives just before the DupAt-th
	// (0-based) arrival of Order, always after the original; DupAt == number of fragments means
	// after the datagram completed. The client sent ONE datagram: the hook and the outbound conn
	// still get exactly its bytes, exactly once.
	// Added after the independently seeded change C17-8 (a re-sent fragment replaced the stored one
	// and was counted into the reassembled size again: the first packet grew by len(duplicate) zero
	// bytes, and a duplicate after completion delivered the packet a second time).
	DupFrag int `json:"dup_fragment,omitempty"`
	DupAt   int `json:"dup_at,omitempty"`
}

func c17Payload(kind string, n int) []byte {
	b := make([]byte, n)
	for i := range b {
		switch kind {
		case "quic-like":
			b[i] = byte(i*7 + 3)
			if i == 0 {
				b[i] = 0xc3
			}
		case "zeros":
			b[i] = 0
		case "ff":
			b[i] = 0xff
		default:
			b[i] = "oh my sweet summer child "[i%25]
		}
	}
	return b
}

func c17RunSrv(c *c17SrvCase) (clause, detail string, aliased bool) {
	val, stack := evidence.Catch(func() { clause, detail, aliased = c17RunSrvInner(c) })
	if val != nil {
		return "panic", fmt.Sprintf("panic: %v at %s", val, evidence.PanicSite(stack)), false
	}
	return
}

func c17RunSrvInner(c *c17SrvCase) (clause, detail string, aliased bool) {
	sent := c17Payload(c.Payload, c.Len)
	io := &c17IO{mode: c.Hook, newHost: "sniffed.example"}
	ev := &c17Events{}
	m := newUDPSessionManager(io, ev, time.Hour)
	defer func() {
		verifCleanupAll(m)
		runtime.Gosched()
	}()
	// the client's datagram as protocol messages (each fragment owns its bytes, as ParseUDPMessage produces them)
	bounds := append(append([]int{0}, c.Cuts...), len(sent))
	nf := len(bounds) - 1
	mkFrag := func(i int) *protocol.UDPMessage {
		pid := uint16(0)
		if nf > 1 {
			pid = 77
		}
		return &protocol.UDPMessage{SessionID: 9, PacketID: pid, FragID: uint8(i), FragCount: uint8(nf), Addr: c.Addr,
			Data: append(make([]byte, 0, bounds[i+1]-bounds[i]), sent[bounds[i]:bounds[i+1]]...)}
	}
	var frags []*protocol.UDPMessage
	for i := 0; i < nf; i++ {
		frags = append(frags, mkFrag(i))
	}
	order := c.Order
	if len(order) == 0 {
		for i := range frags {
			order = append(order, i)
		}
	}
	if c.Stale {
		m.feed(&protocol.UDPMessage{SessionID: 9, PacketID: 55, FragID: 1, FragCount: 2, Addr: "stale.invalid:9", Data: []byte("lost sibling")})
	}
	// the duplicated fragment (C17-8): only of a fragmented datagram, only after its original
	dup := c.DupFrag >= 1 && c.DupFrag <= nf && nf > 1 && c.DupAt <= len(order)
	if dup {
		for k, i := range order {
			if i == c.DupFrag-1 && k >= c.DupAt {
				dup = false
			}
		}
	}
	for k, i := range order {
		if dup && c.DupAt == k {
			m.feed(mkFrag(c.DupFrag - 1))
		}
		m.feed(frags[i])
	}
	// lateDup delivers the copy after the datagram completed: nothing more may reach the hook or
	// the outbound side (after a refusal the copy is a lone fragment of a datagram that never completes)
	lateDup := func(wantConns, wantWrites int) (string, string) {
		if !dup || c.DupAt != len(order) {
			return "", ""
		}
		m.feed(mkFrag(c.DupFrag - 1))
		if len(io.seen) != 1 {
			return "duplicate-fragment-hook-called-again", fmt.Sprintf("a copy of fragment %d arriving after the datagram completed: Hook was called %d times for one datagram", c.DupFrag-1, len(io.seen))
		}
		if len(io.conns) != wantConns {
			return "duplicate-fragment-dialed", fmt.Sprintf("a copy of fragment %d arriving after the datagram completed: %d outbound conns, %d before it", c.DupFrag-1, len(io.conns), wantConns)
		}
		n := 0
		for _, conn := range io.conns {
			conn.mu.Lock()
			n += len(conn.writes)
			conn.mu.Unlock()
		}
		if n != wantWrites {
			return "duplicate-fragment-forwarded-again", fmt.Sprintf("a copy of fragment %d arriving after the datagram completed: %d writes to the outbound conn for one datagram", c.DupFrag-1, n)
		}
		return "", ""
	}
	wantAddr := c.Addr
	if c.Hook == c17HookRewrite {
		wantAddr = "sniffed.example" + c.Addr[strings.LastIndex(c.Addr, ":"):]
	}
	if len(io.seen) != 1 {
		return "hook-calls", fmt.Sprintf("Hook was called %d times for one datagram", len(io.seen)), false
	}
	if !bytes.Equal(io.seen[0], sent) {
		return "hook-sees-other-bytes", fmt.Sprintf("Hook saw %d bytes, the client's datagram has %d (or contents differ)", len(io.seen[0]), len(sent)), false
	}
	if io.seenAdr[0] != c.Addr {
		return "hook-sees-other-addr", fmt.Sprintf("Hook saw address %q, client asked for %q", io.seenAdr[0], c.Addr), false
	}
	if c.Hook == c17HookRefuse {
		if len(io.conns) != 0 {
			return "dialed-after-refusal", "the hook refused the session but an outbound conn was opened", false
		}
		if m.Count() != 0 {
			return "session-kept-after-refusal", "the hook refused the session but it stays in the table", false
		}
		clause, detail = lateDup(0, 0)
		return clause, detail, false
	}
	if len(io.conns) != 1 {
		return "dial-count", fmt.Sprintf("%d outbound conns for one session", len(io.conns)), false
	}
	conn := io.conns[0]
	if conn.dialed != wantAddr {
		return "dialed-wrong-addr", fmt.Sprintf("outbound conn dialed for %q, hook left %q", conn.dialed, wantAddr), false
	}
	conn.mu.Lock()
	ws := append([]c17Write(nil), conn.writes...)
	conn.mu.Unlock()
	if len(ws) != 1 {
		return "write-count", fmt.Sprintf("%d writes to the outbound conn for one datagram", len(ws)), false
	}
	if !bytes.Equal(ws[0].data, sent) {
		return "forwarded-bytes-differ", fmt.Sprintf("outbound conn got %d bytes, client's datagram has %d (or contents differ)", len(ws[0].data), len(sent)), false
	}
	if ws[0].addr != wantAddr {
		return "forwarded-to-wrong-addr", fmt.Sprintf("datagram written to %q, hook left %q", ws[0].addr, wantAddr), false
	}
	aliased = len(sent) > 0 && ws[0].ptr == io.seenPtr[0]
	if clause, detail = lateDup(1, 1); clause != "" {
		return clause, detail, aliased
	}
	if c.Second {
		second := append(c17Payload("ff", 7), sent...)
		m.feed(&protocol.UDPMessage{SessionID: 9, FragCount: 1, Addr: c.Addr, Data: append([]byte(nil), second...)})
		if len(io.seen) != 1 {
			return "hook-called-again", "Hook was called for the second datagram of the session", aliased
		}
		conn.mu.Lock()
		ws = append([]c17Write(nil), conn.writes...)
		conn.mu.Unlock()
		if len(ws) != 2 || !bytes.Equal(ws[1].data, second) || ws[1].addr != wantAddr {
			return "second-datagram", fmt.Sprintf("second datagram not forwarded intact to %q (writes=%d)", wantAddr, len(ws)), aliased
		}
	}
	return "", "", aliased
}

func c17SrvEnumerate(sh *evidence.Shard) {
	env := sh.Env()
	p := sh.Part("server-udp-hook-call-site", "enum")
	type pl struct {
		kind string
		n    int
	}
	payloads := []pl{{"text", 0}, {"text", 1}, {"text", 5}, {"text", 24}, {"zeros", 24}, {"ff", 24}, {"quic-like", 200}, {"quic-like", 1200}, {"quic-like", 1230}, {"quic-like", 4000}}
	p.Alphabet = map[string]any{"payload": fmt.Sprint(payloads), "fragments": "1, 2 or 3 fragments cut at {1, 2, n/2, n-1}; every arrival order",
		"hook": []string{"inspect only", "inspect + rewrite host (port kept)", "refuse"}, "addr": []string{"1.2.3.4:443", "orig.example:8443"}, "second_datagram": []bool{false, true}, "session id first seen in a lone fragment of another datagram to another address": []bool{false, true},
		// added after the independently seeded change C17-8 (a re-sent fragment was counted into the reassembled size again)
		"duplicated_fragment": "none, or any one fragment of a fragmented datagram delivered twice (same packet id, fragment id, bytes): the copy at every later position of the arrival order, including after the datagram completed"}
	var item int64
	for _, pay := range payloads {
		n := pay.n
		offs := []int{1, 2, n / 2, n - 1}
		enum.Splits(n, 0, offs, 2, func(cuts []int) bool {
			if n <= 1 && len(cuts) > 0 {
				return true
			}
			nf := len(cuts) + 1
			enum.Permutations(nf, func(perm []int) bool {
				// {fragment delivered twice (1-based, 0 = none), position of the copy}: every fragment, every
				// position after its original up to "after completion" (C17-8)
				dups := [][2]int{{0, 0}}
				if nf > 1 {
					for k, i := range perm {
						for at := k + 1; at <= nf; at++ {
							dups = append(dups, [2]int{i + 1, at})
						}
					}
				}
				for _, hook := range []int{c17HookInspect, c17HookRewrite, c17HookRefuse} {
					for _, addr := range []string{"1.2.3.4:443", "orig.example:8443"} {
						for si := 0; si < 4; si++ {
							second, stale := si&1 == 1, si&2 == 2
							for _, dp := range dups {
								item++
								if !env.Mine(item) {
									continue
								}
								c := &c17SrvCase{Payload: pay.kind, Len: n, Cuts: append([]int(nil), cuts...), Order: append([]int(nil), perm...), Hook: hook, Addr: addr, Second: second, Stale: stale, DupFrag: dp[0], DupAt: dp[1]}
								p.Evaluations++
								clause, detail, aliased := c17RunSrv(c)
								p.Class(pay.kind, n, len(cuts), fmt.Sprint(perm), hook, addr, second, stale, dp, clause)
								if aliased {
									p.Count("hook_slice_is_the_slice_written_next", 1)
								}
								if dp[0] > 0 {
									p.Count("cases_with_a_fragment_delivered_twice", 1)
								}
								if len(p.Samples) < 2 && p.Evaluations%41 == 7 {
									p.Sample(c)
								}
								if clause != "" {
									// one signature per clause x hook behaviour x number of fragments; the replay file holds one complete case
									sh.Violate(p.Name, fmt.Sprintf("server-udp/%s/hook=%d,fragments=%d", clause, hook, nf), detail, c)
								}
							}
						}
					}
				}
				return true
			})
			return true
		})
	}
}

func TestVerifC17Server(t *testing.T) {
	evidence.Main(t, "C17", evidence.Seq{
		Run: c17SrvEnumerate,
		Replay: func(part string, raw json.RawMessage) (bool, bool, string) {
			if !strings.HasPrefix(part, "server-") {
				return false, false, ""
			}
			var c c17SrvCase
			if err := json.Unmarshal(raw, &c); err != nil {
				return true, false, err.Error()
			}
			clause, detail, _ := c17RunSrv(c17Ptr(c))
			return true, clause != "", clause + ": " + detail
		},
	})
}

func c17Ptr(c c17SrvCase) *c17SrvCase { return &c }

// verifCleanupAll closes every session of a manager at the end of a case. The private
// cleanup(idleOnly bool) method is called through an interface assertion, so that a refactor of
// it does not break the harness build; without it the sessions are left to the fake sockets'
// Close (every case uses fresh objects).
func verifCleanupAll(m *udpSessionManager) {
	if c, ok := any(m).(interface{ cleanup(bool) }); ok {
		c.cleanup(false)
	}
}
