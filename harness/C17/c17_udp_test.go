package sniff

// C17 harness, UDP half (injected by overlay into extras/sniff).
//
// core/server hands Hook the very slice it writes to the target next (udp.go: initConn ->
// DialFunc(firstMsg.Addr, firstMsg.Data) -> io.Hook(firstMsgData, &addr); Feed -> conn.WriteTo(dfMsg.Data)).
// So Sniffer.UDP must leave every byte of it alone, whatever the datagram is.

import (
	"bytes"
	"crypto/aes"
	"crypto/cipher"
	"crypto/hmac"
	"crypto/sha256"
	"encoding/base64"
	"encoding/hex"
	"encoding/json"
	"fmt"
	"net"
	"strings"
	"testing"

	"github.com/apernet/hysteria/extras/v2/utils"
	"verif.local/engine/evidence"
)

// ---------------------------------------------------------------------------------------------
// reference QUIC Initial protector, written from RFC 9001 5.2-5.4 / RFC 9369 3.3 (not from the code under test)

func c17HKDFExtract(salt, ikm []byte) []byte {
	m := hmac.New(sha256.New, salt)
	m.Write(ikm)
	return m.Sum(nil)
}

// c17ExpandLabel is HKDF-Expand-Label (RFC 8446 7.1) with an empty context, for outputs of <= 32 bytes.
func c17ExpandLabel(secret []byte, label string, n int) []byte {
	full := "tls13 " + label
	info := []byte{byte(n >> 8), byte(n), byte(len(full))}
	info = append(info, full...)
	info = append(info, 0x00)
	m := hmac.New(sha256.New, secret)
	m.Write(info)
	m.Write([]byte{0x01})
	return m.Sum(nil)[:n]
}

func c17Varint(v uint64, w int) []byte {
	switch w {
	case 1:
		return []byte{byte(v)}
	case 2:
		return []byte{0x40 | byte(v>>8), byte(v)}
	case 4:
		return []byte{0x80 | byte(v>>24), byte(v >> 16), byte(v >> 8), byte(v)}
	}
	return []byte{0xc0 | byte(v>>56), byte(v >> 48), byte(v >> 40), byte(v >> 32), byte(v >> 24), byte(v >> 16), byte(v >> 8), byte(v)}
}

const (
	c17V1 = 0x00000001
	c17V2 = 0x6b3343cf
)

// c17BuildInitial builds a protected client Initial packet. Returns the packet and the offset of the
// packet number field.
func c17BuildInitial(version uint32, dcid, scid, token []byte, pnLen int, pn uint32, plaintext []byte) ([]byte, int) {
	salt, _ := hex.DecodeString("38762cf7f55934b34d179ae6a4c80cadccbb7f0a")
	kl, il, hl := "quic key", "quic iv", "quic hp"
	typ := byte(0x00)
	if version == c17V2 {
		salt, _ = hex.DecodeString("0dede3def700a6db819381be6e269dcbf9bd2ed9")
		kl, il, hl = "quicv2 key", "quicv2 iv", "quicv2 hp"
		typ = 0x01
	}
	initial := c17HKDFExtract(salt, dcid)
	client := c17ExpandLabel(initial, "client in", 32)
	key := c17ExpandLabel(client, kl, 16)
	iv := c17ExpandLabel(client, il, 12)
	hp := c17ExpandLabel(client, hl, 16)

	hdr := []byte{0xc0 | typ<<4 | byte(pnLen-1)}
	hdr = append(hdr, byte(version>>24), byte(version>>16), byte(version>>8), byte(version))
	hdr = append(hdr, byte(len(dcid)))
	hdr = append(hdr, dcid...)
	hdr = append(hdr, byte(len(scid)))
	hdr = append(hdr, scid...)
	hdr = append(hdr, c17Varint(uint64(len(token)), 1)...)
	hdr = append(hdr, token...)
	hdr = append(hdr, c17Varint(uint64(pnLen+len(plaintext)+16), 2)...)
	pnOff := len(hdr)
	for i := pnLen - 1; i >= 0; i-- {
		hdr = append(hdr, byte(pn>>(8*i)))
	}
	blk, _ := aes.NewCipher(key)
	gcm, _ := cipher.NewGCM(blk)
	nonce := append([]byte(nil), iv...)
	for i := 0; i < 4; i++ {
		nonce[11-i] ^= byte(pn >> (8 * i))
	}
	pkt := gcm.Seal(append([]byte(nil), hdr...), nonce, plaintext, hdr)
	hpb, _ := aes.NewCipher(hp)
	mask := make([]byte, 16)
	hpb.Encrypt(mask, pkt[pnOff+4:pnOff+20])
	pkt[0] ^= mask[0] & 0x0f
	for i := 0; i < pnLen; i++ {
		pkt[pnOff+i] ^= mask[1+i]
	}
	return pkt, pnOff
}

func c17CryptoFrame(off int, data []byte) []byte {
	f := []byte{0x06}
	f = append(f, c17Varint(uint64(off), 2)...)
	f = append(f, c17Varint(uint64(len(data)), 2)...)
	return append(f, data...)
}

// upstream sniff_test.go QUIC v1 sample (server name www.notion.so)
const c17UpstreamQUIC = "ygAAAAEIwugWgPS7ulYAAES8hY891uwgGE9GG4CPOLd+nsDe28raso24lCSFmlFwYQG1uF39ikbL13/R9ZTghYmTl+jEbr6F9TxxRiOgpTmKRmh6aKZiIiVfy5pVRckovaI8lq0WRoW9xoFNTyYtQP8TVJ3bLCK+zUqpquEQSyWf7CE43ywayyMpE9UlIoPXFWCoopXLM1SvzdQ+17P51N9KR7m4emti4DWWTBLMQOvrwd2HEEkbiZdRO1wf6ZXJlIat5dN0R/6uod60OFPO+u+awvq67MoMReC7+5I/xWI+xx6o4JpnZNn6YPG8Gqi8hS6doNcAAdtD8h5eMLuHCCgkpX3QVjjfWtcOhtw9xKjU43HhUPwzUTv+JDLgwuTQCTmlfYlb3B+pk4b2I9si0tJ0SBuYaZ2VQPtZbj2hpGXw3gn11pbN8xsbKkQL50+Scd4dGJxWQlGaJHeaU5WOCkxLXc635z8m5XO/CBHVYPGp4pfwfwNUgbe5WF+3MaUIlDB8dMfsnrO0BmZPo379jVx0SFLTAiS8wAdHib1WNEY8qKYnTWuiyxYg1GZEhJt0nXmI+8f0eJq42DgHBWC+Rf5rRBr/Sf25o3mFAmTUaul0Woo9/CIrpT73B63N91xd9A77i4ru995YG8l9Hen+eLtpDU9Q9376nwMDYBzeYG9U/Rn0Urbm6q4hmAgV/xlNJ2rAyDS+yLnwqD6I0PRy8bZJEttcidb/SkOyrpgMiAzWeT+SO+c/k+Y8H0UTRa05faZUrhuUaym9wAcaIVRA6nFI+fejfjVp+7afFv+kWn3vCqQEij+CRHuxkltrixZMD2rfYj6NUW7TTYBtPRtuV/V0ZIDjRR26vr4K+0D84+l3c0mA/l6nmpP5kkco3nmpdjtQN6sGXL7+5o0nnsftX5d6/n5mLyEpP+AEDl1zk3iqkS62RsITwql6DMMoGbSDdUpMclCIeM0vlo3CkxGMO7QA9ruVeNddkL3EWMivl+uxO43sXEEqYQHVl4N75y63t05GOf7/gm9Kb/BJ8MpG9ViEkVYaskQCzi3D8bVpzo8FfTj8te8B6c3ikc/cm7r8k0ZcZpr+YiLGDYq+0ilHxpqJfmq8dPkSvxdzLcUSvy7+LMQ/TTobRSF7L4JhtDKck0+00vl9H35Tkh9N+MsVtpKdWyoqZ4XaK2Nx1M6AieczXpdFc0y7lYPoUfF4IeW8WzeVUclol5ElYjkyFz/lDOGAe1bF2g5AYaGWCPiGleVZknNdD5ihB8W8Mfkt1pEwq2S97AHrppqkf/VoIfZzeqH8wUFw8fDDrZIpnoa0rW7HfwIQaqJhPCyB9Z6TVbV4x9UWmaHfVAcinCK/7o10dtaj3rvEqcUC/iPceGq3Tqv/p9GGNJ+Ci2JBjXqNxYr893Llk75VdPD9pM6y1SM0P80oXNy32VMtafkFFST8GpvvqWcxUJ93kzaY8RmU1g3XFOImSU2utU6+FUQ2Pn5uLwcfT2cTYfTpPGh+WXjSbZ6trqdEMEsLHybuPo2UN4WpVLXVQma3kSaHQggcLlEip8GhEUAy/xCb2eKqhI4HkDpDjwDnDVKufWlnRaOHf58cc8Woi+WT8JTOkHC+nBEG6fKRPHDG08U5yayIQIjI"

// upstream internal/quic/packet_protector_test.go samples: draft-29 server Initial (unsupported version for
// the sniffer) and the ChaCha20 short-header packet
const (
	c17UpstreamServerInitial = "c7ff0000200008f067a5502a4262b5004075fb12ff07823a5d24534d906ce4c76782a2167e3479c0f7f6395dc2c91676302fe6d70bb7cbeb117b4ddb7d17349844fd61dae200b8338e1b932976b61d91e64a02e9e0ee72e3a6f63aba4ceeeec5be2f24f2d86027572943533846caa13e6f163fb257473d0eda5047360fd4a47efd8142fafc0f76"
	c17UpstreamShortHeader   = "4cfe4189655e5cd55c41f69080575d7999c25a5bfb"
)

type c17UDPSample struct {
	Name    string
	Data    []byte
	ExpHost string // "" = never rewritten
	PktEnd  int    // end of the Initial packet inside the datagram (bytes beyond are not covered by it)
	HdrLen  int    // offsets < HdrLen get every single-byte corruption; the body gets a stride
	Full    bool   // small enough for every offset x every value
}

var c17UDPSamplesCache []c17UDPSample

func c17UDPSamples() []c17UDPSample {
	if c17UDPSamplesCache != nil {
		return c17UDPSamplesCache
	}
	var out []c17UDPSample
	ch, _, _ := c17ClientHello("quic.example.org")
	pad := func(b []byte, n int) []byte {
		for len(b) < n {
			b = append(b, 0x00)
		}
		return b
	}
	dcid := []byte{0x83, 0x94, 0xc8, 0xf0, 0x3e, 0x51, 0x57, 0x08}
	// v1, one CRYPTO frame + PADDING, packet number 0 in 1 byte, 3 trailing bytes after the packet
	p1, _ := c17BuildInitial(c17V1, dcid, []byte{0x01, 0x02}, nil, 1, 0, pad(c17CryptoFrame(0, ch), 150))
	out = append(out, c17UDPSample{Name: "built-v1", Data: append(append([]byte(nil), p1...), 0x00, 0x00, 0x00), ExpHost: "quic.example.org", PktEnd: len(p1), HdrLen: 60, Full: true})
	// v2 (RFC 9369), token present, packet number 1 in 2 bytes
	p2, _ := c17BuildInitial(c17V2, dcid, nil, []byte{0xaa, 0xbb, 0xcc}, 2, 1, pad(c17CryptoFrame(0, ch), 150))
	out = append(out, c17UDPSample{Name: "built-v2", Data: p2, ExpHost: "quic.example.org", PktEnd: len(p2), HdrLen: 60, Full: true})
	// v1, ClientHello in two CRYPTO frames, second half first, PING and PADDING in between, 4-byte packet number 2
	h := len(ch) / 2
	var fr []byte
	fr = append(fr, c17CryptoFrame(h, ch[h:])...)
	fr = append(fr, 0x01, 0x00, 0x00)
	fr = append(fr, c17CryptoFrame(0, ch[:h])...)
	p3, _ := c17BuildInitial(c17V1, []byte{0x11, 0x22, 0x33, 0x44, 0x55, 0x66, 0x77, 0x88, 0x99, 0xaa, 0xbb, 0xcc, 0xdd, 0xee, 0xff, 0x00, 0x12, 0x34, 0x56, 0x78}, nil, nil, 4, 2, pad(fr, 160))
	out = append(out, c17UDPSample{Name: "built-v1-two-crypto-frames", Data: p3, ExpHost: "quic.example.org", PktEnd: len(p3), HdrLen: 60, Full: true})
	// v2 with a ClientHello without server_name: valid packet, nothing to rewrite to
	chNo, _, _ := c17ClientHello("")
	p4, _ := c17BuildInitial(c17V2, dcid, nil, nil, 1, 0, pad(c17CryptoFrame(0, chNo), 120))
	out = append(out, c17UDPSample{Name: "built-v2-no-sni", Data: p4, PktEnd: len(p4), HdrLen: 60})
	// v1 whose CRYPTO data is a ServerHello-typed message (first byte 0x02)
	sh := append([]byte(nil), ch...)
	sh[0] = 0x02
	p5, _ := c17BuildInitial(c17V1, dcid, nil, nil, 1, 0, pad(c17CryptoFrame(0, sh), 150))
	out = append(out, c17UDPSample{Name: "built-v1-not-client-hello", Data: p5, PktEnd: len(p5), HdrLen: 60})
	// v1 with only PADDING/PING frames (decrypts, no crypto data)
	p6, _ := c17BuildInitial(c17V1, dcid, nil, nil, 1, 0, pad([]byte{0x01}, 60))
	out = append(out, c17UDPSample{Name: "built-v1-no-crypto-frame", Data: p6, PktEnd: len(p6), HdrLen: 60})
	up, err := base64.StdEncoding.DecodeString(c17UpstreamQUIC)
	if err != nil {
		panic(err)
	}
	out = append(out, c17UDPSample{Name: "upstream-v1-sample", Data: up, ExpHost: "www.notion.so", PktEnd: len(up), HdrLen: 60})
	si, _ := hex.DecodeString(c17UpstreamServerInitial)
	out = append(out, c17UDPSample{Name: "upstream-draft29-server-initial", Data: si, PktEnd: len(si), HdrLen: 60})
	shp, _ := hex.DecodeString(c17UpstreamShortHeader)
	out = append(out, c17UDPSample{Name: "upstream-short-header", Data: shp, PktEnd: len(shp), HdrLen: 21})
	out = append(out, c17UDPSample{Name: "text", Data: []byte("oh my sweet summer child"), PktEnd: 24, HdrLen: 24})
	c17UDPSamplesCache = out
	return out
}

// ---------------------------------------------------------------------------------------------
// one case

type c17UDPCase struct {
	Kind    string `json:"kind"` // sample | truncate | corrupt | product
	Name    string `json:"name"`
	Data    []byte `json:"data"`
	ExpHost string `json:"exp_host,omitempty"`
	Filter  string `json:"port_filter"`
	RD      bool   `json:"rewrite_domain"`
	Addr    string `json:"req_addr"`
	Note    string `json:"note,omitempty"`
	Tail    []byte `json:"tail_in_capacity,omitempty"` // bytes that sit behind the datagram in the same buffer (cap > len)
	// Either: the datagram holds every byte of the ClientHello but some of them more than once; the property
	// allows both leaving the destination and rewriting it to ExpHost (kind "frames" only)
	Either bool `json:"either,omitempty"`
}

type c17UDPResult struct {
	clauseID string
	key      string
	detail   string
	hooked   bool
	rewrote  bool
}

func c17RunUDP(c *c17UDPCase) (res c17UDPResult) {
	val, stack := evidence.Catch(func() { res = c17RunUDPInner(c) })
	if val != nil {
		res.clauseID = "panic"
		res.detail = fmt.Sprintf("panic: %v at %s", val, evidence.PanicSite(stack))
	}
	if c.Kind == "frames" && res.clauseID != "" {
		res.detail += " (" + c.Note + ")" // which CRYPTO frames the Initial carried
	}
	return res
}

func c17RunUDPInner(c *c17UDPCase) (res c17UDPResult) {
	saved := append([]byte(nil), c.Data...)
	// the slice the server would forward next: fresh, cap == len - or, with Tail, the front of a larger
	// buffer whose remainder must be neither read (destination) nor written
	buf := make([]byte, len(c.Data)+len(c.Tail))
	copy(buf, c.Data)
	copy(buf[len(c.Data):], c.Tail)
	data := buf[:len(c.Data):len(buf)]
	sn := &Sniffer{RewriteDomain: c.RD, UDPPorts: c17Filter(c.Filter, c.Addr), TCPPorts: utils.PortUnion{{Start: 1, End: 1}}}
	fail := func(id, format string, a ...any) c17UDPResult {
		res.clauseID, res.detail = id, fmt.Sprintf(format, a...)
		return res
	}
	_, origPort, _ := net.SplitHostPort(c.Addr)
	addr := c.Addr
	// --- what udpIOImpl.Hook does
	var err error
	hooked := sn.Check(true, addr)
	if hooked {
		err = sn.UDP(data, &addr)
	}
	// ---
	res.hooked = hooked
	res.rewrote = addr != c.Addr
	// (1) forwarded unmodified
	if !bytes.Equal(data, saved) {
		changed, first := 0, -1
		for i := range data {
			if data[i] != saved[i] {
				changed++
				if first < 0 {
					first = i
				}
			}
		}
		if c.Kind == "sample" {
			res.key = fmt.Sprintf("changed=%d/%d", changed, len(saved))
		}
		return fail("datagram-modified", "the datagram that is forwarded next was modified by the hook: %d of %d bytes changed, first at offset %d (sent %s, now %s)", changed, len(saved), first, c17Hex(saved), c17Hex(data))
	}
	if !bytes.Equal(buf[len(c.Data):], c.Tail) {
		return fail("buffer-tail-modified", "bytes behind the datagram in the same buffer (cap > len) were modified")
	}
	tc := &c17TCPCase{Addr: c.Addr, Filter: c.Filter, RD: c.RD}
	if hooked != c17WantHooked(tc) {
		if hooked {
			return fail("hooked-against-filter", "Check(true,%q)=true with port filter %q RewriteDomain=%v", c.Addr, c.Filter, c.RD)
		}
	}
	if !hooked {
		if addr != c.Addr {
			return fail("unhooked-touched", "Check=false but addr %q->%q", c.Addr, addr)
		}
		return res
	}
	if err != nil {
		return fail("error-aborts-flow", "UDP returned error %q: the session is refused", err)
	}
	// (2) destination
	if c.Kind == "sample" {
		res.key = "dest=" + addr
	}
	_, newPort, perr := net.SplitHostPort(addr)
	if perr != nil {
		return fail("destination-malformed", "destination %q -> %q is no longer host:port (%v)", c.Addr, addr, perr)
	}
	if newPort != origPort {
		return fail("port-changed", "destination port changed: %q -> %q", c.Addr, addr)
	}
	want := c.Addr
	if c.ExpHost != "" {
		want = net.JoinHostPort(c.ExpHost, origPort)
	}
	if c.Either && addr == c.Addr {
		return res
	}
	if addr != want {
		if want == c.Addr {
			return fail("rewritten-without-evidence", "destination %q -> %q for a datagram that is not a complete, authentic client Initial carrying a server name", c.Addr, addr)
		}
		return fail("wrong-destination", "destination %q -> %q, expected %q", c.Addr, addr, want)
	}
	return res
}

// ---------------------------------------------------------------------------------------------
// CRYPTO frame layouts
//
// Added after the independently seeded change C17-7 (assembleCryptoFrames accepted the frames of an Initial when
// their lengths add up to the highest end offset, so a hole in the ClientHello went unnoticed when another range
// was carried twice, and the destination was rewritten from the zero-filled message). The dimension: HOW the
// ClientHello is spread over the CRYPTO frames of the one Initial packet - every sequence (order matters, ranges
// may repeat, overlap, leave holes, stop short) of up to N frames whose ranges [a,b) have both ends in a small set
// of cut points. The cut points are a uniform grid (so that repeated and missing ranges of equal length occur)
// plus the boundaries of the server name. Every frame carries the true ClientHello bytes of its range.

// c17FrameCuts: multiples of grid below n, the extra structural offsets, and n.
func c17FrameCuts(n, grid int, extra ...int) []int {
	in := map[int]bool{n: true}
	for x := 0; x < n; x += grid {
		in[x] = true
	}
	for _, x := range extra {
		if x > 0 && x < n {
			in[x] = true
		}
	}
	var out []int
	for x := 0; x <= n; x++ {
		if in[x] {
			out = append(out, x)
		}
	}
	return out
}

// c17FrameLayouts visits every sequence of 1..maxFrames ranges [a,b), a<b both in cuts, fewest frames first.
func c17FrameLayouts(cuts []int, maxFrames int, visit func(fr [][2]int) bool) {
	var ranges [][2]int
	for i, a := range cuts {
		for _, b := range cuts[i+1:] {
			ranges = append(ranges, [2]int{a, b})
		}
	}
	var rec func(cur [][2]int, left int) bool
	rec = func(cur [][2]int, left int) bool {
		if left == 0 {
			return visit(cur)
		}
		for _, r := range ranges {
			if !rec(append(cur, r), left-1) {
				return false
			}
		}
		return true
	}
	for n := 1; n <= maxFrames; n++ {
		if !rec(make([][2]int, 0, n), n) {
			return
		}
	}
}

// c17FrameCoverage is the reference: which bytes of the n-byte message the frames carry. complete = every byte
// is carried at least once; repeats = some byte is carried more than once. firstHole = first missing offset.
func c17FrameCoverage(n int, fr [][2]int) (complete, repeats bool, firstHole int) {
	seen := make([]byte, n)
	for _, r := range fr {
		for x := r[0]; x < r[1]; x++ {
			if seen[x] != 0 {
				repeats = true
			}
			seen[x] = 1
		}
	}
	firstHole = bytes.IndexByte(seen, 0)
	return firstHole < 0, repeats, firstHole
}

// c17UDPSig: family + sample + violated clause + outcome (one defect seen through many truncations/corruptions is
// one signature; the replay file holds one complete datagram).
func c17UDPSig(c *c17UDPCase, r *c17UDPResult) string {
	return fmt.Sprintf("udp/%s/%s/%s/%s", c.Kind, c.Name, r.clauseID, r.key)
}

// ---------------------------------------------------------------------------------------------
// enumeration

func c17EnumerateUDP(sh *evidence.Shard) {
	env := sh.Env()
	th := env.Thorough()
	samples := c17UDPSamples()
	lim := &c17Limiter{}
	var item int64
	mine := func() bool { item++; return env.Mine(item) }
	run1 := func(p *evidence.Part, c *c17UDPCase, shape string) {
		p.Evaluations++
		r := c17RunUDP(c)
		p.Class(c.Kind, c.Name, shape, "|", c.Filter, c.RD, c.Addr, "|", r.hooked, r.rewrote, r.clauseID)
		if r.rewrote {
			p.Count("destination_rewritten", 1)
		}
		if r.clauseID != "" {
			if lim.ok(c.Kind + "/" + c.Name + "/" + r.clauseID) {
				cc := *c
				sh.Violate(p.Name, c17UDPSig(c, &r), r.detail, &cc)
			} else {
				p.Count("further_violations_not_recorded", 1)
			}
		}
	}
	expired := func(p *evidence.Part, where string) bool {
		if item&255 == 0 && env.Expired() {
			p.Exhaustive = false
			p.Note("deadline reached in %s", where)
			return true
		}
		return false
	}
	primary := c17Cfg{Filter: "nil", RD: true, Host: "10.1.2.3"}

	// (1) every sample x every configuration
	p1 := sh.Part("udp-samples-x-filter", "enum")
	var names []string
	for _, s := range samples {
		names = append(names, fmt.Sprintf("%s(%dB)", s.Name, len(s.Data)))
	}
	p1.Alphabet = map[string]any{"samples": names, "port_filter": []string{"nil", "contains the port", "excludes the port"}, "rewrite_domain": []bool{true, false},
		"req_addr":       []string{"10.1.2.3:443", "[2001:db8::7]:443", "orig.example.net:443"},
		"port_spellings": "nil filter, RewriteDomain: the three hosts x ports {0,65535,65536,65616,131152,-1,0443,+80,4294967376}"}
	for _, s := range samples {
		for _, cfg := range c17Configs() {
			if !mine() {
				continue
			}
			c := &c17UDPCase{Kind: "sample", Name: s.Name, Data: s.Data, ExpHost: s.ExpHost, Filter: cfg.Filter, RD: cfg.RD, Addr: net.JoinHostPort(cfg.Host, "443")}
			run1(p1, c, "")
		}
		// every spelling of the port strconv.Atoi accepts (see the TCP part; seeded change C17-6)
		for _, port := range []string{"0", "65535", "65536", "65616", "131152", "-1", "0443", "+80", "4294967376"} {
			for _, host := range []string{"10.1.2.3", "2001:db8::7", "orig.example.net"} {
				if !mine() {
					continue
				}
				c := &c17UDPCase{Kind: "sample", Name: s.Name, Data: s.Data, ExpHost: s.ExpHost, Filter: "nil", RD: true, Addr: net.JoinHostPort(host, port), Note: "port=" + port}
				run1(p1, c, "")
			}
		}
	}

	// (1b) every layout of the ClientHello over the CRYPTO frames of one Initial.
	// Added after the independently seeded change C17-7 (frames accepted when their lengths sum to the highest
	// end offset: a hole hidden by a repeated range, destination rewritten from the zero-filled ClientHello).
	// Oracle = the property's own clauses through c17RunUDP: a datagram that does not hold every byte of the
	// ClientHello is truncated input -> destination untouched; one that holds every byte exactly once -> the
	// server name in it; every byte but some twice -> either.
	pf := sh.Part("udp-crypto-frame-layouts", "enum")
	{
		const sni = "quic.example.org"
		ch, sniStart, sniEnd := c17ClientHello(sni)
		grid, maxFrames := 16, 3
		type vcfg struct {
			name string
			ver  uint32
			cuts []int
			max  int
		}
		cfgs := []vcfg{
			{"crypto-frames-v1", c17V1, c17FrameCuts(len(ch), grid, sniStart, sniEnd), maxFrames},
			{"crypto-frames-v2", c17V2, c17FrameCuts(len(ch), grid, sniStart, sniEnd), maxFrames},
		}
		if th {
			// four frames over the same cut points; three frames over the finer grid + the handshake header end
			cfgs = append(cfgs,
				vcfg{"crypto-frames-v1", c17V1, c17FrameCuts(len(ch), grid, sniStart, sniEnd), 4},
				vcfg{"crypto-frames-v2-grid8", c17V2, c17FrameCuts(len(ch), 8, 4, sniStart, sniEnd), 3})
			cfgs[0].max = 0 // contained in the four-frame run
		}
		var alpha []string
		for _, cf := range cfgs {
			if cf.max > 0 {
				alpha = append(alpha, fmt.Sprintf("%s: cut points %v, 1..%d frames", cf.name, cf.cuts, cf.max))
			}
		}
		pf.Alphabet = map[string]any{"client_hello": fmt.Sprintf("%d bytes, server_name %q at [%d,%d)", len(ch), sni, sniStart, sniEnd),
			"crypto_frame_layout": "every sequence (any order; repeated, overlapping, missing and short ranges included) of CRYPTO frames [a,b), a<b in the cut points, each carrying the true bytes of its range, followed by PADDING, in one Initial",
			"cut_points":          alpha, "config": "nil filter, RewriteDomain, IPv4 destination"}
		dcid := []byte{0x83, 0x94, 0xc8, 0xf0, 0x3e, 0x51, 0x57, 0x08}
		stop := false
		for _, cf := range cfgs {
			if stop {
				break
			}
			c17FrameLayouts(cf.cuts, cf.max, func(fr [][2]int) bool {
				if !mine() {
					return true
				}
				if expired(pf, "crypto frame layouts of "+cf.name) {
					stop = true
					return false
				}
				var pl []byte
				note := ""
				for _, r := range fr {
					pl = append(pl, c17CryptoFrame(r[0], ch[r[0]:r[1]])...)
					note += fmt.Sprintf("[%d,%d)", r[0], r[1])
				}
				for len(pl) < 160 {
					pl = append(pl, 0x00)
				}
				pkt, _ := c17BuildInitial(cf.ver, dcid, []byte{0x01, 0x02}, nil, 2, 0, pl)
				complete, repeats, hole := c17FrameCoverage(len(ch), fr)
				c := &c17UDPCase{Kind: "frames", Name: cf.name, Data: pkt, Filter: primary.Filter, RD: primary.RD, Addr: net.JoinHostPort(primary.Host, "443")}
				shape := ""
				switch {
				case !complete:
					shape = "incomplete"
					c.Note = fmt.Sprintf("frames=%s: byte %d of the %d-byte ClientHello is not in the datagram", note, hole, len(ch))
				case repeats:
					shape = "complete+repeats"
					c.ExpHost, c.Either = sni, true
					c.Note = "frames=" + note + ": complete, some bytes carried twice"
				default:
					shape = "tiling"
					c.ExpHost = sni
					c.Note = "frames=" + note + ": complete, every byte once"
				}
				if !complete && hole >= sniEnd {
					shape += ",name-present"
				}
				run1(pf, c, fmt.Sprintf("%d frames,%s", len(fr), shape))
				return true
			})
		}
	}

	// (2) every truncation of every sample
	p2 := sh.Part("udp-truncations", "enum")
	p2.Alphabet = map[string]any{"samples": names, "truncation": "every length 0..len-1, as a fresh cap==len slice and as the front of a buffer that holds the rest of the packet behind len", "configs": "nil filter, RewriteDomain, IPv4 destination; lengths around the packet end also with every hooked configuration"}
	for _, s := range samples {
		for l := 0; l < len(s.Data); l++ {
			if !mine() {
				continue
			}
			if expired(p2, "truncations of "+s.Name) {
				return
			}
			exp := ""
			if l >= s.PktEnd {
				exp = s.ExpHost
			}
			c := &c17UDPCase{Kind: "truncate", Name: s.Name, Data: s.Data[:l], ExpHost: exp, Filter: primary.Filter, RD: primary.RD, Addr: net.JoinHostPort(primary.Host, "443"), Note: fmt.Sprintf("len=%d", l)}
			shape := "body"
			if l < s.HdrLen {
				shape = fmt.Sprintf("hdr%d", l)
			} else if l >= s.PktEnd-21 {
				shape = fmt.Sprintf("end-%d", s.PktEnd-l)
			}
			run1(p2, c, shape)
			// same truncation as the front of the buffer that still holds the rest of the packet behind len
			c2 := *c
			c2.Tail = s.Data[l:]
			c2.Note += ",rest-in-capacity"
			run1(p2, &c2, shape+"+cap")
		}
	}

	// (3) single-byte corruptions
	p3 := sh.Part("udp-single-byte-corruptions", "enum")
	p3.Alphabet = map[string]any{"samples": names,
		"offsets": "every offset of the first 60 bytes; body: every offset (built samples) or every 16th + the last 17 (other samples); thorough: every offset of every sample",
		"values":  "first 60 bytes: all 255 other byte values; body, quick: all 255 values on even offsets of the built samples, xor {0x01,0x80,0xff} elsewhere; thorough: all 255 values everywhere"}
	for _, s := range samples {
		n := len(s.Data)
		stride := 16
		if th {
			stride = 1
		}
		for off := 0; off < n; off++ {
			inHdr := off < s.HdrLen
			if !inHdr && !s.Full && off%stride != 0 && off < n-17 {
				continue
			}
			var vals []byte
			if inHdr || th || (s.Full && off%2 == 0) {
				for v := 1; v < 256; v++ {
					vals = append(vals, byte(v))
				}
			} else {
				vals = []byte{0x01, 0x80, 0xff}
			}
			for _, x := range vals {
				if !mine() {
					continue
				}
				if expired(p3, "corruptions of "+s.Name) {
					return
				}
				d := append([]byte(nil), s.Data...)
				d[off] ^= x
				exp := ""
				if off >= s.PktEnd {
					exp = s.ExpHost // bytes after the Initial packet are not part of it
				}
				c := &c17UDPCase{Kind: "corrupt", Name: s.Name, Data: d, ExpHost: exp, Filter: primary.Filter, RD: primary.RD, Addr: net.JoinHostPort(primary.Host, "443"), Note: fmt.Sprintf("off=%d,xor=%02x", off, x)}
				shape := "body"
				if inHdr {
					shape = fmt.Sprintf("hdr%d", off)
				} else if off >= s.PktEnd {
					shape = "trailing"
				}
				run1(p3, c, shape)
			}
		}
	}

	// (4) structured product of long-header look-alikes
	p4 := sh.Part("udp-long-header-product", "enum")
	firsts := []byte{0xc0, 0xc3, 0xd0, 0xd3, 0xe0, 0xf0, 0xff, 0x80, 0x8f, 0x40, 0x43, 0x00, 0x7f}
	versions := []uint32{0, 1, 2, c17V2, 0xff00001d, 0xffffffff}
	dcils := []int{0, 1, 8, 20, 21, 255}
	scils := []int{0, 1, 20, 255}
	tokens := [][]byte{{0x00}, {0x01, 0xaa}, {0x40, 0x05, 1, 2, 3, 4, 5}, {0x3f}, {0x7f, 0xff}, {0x80, 0x00, 0x00, 0x01, 0xee}, {0xc0, 0, 0, 0, 0, 0, 0, 0x02, 0xee, 0xee}, {0xff, 0xff, 0xff, 0xff, 0xff, 0xff, 0xff, 0xff}}
	lengths := [][]byte{{0x00}, {0x01}, {0x13}, {0x14}, {0x15}, {0x3f}, {0x40, 0x40}, {0x7f, 0xff}, {0xbf, 0xff, 0xff, 0xff}, {0xff, 0xff, 0xff, 0xff, 0xff, 0xff, 0xff, 0xff}, {0x40}}
	bodies := []int{0, 1, 19, 20, 21, 64}
	fills := []byte{0x00, 0xa7}
	if !th {
		firsts = []byte{0xc0, 0xc3, 0xd0, 0xe0, 0xff, 0x80, 0x40, 0x00}
		versions = []uint32{0, 1, c17V2, 0xff00001d}
		dcils = []int{0, 8, 20, 255}
		scils = []int{0, 20}
		fills = []byte{0xa7}
	}
	p4.Alphabet = map[string]any{"first_byte": fmt.Sprintf("%x", firsts), "version": fmt.Sprintf("%x", versions), "dcid_len": dcils, "scid_len": scils,
		"token_varint_and_bytes": len(tokens), "length_varint": len(lengths), "body_len": bodies, "body_fill": fmt.Sprintf("%x", fills),
		"note": "connection-id length bytes are written as given; connection-id bytes are present up to min(len, 20) so that lengths > remaining are also produced"}
	for _, fb := range firsts {
		for _, ver := range versions {
			for _, dl := range dcils {
				for _, sl := range scils {
					for ti, tok := range tokens {
						for li, ln := range lengths {
							for _, bl := range bodies {
								for _, fill := range fills {
									if !mine() {
										continue
									}
									if expired(p4, "long-header product") {
										return
									}
									d := []byte{fb, byte(ver >> 24), byte(ver >> 16), byte(ver >> 8), byte(ver), byte(dl)}
									d = append(d, bytes.Repeat([]byte{0x1d}, min(dl, 20))...)
									d = append(d, byte(sl))
									d = append(d, bytes.Repeat([]byte{0x5c}, min(sl, 20))...)
									d = append(d, tok...)
									d = append(d, ln...)
									d = append(d, bytes.Repeat([]byte{fill}, bl)...)
									c := &c17UDPCase{Kind: "product", Name: "long-header", Data: d, Filter: primary.Filter, RD: primary.RD, Addr: net.JoinHostPort(primary.Host, "443"),
										Note: fmt.Sprintf("fb=%02x,ver=%x,dcil=%d,scil=%d,tok=%d,len=%d,body=%d,fill=%02x", fb, ver, dl, sl, ti, li, bl, fill)}
									run1(p4, c, fmt.Sprintf("%02x|%x|%d|%d|%d|%d", fb, ver, dl, sl, ti, li))
								}
							}
						}
					}
				}
			}
		}
	}
}

func TestVerifC17UDP(t *testing.T) {
	evidence.Main(t, "C17", evidence.Seq{
		Run: c17EnumerateUDP,
		Replay: func(part string, raw json.RawMessage) (bool, bool, string) {
			if !strings.HasPrefix(part, "udp-") {
				return false, false, ""
			}
			var c c17UDPCase
			if err := json.Unmarshal(raw, &c); err != nil {
				return true, false, err.Error()
			}
			r := c17RunUDP(&c)
			return true, r.clauseID != "", r.clauseID + ": " + r.detail
		},
	})
}
