package sniff

// C17 harness, TCP half (injected by overlay into extras/sniff).
//
// Sniffer.Check + Sniffer.TCP are driven exactly the way core/server.handleTCPRequest drives
// them (Check; if hooked: TCP(stream, &reqAddr); on a nil error putback is written to the
// target and the rest of the stream is relayed) against a scripted server.HyStream that owns
// the bytes "the client sent", the way they are chunked into reads, and the read index at which
// the read deadline fires. No clock, no goroutine, no socket.

import (
	"bytes"
	"crypto/tls"
	"encoding/base64"
	"encoding/json"
	"errors"
	"fmt"
	"io"
	"net"
	"os"
	"strings"
	"testing"
	"time"

	quic "github.com/apernet/quic-go"

	"github.com/apernet/hysteria/core/v2/server"
	"github.com/apernet/hysteria/extras/v2/utils"
	"verif.local/engine/enum"
	"verif.local/engine/evidence"
)

// ---------------------------------------------------------------------------------------------
// scripted stream

// c17Timeout is what a QUIC stream returns once its read deadline has passed (quic-go's
// deadlineError: net.Error, Timeout()==true, unwraps to os.ErrDeadlineExceeded).
type c17Timeout struct{}

func (c17Timeout) Error() string   { return "c17: deadline exceeded" }
func (c17Timeout) Timeout() bool   { return true }
func (c17Timeout) Temporary() bool { return true }
func (c17Timeout) Unwrap() error   { return os.ErrDeadlineExceeded }

var (
	_ net.Error       = c17Timeout{}
	_ server.HyStream = (*c17Stream)(nil)
)

var errC17NoDeadline = errors.New("c17: read would block forever (no read deadline armed)")

const (
	c17EndBlock   = 0 // the client sent nothing more and keeps the stream open: a read blocks until the deadline
	c17EndEOF     = 1 // the client closed its write side: (0, io.EOF) after the last byte
	c17EndEOFData = 2 // as 1, but the FIN arrives with the last chunk: (n>0, io.EOF) - quic-go does this
	c17EndReset   = 3 // the client reset the stream after the last byte: (0, some other error)
)

var errC17Reset = errors.New("c17: stream reset by peer")

type c17Stream struct {
	data     []byte
	cuts     []int // offsets at which a read ends
	fireAt   int   // index of the Read call at which the deadline fires; -1 = never
	withData bool  // the firing Read delivers its chunk together with the timeout error (quic-go: bytesRead>0, errDeadline)
	end      int
	setErr   error // returned by the first SetReadDeadline
	readMax  int   // > 0: no Read hands out more than this many bytes (on top of cuts); 0 = only cuts and len(p) bound a read

	pos          int
	reads        int
	fired        bool
	deadlines    []time.Time
	unarmedReads int // Read calls issued while no deadline was armed
	writes       int
	closed       bool
}

func (s *c17Stream) armed() bool {
	return len(s.deadlines) > 0 && !s.deadlines[len(s.deadlines)-1].IsZero()
}

func (s *c17Stream) Read(p []byte) (int, error) {
	idx := s.reads
	s.reads++
	armed := s.armed()
	if !armed {
		s.unarmedReads++
	}
	if armed && s.fired {
		return 0, c17Timeout{}
	}
	if armed && idx == s.fireAt && !s.withData {
		s.fired = true
		return 0, c17Timeout{}
	}
	if len(p) == 0 {
		return 0, nil
	}
	if s.pos >= len(s.data) {
		switch s.end {
		case c17EndEOF, c17EndEOFData:
			return 0, io.EOF
		case c17EndReset:
			return 0, errC17Reset
		}
		if armed {
			s.fired = true
			return 0, c17Timeout{}
		}
		return 0, errC17NoDeadline
	}
	end := len(s.data)
	for _, c := range s.cuts {
		if c > s.pos {
			end = c
			break
		}
	}
	if s.readMax > 0 && end-s.pos > s.readMax {
		end = s.pos + s.readMax
	}
	n := copy(p, s.data[s.pos:end])
	s.pos += n
	if armed && idx == s.fireAt && s.withData {
		s.fired = true
		return n, c17Timeout{}
	}
	if s.pos == len(s.data) && s.end == c17EndEOFData {
		return n, io.EOF
	}
	return n, nil
}

func (s *c17Stream) SetReadDeadline(t time.Time) error {
	if len(s.deadlines) == 0 && s.setErr != nil {
		s.deadlines = append(s.deadlines, time.Time{})
		return s.setErr
	}
	s.deadlines = append(s.deadlines, t)
	if t.IsZero() {
		s.fired = false
	}
	return nil
}

func (s *c17Stream) StreamID() quic.StreamID            { return 0 }
func (s *c17Stream) Write(p []byte) (int, error)        { s.writes++; return len(p), nil }
func (s *c17Stream) Close() error                       { s.closed = true; return nil }
func (s *c17Stream) SetWriteDeadline(t time.Time) error { return nil }
func (s *c17Stream) SetDeadline(t time.Time) error      { _ = s.SetReadDeadline(t); return nil }

// ---------------------------------------------------------------------------------------------
// templates

type c17Template struct {
	Name    string
	Data    []byte
	ExpHost string // host the destination must become once Data[:NeedLen] has been delivered ("" = never rewritten)
	NeedLen int    // length of the prefix that contains the complete header block / TLS record
	Port    string // port of the original destination used with this template
	Bounds  []int  // structural boundaries (cuts are drawn from these +-1 for long templates)
	Heavy   bool   // thorough tier only
	Either  bool   // the property leaves it open whether ExpHost counts as "present": unchanged and ExpHost are both accepted
}

func c17U16(v int) []byte { return []byte{byte(v >> 8), byte(v)} }

// c17ClientHello hand-assembles a TLS 1.3 ClientHello handshake message (RFC 8446 4.1.2) with the
// given server_name ("" = no server_name extension). Returns the message and the offsets of the
// host name inside it.
func c17ClientHello(sni string) (msg []byte, sniStart, sniEnd int) {
	var exts []byte
	// supported_versions: TLS 1.3
	exts = append(exts, 0x00, 0x2b, 0x00, 0x03, 0x02, 0x03, 0x04)
	sniOffInExts := -1
	if sni != "" {
		name := []byte(sni)
		exts = append(exts, 0x00, 0x00)
		exts = append(exts, c17U16(len(name)+5)...)
		exts = append(exts, c17U16(len(name)+3)...)
		exts = append(exts, 0x00)
		exts = append(exts, c17U16(len(name))...)
		sniOffInExts = len(exts)
		exts = append(exts, name...)
	}
	// supported_groups x25519, signature_algorithms ed25519 (make it look like a usable hello)
	exts = append(exts, 0x00, 0x0a, 0x00, 0x04, 0x00, 0x02, 0x00, 0x1d)
	exts = append(exts, 0x00, 0x0d, 0x00, 0x04, 0x00, 0x02, 0x08, 0x07)
	var body []byte
	body = append(body, 0x03, 0x03)
	for i := 0; i < 32; i++ {
		body = append(body, byte(0xa0+i))
	}
	body = append(body, 0x00)                   // session id
	body = append(body, 0x00, 0x02, 0x13, 0x01) // cipher suites
	body = append(body, 0x01, 0x00)             // compression
	body = append(body, c17U16(len(exts))...)
	extsOff := len(body)
	body = append(body, exts...)
	msg = append(msg, 0x01, byte(len(body)>>16), byte(len(body)>>8), byte(len(body)))
	msg = append(msg, body...)
	if sniOffInExts >= 0 {
		sniStart = 4 + extsOff + sniOffInExts
		sniEnd = sniStart + len(sni)
	}
	return msg, sniStart, sniEnd
}

func c17TLSRecord(typ byte, ver byte, declared int, body []byte) []byte {
	r := []byte{typ, 0x03, ver}
	r = append(r, c17U16(declared)...)
	return append(r, body...)
}

// c17CaptureConn captures the first flight a crypto/tls client writes.
type c17CaptureConn struct{ out bytes.Buffer }

func (c *c17CaptureConn) Read(p []byte) (int, error)         { return 0, io.EOF }
func (c *c17CaptureConn) Write(p []byte) (int, error)        { c.out.Write(p); return len(p), nil }
func (c *c17CaptureConn) Close() error                       { return nil }
func (c *c17CaptureConn) LocalAddr() net.Addr                { return &net.TCPAddr{} }
func (c *c17CaptureConn) RemoteAddr() net.Addr               { return &net.TCPAddr{} }
func (c *c17CaptureConn) SetDeadline(t time.Time) error      { return nil }
func (c *c17CaptureConn) SetReadDeadline(t time.Time) error  { return nil }
func (c *c17CaptureConn) SetWriteDeadline(t time.Time) error { return nil }

type c17ConstReader struct{}

func (c17ConstReader) Read(p []byte) (int, error) {
	for i := range p {
		p[i] = 0x5a
	}
	return len(p), nil
}

// c17RealClientHello returns the first TLS record written by a crypto/tls client for serverName.
func c17RealClientHello(serverName string) []byte {
	cc := &c17CaptureConn{}
	c := tls.Client(cc, &tls.Config{ServerName: serverName, Rand: c17ConstReader{}, InsecureSkipVerify: true, MinVersion: tls.VersionTLS12})
	_ = c.Handshake() // fails at the first read (EOF) after the ClientHello has been written
	b := cc.out.Bytes()
	if len(b) < 5 || b[0] != 0x16 {
		panic("c17: crypto/tls did not write a handshake record")
	}
	n := int(b[3])<<8 | int(b[4])
	if len(b) < 5+n {
		panic("c17: short ClientHello capture")
	}
	return append([]byte(nil), b[:5+n]...)
}

// upstream sniff_test.go TLS sample (server name ipinfo.io)
const c17UpstreamTLS = "FgMBARcBAAETAwPJL2jlt1OAo+Rslkjv/aqKiTthKMaCKg2Gvd+uALDbDCDdY+UIk8ouadEB9fC3j52Y1i7SJZqGIgBRIS6kKieYrAAoEwITAcAswCvAMMAvwCTAI8AowCfACsAJwBTAEwCdAJwAPQA8ADUALwEAAKIAAAAOAAwAAAlpcGluZm8uaW8ABQAFAQAAAAAAKwAJCAMEAwMDAgMBAA0AGgAYCAQIBQgGBAEFAQIBBAMFAwIDAgIGAQYDACMAAAAKAAgABgAdABcAGAAQAAsACQhodHRwLzEuMQAzACYAJAAdACBguQbqNJNyamYxYcrBFpBP7pWv5TgZsP9gwGtMYNKVBQAxAAAAFwAA/wEAAQAALQACAQE="

func c17HTTPBounds(d []byte, extra ...int) []int {
	b := []int{3}
	if i := bytes.Index(d, []byte("\r\n")); i >= 0 {
		b = append(b, i, i+2)
	}
	if i := bytes.Index(d, []byte("Host:")); i >= 0 {
		b = append(b, i, i+5, i+6)
		if j := bytes.Index(d[i:], []byte("\r\n")); j >= 0 {
			b = append(b, i+j, i+j+2)
		}
	}
	if i := bytes.Index(d, []byte("\r\n\r\n")); i >= 0 {
		b = append(b, i, i+2, i+4)
	}
	return append(b, extra...)
}

func c17HeaderEnd(d []byte) int {
	if i := bytes.Index(d, []byte("\r\n\r\n")); i >= 0 {
		return i + 4
	}
	return len(d) + 1
}

var c17TemplatesCache []c17Template

func c17Templates() []c17Template {
	if c17TemplatesCache != nil {
		return c17TemplatesCache
	}
	var ts []c17Template
	addHTTP := func(name, text, exp string, heavy bool, extra ...int) {
		d := []byte(text)
		need := c17HeaderEnd(d)
		if exp == "" {
			need = 0
		}
		ts = append(ts, c17Template{Name: name, Data: d, ExpHost: exp, NeedLen: need, Port: "80", Bounds: c17HTTPBounds(d, extra...), Heavy: heavy})
	}
	// shortest first
	ts = append(ts,
		c17Template{Name: "empty", Data: []byte{}, Port: "8443"},
		c17Template{Name: "one-letter", Data: []byte("G"), Port: "80"},
		c17Template{Name: "two-letters", Data: []byte("GE"), Port: "80"},
		c17Template{Name: "tls-2-bytes", Data: []byte{0x16, 0x03}, Port: "443"},
		c17Template{Name: "tls-hdr-3", Data: []byte{0x16, 0x03, 0x01}, Port: "443"},
		c17Template{Name: "tls-hdr-4", Data: []byte{0x16, 0x03, 0x01, 0x00}, Port: "443"},
		c17Template{Name: "tls-len0", Data: append(c17TLSRecord(0x16, 0x01, 0, nil), 'X', 'Y', 'Z'), Port: "443", Bounds: []int{3, 5}},
		c17Template{Name: "tls-len0-bare", Data: c17TLSRecord(0x16, 0x01, 0, nil), Port: "443", Bounds: []int{3, 5}},
		c17Template{Name: "garbage-10", Data: []byte("\x01\x02\x03\x04\x05\x06\x07\x08\x09\x0a"), Port: "8443", Bounds: []int{3}},
		c17Template{Name: "not-tls-ver-0a", Data: []byte{0x16, 0x03, 0x0a, 0x00, 0x02, 0x01, 0x00, 0x99}, Port: "443", Bounds: []int{3, 5}},
		c17Template{Name: "not-tls-type-15", Data: []byte{0x15, 0x03, 0x03, 0x00, 0x02, 0x01, 0x00, 0x99}, Port: "443", Bounds: []int{3, 5}},
		c17Template{Name: "not-tls-type-18", Data: []byte{0x18, 0x03, 0x03, 0x00, 0x02, 0x01, 0x00, 0x99}, Port: "443", Bounds: []int{3, 5}},
		c17Template{Name: "tls-ver-09-short", Data: []byte{0x16, 0x03, 0x09, 0x00, 0x03, 0x01, 0x00, 0x00, 0x77, 0x88}, Port: "443", Bounds: []int{3, 5, 8}},
		c17Template{Name: "three-letters-garbage", Data: []byte("GET\x00\x01\x02\xff\xfe\r\n\r\nzz"), Port: "80", Bounds: []int{3}},
		c17Template{Name: "two-letters-digit", Data: []byte("GE7 / HTTP/1.1"), Port: "80", Bounds: []int{3}},
	)
	// TLS application data record (type 0x17), complete, followed by the start of the next record
	app := c17TLSRecord(0x17, 0x03, 16, bytes.Repeat([]byte{0xd1}, 16))
	ts = append(ts, c17Template{Name: "tls-type17", Data: append(app, 0x17, 0x03, 0x03), Port: "443", Bounds: []int{3, 5, 21}})
	// declared length exceeds what arrives (the arrived part even contains the whole server_name)
	chMsg, s0, s1 := c17ClientHello("sni.example.org")
	short := c17TLSRecord(0x16, 0x01, len(chMsg)+300, chMsg)
	ts = append(ts, c17Template{Name: "tls-declared-longer", Data: short, Port: "443", Bounds: []int{3, 5, 9, 5 + s0, 5 + s1}})
	huge := c17TLSRecord(0x16, 0x03, 0xffff, []byte{0x01, 0x00, 0xff, 0xfb, 0x03})
	ts = append(ts, c17Template{Name: "tls-declared-65535", Data: huge, Port: "443", Bounds: []int{3, 5}})
	// hand-assembled ClientHello with SNI, followed by 4 bytes the sniffer must leave on the stream
	rec := c17TLSRecord(0x16, 0x01, len(chMsg), chMsg)
	ts = append(ts, c17Template{Name: "tls-sni-small", Data: append(append([]byte(nil), rec...), 0x14, 0x03, 0x03, 0x00), ExpHost: "sni.example.org", NeedLen: len(rec), Port: "443",
		Bounds: []int{3, 5, 9, 5 + s0, 5 + s1, len(rec)}})
	// declared record length one short of / one beyond the ClientHello: the name is in the bytes, the record is not a
	// well-formed ClientHello record - either outcome is accepted for the destination, nothing may be lost
	recM := c17TLSRecord(0x16, 0x01, len(chMsg)-1, chMsg)
	ts = append(ts, c17Template{Name: "tls-declared-minus-1", Data: recM, ExpHost: "sni.example.org", NeedLen: len(recM) - 1, Port: "443", Either: true, Bounds: []int{3, 5, 9, len(recM) - 1}})
	recP := c17TLSRecord(0x16, 0x01, len(chMsg)+1, append(append([]byte(nil), chMsg...), 0x00, 0x16))
	ts = append(ts, c17Template{Name: "tls-declared-plus-1", Data: recP, ExpHost: "sni.example.org", NeedLen: len(recP) - 1, Port: "443", Either: true, Bounds: []int{3, 5, 9, len(recP) - 2, len(recP) - 1}})
	// an application-data record (0x17) whose body happens to be a ClientHello
	ts = append(ts, c17Template{Name: "tls-type17-hello-body", Data: c17TLSRecord(0x17, 0x03, len(chMsg), chMsg), ExpHost: "sni.example.org", NeedLen: 5 + len(chMsg), Port: "443", Either: true, Bounds: []int{3, 5, 9, 5 + s0, 5 + s1}})
	noSNI, _, _ := c17ClientHello("")
	recNo := c17TLSRecord(0x16, 0x03, len(noSNI), noSNI)
	ts = append(ts, c17Template{Name: "tls-no-sni", Data: recNo, Port: "443", Bounds: []int{3, 5, 9, len(recNo)}})
	// a ClientHello cut across two records: the first record alone is not a ClientHello
	half := len(chMsg) / 2
	two := append(c17TLSRecord(0x16, 0x01, half, chMsg[:half]), c17TLSRecord(0x16, 0x01, len(chMsg)-half, chMsg[half:])...)
	ts = append(ts, c17Template{Name: "tls-hello-in-two-records", Data: two, Port: "443", Bounds: []int{3, 5, 5 + half, 10 + half}})
	// HTTP
	addHTTP("http-host", "POST /hello HTTP/1.1\r\nHost: example.com\r\nContent-Length: 9\r\n\r\nparam=val", "example.com", false)
	addHTTP("http-host-port", "GET / HTTP/1.1\r\nHost: example.com:8080\r\nAccept: */*\r\n\r\n", "example.com", false)
	addHTTP("http-host-last-no-body", "GET /a HTTP/1.0\r\nHost: last.example\r\n\r\n", "last.example", false)
	addHTTP("http-no-host", "GET /index.html HTTP/1.1\r\nUser-Agent: c17\r\n\r\nHost: body.example\r\n\r\n", "", false)
	addHTTP("http-host-ipv6-port", "GET / HTTP/1.1\r\nHost: [2001:db8::99]:8080\r\n\r\n", "2001:db8::99", false)
	addHTTP("http-host-ipv6-no-port", "GET / HTTP/1.1\r\nHost: [2001:db8::99]\r\n\r\n", "2001:db8::99", false)
	// an IPv6 literal WITHOUT brackets in the Host header (not RFC form, but net/http parses it): the destination is
	// either left alone or becomes exactly that literal - never a piece of it cut at some colon (seed C17-14)
	for _, v := range [][2]string{{"http-host-ipv6-unbracketed", "2001:db8::99"}, {"http-host-ipv6-unbracketed-loopback", "::1"}, {"http-host-ipv6-unbracketed-full", "2001:db8:0:0:0:0:0:99"}} {
		d := []byte("GET / HTTP/1.1\r\nHost: " + v[1] + "\r\n\r\n")
		ts = append(ts, c17Template{Name: v[0], Data: d, ExpHost: v[1], NeedLen: c17HeaderEnd(d), Port: "80", Either: true, Bounds: c17HTTPBounds(d)})
	}
	// absolute-form request target: its authority is the host the client asks for (RFC 7230 5.4), no Host header at all
	addHTTP("http-absolute-uri", "GET http://abs.example/x HTTP/1.1\r\nAccept: */*\r\n\r\n", "abs.example", false)
	addHTTP("http-letters-not-http", "Wait It's All Ohio? Always Has Been.", "", false)
	addHTTP("http-header-unterminated", "GET / HTTP/1.1\r\nHost: never.example\r\nX-A: b\r\n", "", false)
	pad := strings.Repeat("a", 4200)
	big := "GET /big HTTP/1.1\r\nX-Pad: " + pad + "\r\nHost: big.example\r\n\r\nBODYBODY"
	addHTTP("http-header-over-4k", big, "big.example", false, 4095, 4096, 4099)
	many := "GET /many HTTP/1.1\r\n"
	for i := 0; i < 150; i++ {
		many += fmt.Sprintf("X-H%03d: %s\r\n", i, strings.Repeat("v", 24))
	}
	many += "Host: many.example\r\n\r\n"
	addHTTP("http-many-headers-over-4k", many, "many.example", false, 4096, 4099, 8192, 8195)
	// real crypto/tls ClientHello and the upstream sample
	realCH := c17RealClientHello("real.example.net")
	ri := bytes.Index(realCH, []byte("real.example.net"))
	ts = append(ts, c17Template{Name: "tls-sni-cryptotls", Data: realCH, ExpHost: "real.example.net", NeedLen: len(realCH), Port: "443",
		Bounds: []int{3, 5, 9, ri, ri + 16, len(realCH)}})
	up, err := base64.StdEncoding.DecodeString(c17UpstreamTLS)
	if err != nil {
		panic(err)
	}
	ui := bytes.Index(up, []byte("ipinfo.io"))
	ts = append(ts, c17Template{Name: "tls-sni-upstream-sample", Data: up, ExpHost: "ipinfo.io", NeedLen: len(up), Port: "443", Bounds: []int{3, 5, 9, ui, ui + 9, len(up)}})
	// header block larger than sniffMaxHTTPHeaderBytes: the limit reader stops the parser, nothing may be lost
	over := "GET /huge HTTP/1.1\r\n"
	line := "X-Fill: " + strings.Repeat("f", 1000) + "\r\n"
	for len(over) < sniffMaxHTTPHeaderBytes+2000 {
		over += line
	}
	over += "Host: toolate.example\r\n\r\n"
	ts = append(ts, c17Template{Name: "http-header-over-limit", Data: []byte(over), Port: "80", Heavy: true,
		Bounds: []int{3, 4099, sniffMaxHTTPHeaderBytes, sniffMaxHTTPHeaderBytes + 3}})
	c17TemplatesCache = ts
	return ts
}

// c17LimitTemplates: HTTP first flights whose header block (request line .. blank line) is exactly
// hdr bytes long, for hdr around and above the sniffer's header limit (sniffMaxHTTPHeaderBytes),
// with or without a body behind it. The Host line comes second, so the name is "present in those
// bytes" long before the limit; whether a sniffer that stops at its limit still recognises it is
// left open (Either): the transparency clause is what these are for.
// (Added after the independently seeded change C17-13: the HTTP branch enforced its 256 KiB cap
// after the stream read instead of before it, so the tail of the read that crossed the cap was
// consumed from the stream and neither put back nor left unread.)
var c17LimitTemplatesCache []c17Template

func c17LimitTemplates() []c17Template {
	if c17LimitTemplatesCache != nil {
		return c17LimitTemplatesCache
	}
	const lim = sniffMaxHTTPHeaderBytes
	var ts []c17Template
	for _, v := range []struct {
		name      string
		hdr, body int
	}{
		{"http-header-limit-minus-1+body", lim - 1, 5000},
		{"http-header-limit+body", lim, 5000},
		{"http-header-limit-bare", lim, 0},
		{"http-header-limit-plus-1+body", lim + 1, 5000},
		{"http-header-limit-plus-1-bare", lim + 1, 0},
		{"http-header-limit-plus-4096+body", lim + 4096, 5000},
		{"http-header-300k+body", 300*1024 - 5000, 5000},
	} {
		var b bytes.Buffer
		b.WriteString("POST /limit HTTP/1.1\r\nHost: limit.example\r\n")
		left := v.hdr - b.Len() - 2 // bytes of filler header lines before the blank line
		for i := 0; left > 0; i++ {
			n := 1000
			if left < 1000+20 {
				n = left
			}
			line := fmt.Sprintf("X-Fill-%04d: ", i)
			b.WriteString(line)
			b.WriteString(strings.Repeat("f", n-len(line)-2))
			b.WriteString("\r\n")
			left -= n
		}
		b.WriteString("\r\n")
		if b.Len() != v.hdr {
			panic(fmt.Sprintf("c17: limit template %s: header block of %d bytes, wanted %d", v.name, b.Len(), v.hdr))
		}
		for i := 0; i < v.body; i++ {
			b.WriteByte(byte('0' + i%77)) // no run repeats at a distance of 4096 or of a read size
		}
		ts = append(ts, c17Template{Name: v.name, Data: b.Bytes(), ExpHost: "limit.example", NeedLen: v.hdr, Port: "80", Either: true})
	}
	c17LimitTemplatesCache = ts
	return ts
}

// ---------------------------------------------------------------------------------------------
// one case

type c17TCPCase struct {
	Template string `json:"template"`
	Data     []byte `json:"data"`
	ExpHost  string `json:"exp_host,omitempty"`
	NeedLen  int    `json:"need_len,omitempty"`
	Either   bool   `json:"either,omitempty"`
	Cuts     []int  `json:"cuts,omitempty"`
	ReadMax  int    `json:"read_max,omitempty"` // > 0: the stream hands out at most this many bytes per Read
	FireAt   int    `json:"fire_at_read"`       // -1 = never
	WithData bool   `json:"fire_with_data,omitempty"`
	End      int    `json:"end"`
	Filter   string `json:"port_filter"` // nil | has | not
	RD       bool   `json:"rewrite_domain"`
	Addr     string `json:"req_addr"`
	SetErr   bool   `json:"set_deadline_fails,omitempty"`
}

func c17Filter(kind, addr string) utils.PortUnion {
	_, ps, _ := net.SplitHostPort(addr)
	var p int
	fmt.Sscanf(ps, "%d", &p)
	switch kind {
	case "has":
		return utils.PortUnion{{Start: 1, End: 1}, {Start: uint16(p), End: uint16(p)}, {Start: 60000, End: 60010}}
	case "not":
		return utils.PortUnion{{Start: 1, End: uint16(p - 1)}, {Start: uint16(p + 1), End: 65535}}
	}
	return nil
}

type c17TCPResult struct {
	clauseID string // "" = holds
	key      string // outcome part of the signature
	detail   string
	reads    int
	hooked   bool
	rewrote  bool
	pos      int
}

// c17WantHooked is the reference for Check, from the Sniffer field docs: a port filter of nil means all
// ports; RewriteDomain=false leaves destinations that already are domains alone.
func c17WantHooked(c *c17TCPCase) bool {
	host, _, err := net.SplitHostPort(c.Addr)
	if err != nil {
		return false
	}
	if c.Filter == "not" {
		return false
	}
	return c.RD || net.ParseIP(host) != nil
}

var c17BystanderData [][]byte

// c17Bystanders: first bytes of other clients' flows (a TLS ClientHello for another name, one with a
// short record, an HTTP request), every byte different from what the templates send at that offset.
func c17Bystanders() [][]byte {
	if c17BystanderData == nil {
		hello, _, _ := c17ClientHello("bystander.invalid")
		for i := 6; i < len(hello); i++ {
			hello[i] ^= 0x5a // not parseable any more, still a TLS record of the declared length
		}
		c17BystanderData = [][]byte{
			c17TLSRecord(0x16, 0x03, len(hello), hello),
			c17TLSRecord(0x16, 0x01, 4000, bytes.Repeat([]byte{0xee}, 4000)),
			c17TLSRecord(0x16, 0x02, 9, bytes.Repeat([]byte{0xdd}, 3)),
			[]byte("OPTIONS /bystander HTTP/1.1\r\nHost: bystander.invalid\r\n\r\n"),
		}
	}
	return c17BystanderData
}

func c17RunTCP(c *c17TCPCase) (res c17TCPResult) {
	val, stack := evidence.Catch(func() { res = c17RunTCPInner(c) })
	if val != nil {
		res.clauseID = "panic"
		res.detail = fmt.Sprintf("panic: %v at %s", val, evidence.PanicSite(stack))
	}
	return res
}

func c17RunTCPInner(c *c17TCPCase) (res c17TCPResult) {
	sent := append([]byte(nil), c.Data...)
	st := &c17Stream{data: append(make([]byte, 0, len(c.Data)), c.Data...), cuts: c.Cuts, readMax: c.ReadMax, fireAt: c.FireAt, withData: c.WithData, end: c.End}
	if c.SetErr {
		st.setErr = errors.New("c17: stream already reset")
	}
	sn := &Sniffer{RewriteDomain: c.RD, TCPPorts: c17Filter(c.Filter, c.Addr), UDPPorts: utils.PortUnion{{Start: 1, End: 1}}}
	if c.Filter == "has" {
		sn.Timeout = 1500 * time.Millisecond
	}
	fail := func(id, format string, a ...any) c17TCPResult {
		res.clauseID, res.detail = id, fmt.Sprintf(format, a...)
		return res
	}
	origHost, origPort, _ := net.SplitHostPort(c.Addr)
	addr := c.Addr
	// --- what handleTCPRequest does
	hooked := sn.Check(false, addr)
	var putback []byte
	var err error
	if hooked {
		putback, err = sn.TCP(st, &addr)
	}
	// ---
	res.hooked, res.reads, res.pos = hooked, st.reads, st.pos
	res.rewrote = addr != c.Addr
	if !bytes.Equal(st.data, sent) {
		return fail("stream-bytes-modified", "the sniffer wrote into the stream's data")
	}
	if hooked != c17WantHooked(c) {
		if !hooked {
			// not sniffing is transparent by construction; the destination rule below still applies
			if addr != c.Addr || st.reads != 0 || len(st.deadlines) != 0 {
				return fail("unhooked-touched", "Check=false but the flow was touched: addr %q->%q reads=%d", c.Addr, addr, st.reads)
			}
			return res
		}
		return fail("hooked-against-filter", "Check(false,%q)=true with port filter %q RewriteDomain=%v: a flow outside the configured filter is sniffed", c.Addr, c.Filter, c.RD)
	}
	if !hooked {
		if addr != c.Addr || st.reads != 0 || len(st.deadlines) != 0 {
			return fail("unhooked-touched", "Check=false but the flow was touched: addr %q->%q reads=%d", c.Addr, addr, st.reads)
		}
		return res
	}
	if c.SetErr {
		// the stream refused the deadline: the server closes the stream on the error; nothing may have been consumed
		if err == nil {
			return fail("set-deadline-error-ignored", "SetReadDeadline failed but TCP returned no error (it would read without a deadline)")
		}
		if st.pos != 0 || addr != c.Addr {
			return fail("set-deadline-error-consumed", "SetReadDeadline failed, yet %d bytes were consumed / addr %q->%q", st.pos, c.Addr, addr)
		}
		return res
	}
	if err != nil {
		// handleTCPRequest closes the stream on a hook error: for a destination that passed Check there is
		// no input for which aborting the flow is "transparent"
		res.key = err.Error()
		return fail("error-aborts-flow", "TCP returned error %q (the server closes the client's stream); consumed %d of %d bytes", err, st.pos, len(sent))
	}
	// (1) putback || unread == sent
	if !bytes.Equal(putback, sent[:st.pos]) {
		res.key = fmt.Sprintf("consumed=%d,putback=%d", st.pos, len(putback))
		d := 0
		for d < len(putback) && d < st.pos && putback[d] == sent[d] {
			d++
		}
		return fail("putback-differs", "putback(%d bytes)||unread(%d bytes) != sent(%d bytes): the stream handed out %d bytes, putback has %d, first difference at offset %d; putback=%s consumed=%s",
			len(putback), len(sent)-st.pos, len(sent), st.pos, len(putback), d, c17Hex(putback), c17Hex(sent[:st.pos]))
	}
	// (1b) the putback stays intact while OTHER flows are sniffed: the server holds it across the
	// outbound dial (Outbound.TCP may take seconds) and only then writes it to the target; every
	// stream is handled by its own goroutine, so other TLS/HTTP flows are sniffed by the same
	// Sniffer in between
	for _, other := range c17Bystanders() {
		oaddr := "10.99.0.1:443"
		ost := &c17Stream{data: append([]byte(nil), other...), fireAt: -1, end: c17EndEOF}
		_, _ = sn.TCP(ost, &oaddr)
		_, _ = (&Sniffer{}).TCP(&c17Stream{data: append([]byte(nil), other...), fireAt: -1, end: c17EndEOF}, &oaddr)
	}
	if !bytes.Equal(putback, sent[:st.pos]) {
		res.key = fmt.Sprintf("consumed=%d", st.pos)
		d := 0
		for d < len(putback) && d < st.pos && putback[d] == sent[d] {
			d++
		}
		return fail("putback-aliased", "the putback (%d bytes) was intact when TCP returned but changed (first at offset %d) after other flows were sniffed: its memory is shared with later calls, the target would receive another flow's bytes", len(putback), d)
	}
	// (2) deadline: armed before the first read, cleared on return
	if st.unarmedReads > 0 {
		return fail("read-without-deadline", "%d Read call(s) were issued with no read deadline armed", st.unarmedReads)
	}
	if len(st.deadlines) == 0 || st.deadlines[0].IsZero() {
		return fail("deadline-not-armed", "no non-zero read deadline was set before sniffing")
	}
	if !st.deadlines[len(st.deadlines)-1].IsZero() {
		return fail("deadline-not-cleared", "the read deadline is still armed on return (%d SetReadDeadline calls, the last one non-zero): the relay that follows dies when it fires", len(st.deadlines))
	}
	if st.writes != 0 || st.closed {
		return fail("stream-written-or-closed", "the sniffer wrote to (%d) or closed (%v) the client's stream", st.writes, st.closed)
	}
	// (3) destination
	res.key = "dest=" + addr
	newHost, newPort, perr := net.SplitHostPort(addr)
	if perr != nil {
		return fail("destination-malformed", "destination %q -> %q is no longer host:port (%v)", c.Addr, addr, perr)
	}
	if newPort != origPort {
		return fail("port-changed", "destination port changed: %q -> %q", c.Addr, addr)
	}
	want := c.Addr
	if c.ExpHost != "" && st.pos >= c.NeedLen {
		want = net.JoinHostPort(c.ExpHost, origPort)
	}
	if addr != want && !(c.Either && addr == c.Addr) {
		if want == c.Addr {
			return fail("rewritten-without-evidence", "destination %q -> %q, but the %d bytes delivered contain no complete Host header / server name (expected unchanged; host was %q, now %q)", c.Addr, addr, st.pos, origHost, newHost)
		}
		return fail("wrong-destination", "destination %q -> %q, expected %q (the delivered %d bytes contain the complete header with host %q)", c.Addr, addr, want, st.pos, c.ExpHost)
	}
	return res
}

func c17Hex(b []byte) string {
	if len(b) <= 24 {
		return fmt.Sprintf("%x", b)
	}
	return fmt.Sprintf("%x..(%d)..%x", b[:12], len(b), b[len(b)-8:])
}

// c17TCPSig names a violation by template + violated clause + the observable outcome, not by the chunking: one
// defect seen through many chunkings/deadline positions/configurations is one signature (the replay file holds one
// complete case).
func c17TCPSig(c *c17TCPCase, r *c17TCPResult) string {
	return fmt.Sprintf("tcp/%s/%s/%s", c.Template, r.clauseID, r.key)
}

// ---------------------------------------------------------------------------------------------
// enumeration

type c17Cfg struct {
	Filter  string
	RD      bool
	Host    string
	Primary bool
}

func c17Configs() []c17Cfg {
	var out []c17Cfg
	for _, f := range []string{"nil", "has", "not"} {
		for _, rd := range []bool{true, false} {
			for _, h := range []string{"10.1.2.3", "2001:db8::7", "orig.example.net"} {
				c := c17Cfg{Filter: f, RD: rd, Host: h}
				// three configurations that together use every value of every dimension among the hooked ones
				c.Primary = (f == "nil" && rd && h == "10.1.2.3") || (f == "has" && !rd && h == "2001:db8::7") || (f == "nil" && rd && h == "orig.example.net")
				out = append(out, c)
			}
		}
	}
	return out
}

type c17Limiter struct{ n map[string]int }

func (l *c17Limiter) ok(key string) bool {
	if l.n == nil {
		l.n = map[string]int{}
	}
	l.n[key]++
	return l.n[key] <= 1
}

func c17EnumerateTCP(sh *evidence.Shard) {
	env := sh.Env()
	th := env.Thorough()
	p := sh.Part("tcp-stream-x-chunking-x-deadline-x-filter", "enum")
	tmpls := c17Templates()
	var names []string
	for _, t := range tmpls {
		names = append(names, fmt.Sprintf("%s(%dB)", t.Name, len(t.Data)))
	}
	fullMax, cutsPrimary, cutsOther := 12, 2, 2
	if th {
		fullMax, cutsPrimary, cutsOther = 15, 3, 3
	}
	p.Alphabet = map[string]any{
		"port_spellings": "every recognised template x 3 hosts x ports {0,65535,65536,65616,131152,-1,0443,+80,000080,4294967376} (nil filter, unsplit stream): the port string must come out as it went in",
		"templates":      names,
		"splits": fmt.Sprintf("all 2^(n-1) chunkings for streams of <= %d bytes; longer streams: every chunking with <= %d cuts (3 primary configurations) / <= %d cuts (the other hooked configurations) over {1..8, each structural boundary -1/0/+1, n-1}; the header-over-limit template: <= 1 / 0 cuts; thorough tier additionally: every <= 2-cut chunking over every offset of the first and the last 64 bytes",
			fullMax, cutsPrimary, cutsOther),
		"deadline":    "fires at the k-th Read call for every k the sniffer reaches (pure timeout, or delivered together with that read's chunk), or never",
		"end":         []string{"client idle: read blocks until the deadline", "client FIN: (0,EOF)", "FIN with the last chunk: (n,EOF)", "stream reset after the last byte: (0,other error)"},
		"port_filter": []string{"nil", "contains the port", "excludes the port"}, "rewrite_domain": []bool{true, false},
		"req_addr":                 []string{"10.1.2.3:<port>", "[2001:db8::7]:<port>", "orig.example.net:<port>"},
		"timeout":                  "Sniffer.Timeout 0 (default) with the nil filter, 1.5s with the others",
		"set_deadline_fails":       "once per template x hooked configuration (unsplit stream)",
		"header_limit_x_read_size": "HTTP header blocks of exactly {limit-1, limit, limit+1, limit+4096, 300 KiB - 5000} bytes (limit = sniffMaxHTTPHeaderBytes) with a 5000-byte body, limit and limit+1 also without body x the stream hands out at most {1000, 1777, 4096, 1 MiB} bytes per Read x 4 end-of-data behaviours x deadline {never, at the last / last but one / middle Read the sniffer issues, pure and with data} x the 3 primary configurations (thorough: every hooked configuration)",
		"unhooked_configs":         "configurations for which Check must be false (filter excludes the port; domain destination without RewriteDomain): one run per end mode, the stream must not be touched",
		"primary_configs":          []string{"nil filter, RewriteDomain, IPv4", "filter contains port, no RewriteDomain, IPv6", "nil filter, RewriteDomain, domain"},
		"structural_boundary":      "3 (probe), 5 (TLS header), request line end, Host line start/value/end, header end, 4096-byte buffer refills, handshake header, server_name start/end, record end",
	}
	lim := &c17Limiter{}
	var item int64
	stop := false
	run1 := func(c *c17TCPCase) c17TCPResult {
		p.Evaluations++
		r := c17RunTCP(c)
		fired := "never"
		if c.FireAt >= 0 {
			fired = "fired"
			if c.WithData {
				fired = "fired+data"
			}
		}
		// class: template x config x number of cuts x deadline kind x end x outcome
		consumed := "partial"
		switch {
		case r.pos <= 5:
			consumed = fmt.Sprint(r.pos)
		case r.pos == len(c.Data):
			consumed = "all"
		case c.NeedLen > 0 && r.pos >= c.NeedLen:
			consumed = "header-complete"
		}
		p.Class(c.Template, "|", c.Filter, c.RD, c.Addr, "|", len(c.Cuts), c.ReadMax, fired, c.End, "|", r.hooked, r.rewrote, consumed, r.clauseID)
		if r.rewrote {
			p.Count("destination_rewritten", 1)
		}
		if r.hooked {
			p.Count("hooked", 1)
		}
		if r.clauseID != "" {
			if lim.ok(c.Template + "/" + r.clauseID) {
				cc := *c
				cc.Cuts = append([]int(nil), c.Cuts...)
				sh.Violate(p.Name, c17TCPSig(c, &r), r.detail, &cc)
			} else {
				p.Count("further_violations_not_recorded", 1)
			}
		}
		return r
	}
	// "the port never changes", for every spelling of the port a request may carry: the server
	// passes the request address as the client wrote it, and strconv.Atoi (what Check uses) accepts
	// more than the canonical 0..65535. Unsplit stream, nil filter, every recognised template.
	// (Added after the independently seeded change C17-6: the rewritten destination was rebuilt
	// from the port narrowed to uint16.)
	for ti := range tmpls {
		t := &tmpls[ti]
		if t.Heavy || t.ExpHost == "" || stop {
			continue
		}
		for _, port := range []string{"0", "65535", "65536", "65616", "131152", "-1", "0443", "+80", "000080", "4294967376"} {
			for _, host := range []string{"10.1.2.3", "2001:db8::7", "orig.example.net"} {
				item++
				if !env.Mine(item) {
					continue
				}
				c := c17TCPCase{Template: t.Name, Data: t.Data, ExpHost: t.ExpHost, NeedLen: t.NeedLen, Either: t.Either, FireAt: -1,
					Filter: "nil", RD: true, Addr: net.JoinHostPort(host, port), End: c17EndEOF}
				run1(&c)
			}
		}
	}
	// header blocks around and above the sniffer's header limit x the size of the stream's reads:
	// the parser is still reading when the limit is reached, and the read that crosses it is
	// larger than the room left for (nearly) every read size. Judged by the same clauses.
	// (Added after the independently seeded change C17-13: the 256 KiB cap was applied after the
	// stream read, the tail of the crossing read was lost.)
	for _, t := range c17LimitTemplates() {
		for _, cfg := range c17Configs() {
			base := c17TCPCase{Template: t.Name, Data: t.Data, ExpHost: t.ExpHost, NeedLen: t.NeedLen, Either: t.Either, FireAt: -1,
				Filter: cfg.Filter, RD: cfg.RD, Addr: net.JoinHostPort(cfg.Host, t.Port)}
			if !c17WantHooked(&base) || (!cfg.Primary && !th) {
				continue
			}
			for _, readMax := range []int{1000, 1777, 4096, 1 << 20} {
				for _, end := range []int{c17EndBlock, c17EndEOF, c17EndEOFData, c17EndReset} {
					item++
					if !env.Mine(item) {
						continue
					}
					c := base
					c.ReadMax, c.End = readMax, end
					r := run1(&c)
					for _, k := range []int{r.reads - 1, r.reads - 2, r.reads / 2} {
						for _, wd := range []bool{false, true} {
							if k < 0 {
								continue
							}
							ck := c
							ck.FireAt, ck.WithData = k, wd
							run1(&ck)
						}
					}
				}
			}
		}
	}
	for ti := range tmpls {
		t := &tmpls[ti]
		if t.Heavy && !th {
			continue
		}
		n := len(t.Data)
		for _, cfg := range c17Configs() {
			base := c17TCPCase{Template: t.Name, Data: t.Data, ExpHost: t.ExpHost, NeedLen: t.NeedLen, Either: t.Either, FireAt: -1,
				Filter: cfg.Filter, RD: cfg.RD, Addr: net.JoinHostPort(cfg.Host, t.Port)}
			wantHooked := c17WantHooked(&base)
			maxCuts := cutsOther
			if cfg.Primary {
				maxCuts = cutsPrimary
			}
			if t.Heavy {
				maxCuts = 1
				if !cfg.Primary {
					maxCuts = 0
				}
			}
			full := fullMax
			if !wantHooked {
				// Check=false: TCP is never called; one run per end mode on the unsplit stream
				full, maxCuts = 0, 0
			}
			var offs []int
			for o := 1; o <= 8; o++ {
				offs = append(offs, o)
			}
			for _, b := range t.Bounds {
				offs = append(offs, b-1, b, b+1)
			}
			offs = append(offs, n-1)
			visit := func(cuts []int) bool {
				item++
				if !env.Mine(item) {
					return true
				}
				if env.Expired() {
					p.Exhaustive = false
					p.Note("deadline reached in template %s; earlier templates are complete", t.Name)
					stop = true
					return false
				}
				for _, end := range []int{c17EndBlock, c17EndEOF, c17EndEOFData, c17EndReset} {
					c := base
					c.Cuts = cuts
					c.End = end
					r := run1(&c)
					if !wantHooked {
						continue
					}
					if len(cuts) == 0 && end == c17EndEOF && t.ExpHost != "" && !t.Either && r.clauseID == "" && !r.rewrote {
						// non-vacuity: the complete, unsplit, undelayed template must be recognised
						// (a harness expectation, not a property clause: a sniffer may recognise less)
						p.Count("templates_not_recognised_by_the_sniffer", 1)
						if p.Exhaustive {
							p.Exhaustive = false
							p.Note("template %s: the complete, unsplit stream was not recognised by the sniffer (consumed %d of %d bytes, need %d): the destination clause is vacuous for it on this tree", t.Name, r.pos, n, t.NeedLen)
						}
					}
					if item%5003 == 7 && end == c17EndBlock {
						cs := c
						cs.Data = nil
						cs.Cuts = append([]int(nil), cuts...)
						p.Sample(&cs)
					}
					for k := 0; k < r.reads; k++ {
						for _, wd := range []bool{false, true} {
							ck := c
							ck.FireAt, ck.WithData = k, wd
							run1(&ck)
						}
					}
				}
				if len(cuts) == 0 && wantHooked {
					ce := base
					ce.SetErr = true
					run1(&ce)
				}
				return true
			}
			enum.Splits(n, full, offs, maxCuts, visit)
			if th && wantHooked && n > full && !t.Heavy && !stop {
				// second pass (thorough): denser cut positions - every offset of the first and last 64 bytes -
				// with <= 2 cuts; chunkings already produced by the first pass are skipped
				structural := map[int]bool{}
				for _, o := range offs {
					structural[o] = true
				}
				dense := append([]int(nil), offs...)
				for o := 1; o <= 64; o++ {
					dense = append(dense, o, n-o)
				}
				enum.Splits(n, 0, dense, 2, func(cuts []int) bool {
					all := true
					for _, c := range cuts {
						if !structural[c] {
							all = false
						}
					}
					if all {
						return true
					}
					return visit(cuts)
				})
			}
			if stop {
				return
			}
		}
	}
	if len(p.Samples) == 0 {
		p.Sample(map[string]any{"template": "http-host", "cuts": []int{3, 40}, "fire_at_read": 1, "end": 0, "port_filter": "nil", "rewrite_domain": true, "req_addr": "10.1.2.3:80"})
	}
}

func c17ReplayTCP(raw json.RawMessage) (bool, string) {
	var c c17TCPCase
	if err := json.Unmarshal(raw, &c); err != nil {
		return false, err.Error()
	}
	r := c17RunTCP(&c)
	return r.clauseID != "", r.clauseID + ": " + r.detail
}

func TestVerifC17TCP(t *testing.T) {
	evidence.Main(t, "C17", evidence.Seq{
		Run: c17EnumerateTCP,
		Replay: func(part string, raw json.RawMessage) (bool, bool, string) {
			if !strings.HasPrefix(part, "tcp-") {
				return false, false, ""
			}
			rep, detail := c17ReplayTCP(raw)
			return true, rep, detail
		},
	})
}
