package server

// C17 harness, TCP call-site clause (injected by overlay into core/server together with the shared
// server rig): "the bytes handed back for replay followed by the bytes still unread on the stream
// equal exactly what the client sent" is judged where it becomes visible to the proxied flow - at
// the TARGET of the real server (NewServer/handleTCPRequest over the fake QUIC layer, default
// schedule, arrivals separated by e.WaitIdle()): the target must receive exactly what the client
// wrote behind its TCPRequest, in order.
//
// The request hook is c17RpHook, which reads the stream the way the sniffer's HTTP and TLS
// branches do (3-byte probe; then http.ReadRequest through a mirroring reader limited to 256 KiB,
// or 2 more bytes and the whole record) and hands back everything it read. (extras/sniff imports
// core/server, so the real sniffer cannot be linked into this package's tests; its own reading is
// enumerated in the sniff-tcp unit.)
//
// Dimensions: a NEIGHBOURING OPTION (TrafficLogger configured or not - the server relays through
// a different copy loop then) x the SIZE of what the hook hands back (below, at and above the
// relay's 32 KiB copy buffer; thorough also around 4 KiB, 64 KiB and the sniffer's 256 KiB limit)
// x how the first flight arrives (with the request, after it, in two pieces) x more client bytes
// right behind it and after an idle.
// Added after the independently seeded change C17-10 (with a TrafficLogger the put-back bytes were
// replayed through a reader in front of the stream that dropped whatever did not fit into the first
// 32 KiB Read, so the rest of a longer first flight never reached the target).
//
// Further dimension: the LENGTH OF THE REQUEST'S PADDING (PROTOCOL.md: the TCPRequest ends in a
// varint-counted run of padding bytes the server must skip; 0 = none; the 1/2-byte varint boundary
// 63/64; MaxPaddingLength 4096 -1/0) x the same arrivals plus one more: the request cut INSIDE its
// padding, the padding's tail travelling in one piece with the first flight - so that one stream
// Read returns the end of the padding together with the client's first bytes. Oracle unchanged:
// replayed + unread == what the client wrote behind its request.
// Added after the independently seeded change C17-12 (ReadTCPRequest skipped the padding with
// io.ReadAtLeast into a MaxPaddingLength scratch buffer, so a Read that returned the padding's tail
// together with what follows swallowed the client's first bytes before the hook saw the stream).

import (
	"bufio"
	"bytes"
	"encoding/json"
	"fmt"
	"io"
	"net"
	"net/http"
	"strings"
	"testing"

	"verif.local/engine/evidence"
	"verif.local/engine/vsched"
)

const (
	c17RpArriveAfter   = 0    // the first flight is written after the request was parsed (server idle in between)
	c17RpArriveWith    = 1    // request and first flight in one write (fast open)
	c17RpArriveTwo     = 2    // the first flight in two pieces cut in the middle, server idle in between
	c17RpArrivePadTail = 3    // the request cut inside its padding (server idle there), the padding's tail in one write with the first flight
	c17RpMaxPadding    = 4096 // protocol.MaxPaddingLength
	c17RpMaxHTTPHeader = 256 * 1024
	c17RpCopyBuffer    = 32 * 1024 // core/server/copy.go and utils copy loops: 32 KiB
)

var c17RpLater = []byte("more client bytes, after an idle")

type c17RpCase struct {
	Traffic bool   `json:"traffic_logger_configured"`
	Kind    string `json:"first_flight"` // "http" (request with a header block of Size bytes) or "tls" (one record of Size bytes)
	Size    int    `json:"size_of_what_the_hook_reads_and_hands_back"`
	Tail    int    `json:"client_bytes_right_behind_it"`
	Arrive  int    `json:"arrival"`
	Pad     int    `json:"request_padding_bytes"` // added after C17-12; absent in older replay files = 0
}

// c17RpTee mirrors everything read from the stream (the sniffer's teeReader).
type c17RpTee struct {
	s   HyStream
	buf []byte
}

func (t *c17RpTee) Read(b []byte) (int, error) {
	n, err := t.s.Read(b)
	t.buf = append(t.buf, b[:n]...)
	return n, err
}

type c17RpHook struct {
	calls   int
	addr    string
	left    string // the address the hook left in *reqAddr when it returned
	putback []byte
}

func (h *c17RpHook) Check(isUDP bool, reqAddr string) bool  { return !isUDP }
func (h *c17RpHook) UDP(data []byte, reqAddr *string) error { return nil }

func (h *c17RpHook) TCP(stream HyStream, reqAddr *string) ([]byte, error) {
	h.calls++
	h.addr = *reqAddr
	tr := &c17RpTee{s: stream}
	pre := make([]byte, 3)
	if _, err := io.ReadFull(tr, pre); err == nil {
		switch {
		case pre[0] >= 'A' && pre[0] <= 'Z':
			// the probe bytes go in front of the parser's input, the rest is mirrored as it is read
			in := io.MultiReader(bytes.NewReader(pre), tr)
			req, _ := http.ReadRequest(bufio.NewReader(io.LimitReader(in, c17RpMaxHTTPHeader)))
			if req != nil && req.Host != "" {
				if _, port, err := net.SplitHostPort(*reqAddr); err == nil {
					*reqAddr = net.JoinHostPort(req.Host, port)
				}
			}
		case pre[0] == 0x16:
			l := make([]byte, 2)
			if _, err := io.ReadFull(tr, l); err == nil {
				_, _ = io.ReadFull(tr, make([]byte, int(l[0])<<8|int(l[1])))
			}
		}
	}
	h.putback = append([]byte(nil), tr.buf...)
	h.left = *reqAddr
	return tr.buf, nil
}

// c17RpFirstFlight builds the client's first bytes: exactly size bytes the hook will read, every
// part of it distinguishable by position (numbered header lines / a counting record body).
func c17RpFirstFlight(kind string, size int) []byte {
	if kind == "tls" {
		b := make([]byte, size)
		copy(b, []byte{0x16, 0x03, 0x01, byte((size - 5) >> 8), byte(size - 5)})
		for i := 5; i < size; i++ {
			b[i] = byte(i*7 + i>>8)
		}
		return b
	}
	var w bytes.Buffer
	w.WriteString("GET /index.html HTTP/1.1\r\nHost: sniffed.example\r\n")
	rest := size - w.Len() - 2
	for i := 0; rest > 0; i++ {
		l := 64
		if rest-l < 12 {
			l = rest
		}
		fmt.Fprintf(&w, "X-%05d: ", i)
		for k := 0; k < l-11; k++ {
			w.WriteByte("abcdefghijklmnopqrstuvwxyz"[(i+k)%26])
		}
		w.WriteString("\r\n")
		rest -= l
	}
	w.WriteString("\r\n")
	return w.Bytes()
}

func c17RpTailBytes(n int) []byte {
	b := make([]byte, n)
	for i := range b {
		b[i] = "BODY-right-behind "[i%18]
	}
	return b
}

// c17RpRequest builds the TCPRequest: frame type 0x401 (2-byte varint), address, padding length
// (varint) and pad padding bytes; padFrom is where the padding bytes begin.
func c17RpRequest(addr string, pad int) (req []byte, padFrom int) {
	req = append([]byte{0x44, 0x01, byte(len(addr))}, addr...)
	if pad <= 63 {
		req = append(req, byte(pad))
	} else {
		req = append(req, 0x40|byte(pad>>8), byte(pad))
	}
	padFrom = len(req)
	for i := 0; i < pad; i++ {
		req = append(req, "padding."[i%8])
	}
	return req, padFrom
}

func c17RpDiff(sent, got []byte) string {
	k := 0
	for k < len(sent) && k < len(got) && sent[k] == got[k] {
		k++
	}
	return fmt.Sprintf("the client wrote %d bytes behind its request, the target received %d; they agree on the first %d", len(sent), len(got), k)
}

func c17RpRun(c *c17RpCase) (clause string, putback int) {
	const addr = "1.2.3.4:80"
	wantAddr := addr
	if c.Kind == "http" {
		wantAddr = "sniffed.example:80"
	}
	o := vsched.RunDefault(vsched.Options{}, func(e *vsched.Exec) {
		hook := &c17RpHook{}
		r := newRig(e, rigOpts{Traffic: c.Traffic, Mutate: func(cfg *Config) { cfg.RequestHook = hook }})
		if r.srv == nil {
			return
		}
		r.TargetBuf = 1 << 20 // the target never pushes back: everything relayed is accepted at once
		cl := r.dial("A")
		if resp, err := cl.auth("good", 0); err != nil || resp.Status != 233 {
			e.Fail("harness: auth: %v %v", resp, err)
			return
		}
		str, err := cl.Conn.OpenStream()
		if err != nil {
			e.Fail("harness: OpenStream: %v", err)
			return
		}
		if c.Pad < 0 || c.Pad > c17RpMaxPadding || (c.Arrive == c17RpArrivePadTail && c.Pad == 0) {
			e.Fail("harness: no such case: padding %d, arrival %d", c.Pad, c.Arrive)
			return
		}
		req, padFrom := c17RpRequest(addr, c.Pad)
		first := append(c17RpFirstFlight(c.Kind, c.Size), c17RpTailBytes(c.Tail)...)
		var chunks [][]byte
		switch c.Arrive {
		case c17RpArriveWith:
			chunks = [][]byte{append(append([]byte(nil), req...), first...)}
		case c17RpArriveTwo:
			chunks = [][]byte{req, first[:len(first)/2], first[len(first)/2:]}
		case c17RpArrivePadTail:
			// the later half of the padding (at least its last byte) arrives with the first flight
			cut := padFrom + c.Pad/2
			chunks = [][]byte{req[:cut:cut], append(append([]byte(nil), req[cut:]...), first...)}
		default:
			chunks = [][]byte{req, first}
		}
		chunks = append(chunks, c17RpLater)
		for _, chunk := range chunks {
			if len(chunk) > 0 {
				if _, err := str.Write(chunk); err != nil {
					e.Fail("harness: write: %v", err)
					return
				}
			}
			e.WaitIdle()
		}
		sent := append(append([]byte(nil), first...), c17RpLater...)
		putback = len(hook.putback)
		where := fmt.Sprintf("TrafficLogger configured: %v, request with %d padding bytes, first flight %s of %d bytes + %d bytes right behind it, %s, %d bytes after an idle; the hook handed back %d bytes",
			c.Traffic, c.Pad, c.Kind, c.Size, c.Tail, c17RpArriveText(c.Arrive), len(c17RpLater), putback)
		var dialled []string
		for _, ev := range r.Events {
			if ev.Kind == "tcp" {
				dialled = append(dialled, ev.A)
			}
		}
		// what the server must dial is what THIS hook left behind: a header block above the hook's own
		// 256 KiB limit is not parsed and leaves the requested address (the first thorough run of this
		// unit expected the sniffed name there too and alarmed on the unchanged tree: harness error)
		if hook.calls == 1 {
			if c.Kind == "http" && c.Size <= c17RpMaxHTTPHeader && hook.left != wantAddr {
				e.Fail("harness: the hook did not rewrite the address of a %d-byte HTTP first flight (left %q)", c.Size, hook.left)
				return
			}
			wantAddr = hook.left
		}
		var got []byte
		if re := r.RelayEnds[wantAddr]; re != nil {
			got = re.Written
		}
		switch {
		case hook.calls != 1:
			e.Fail("hook-calls: RequestHook.TCP called %d times for one hooked TCPRequest (%s)", hook.calls, where)
		case hook.addr != addr:
			e.Fail("hook-sees-other-addr: RequestHook.TCP was given the address %q, the request is for %q (%s)", hook.addr, addr, where)
		case putback > len(sent) || !bytes.Equal(hook.putback, sent[:putback]):
			e.Fail("hook-read-other-bytes: what the hook read right behind the request is not the beginning of what the client wrote there (%s)", where)
		case len(dialled) != 1 || dialled[0] != wantAddr:
			e.Fail("dialled-wrong-addr: the hook left %q, the server dialled %q (%s)", wantAddr, dialled, where)
		case !bytes.Equal(got, sent):
			e.Fail("target-bytes-differ: replayed + unread != sent at the target: %s (%s)", c17RpDiff(sent, got), where)
		}
		_ = str.Close()
		cl.close()
		r.shutdown(true)
	})
	if o.Kind != "ok" {
		return o.Kind + ": " + o.Detail, putback
	}
	return "", putback
}

func c17RpArriveText(a int) string {
	switch a {
	case c17RpArriveWith:
		return "arriving together with the request"
	case c17RpArriveTwo:
		return "arriving after the request in two pieces with an idle between them"
	case c17RpArrivePadTail:
		return "arriving in one piece with the later half of the request's padding (the server idle inside the padding)"
	}
	return "arriving after the request was parsed"
}

const c17RpPart = "server-tcp-replay-at-the-target"

func c17RpEnumerate(sh *evidence.Shard) {
	env := sh.Env()
	p := sh.Part(c17RpPart, "enum")
	// sizes: small, and the relay's copy buffer (32 KiB) -1/0/+1 and well above it
	sizes := map[string][]int{
		"http": {100, c17RpCopyBuffer - 1, c17RpCopyBuffer, c17RpCopyBuffer + 1, 40000},
		"tls":  {8, c17RpCopyBuffer - 1, c17RpCopyBuffer, c17RpCopyBuffer + 1, 40000},
	}
	tails := []int{0, 7}
	if env.Thorough() {
		// also bufio's 4 KiB, twice the copy buffer / the stream window, the largest TLS record (5+65535)
		// and the sniffer's 256 KiB limit on an HTTP header block
		sizes["http"] = []int{63, 100, 4095, 4096, 4097, c17RpCopyBuffer - 1, c17RpCopyBuffer, c17RpCopyBuffer + 1, 40000, 65535, 65536, 65537, 100000,
			c17RpMaxHTTPHeader - 1, c17RpMaxHTTPHeader, c17RpMaxHTTPHeader + 1}
		sizes["tls"] = []int{5, 6, 8, 4095, 4096, 4097, c17RpCopyBuffer - 1, c17RpCopyBuffer, c17RpCopyBuffer + 1, 40000, 65535, 65536, 65537, 65540}
		tails = []int{0, 1, 7, 5000}
	}
	kinds := []string{"http", "tls"}
	arrivals := []int{c17RpArriveAfter, c17RpArriveWith, c17RpArriveTwo}
	// request padding (added after C17-12): the 1-/2-byte varint boundary of its length and
	// MaxPaddingLength -1/0; the small first flights with every padding length, the sizes above the
	// copy buffer with the shortest and the longest padding only (quick)
	pads := []int{1, 63, 64, 4095, c17RpMaxPadding}
	padBig := map[int]bool{1: true, c17RpMaxPadding: true}
	padSizes := map[string][]int{"http": {sizes["http"][0], 40000}, "tls": {sizes["tls"][0], 40000}}
	padArrivals := []int{c17RpArriveAfter, c17RpArriveWith, c17RpArriveTwo, c17RpArrivePadTail}
	if env.Thorough() {
		pads = []int{1, 2, 63, 64, 65, 511, 4095, c17RpMaxPadding}
		for _, pad := range pads {
			padBig[pad] = true
		}
		padSizes = map[string][]int{"http": {63, 4096, c17RpCopyBuffer + 1, 40000}, "tls": {5, 4096, c17RpCopyBuffer + 1, 40000}}
	}
	p.Alphabet = map[string]any{
		"traffic_logger_configured (neighbouring option: another relay loop)": []bool{false, true},
		"first_flight": kinds,
		"size_of_what_the_hook_reads_and_hands_back (around the 32 KiB copy buffer of the relay)": sizes,
		"client_bytes_right_behind_it": tails,
		"arrival (0 after the request was parsed, 1 with the request, 2 in two pieces with an idle between)": arrivals,
		"client_bytes_after_an_idle": string(c17RpLater),
		"request_padding_bytes (0 with every size; the others with first_flight_sizes_behind_a_padded_request)":                                          append([]int{0}, pads...),
		"first_flight_sizes_behind_a_padded_request":                                                                                                     padSizes,
		"paddings_crossed_with_the_sizes_above_the_smallest":                                                                                             padBig,
		"arrival_behind_a_padded_request (3: the request cut in the middle of its padding, the padding's later half in one write with the first flight)": padArrivals,
		"hook": "reads like the sniffer's HTTP/TLS branches and hands back everything it read; HTTP: host rewritten to the Host header, port kept",
	}
	var item int64
	// one evaluates one case; false = stop (deadline or enough violations)
	one := func(c c17RpCase) bool {
		item++
		if !env.Mine(item) {
			return true
		}
		if env.Expired() {
			p.Exhaustive = false
			p.Note("deadline: stopped at case %d (kind %s, size %d, padding %d)", item, c.Kind, c.Size, c.Pad)
			return false
		}
		p.Evaluations++
		clause, putback := c17RpRun(&c)
		short := clause
		if i := strings.Index(short, ": "); i >= 0 {
			// "<outcome kind>: <clause>: detail" -> outcome kind and clause
			if j := strings.Index(short[i+2:], ": "); j >= 0 {
				short = short[:i+2+j]
			}
		}
		if len(short) > 60 {
			short = short[:60]
		}
		p.Class(c.Kind, c.Size, c.Traffic, c.Tail, c.Arrive, c.Pad, putback, short)
		if putback > c17RpCopyBuffer {
			p.Count("cases_where_the_hook_handed_back_more_than_the_copy_buffer", 1)
		}
		if c.Pad > 0 && c.Arrive != c17RpArriveAfter && c.Arrive != c17RpArriveTwo {
			p.Count("cases_where_the_first_flight_was_queued_behind_the_request_padding", 1)
		}
		if p.Evaluations%17 == 1 {
			p.Sample(c)
		}
		if clause != "" {
			cc := c
			sig := fmt.Sprintf("%s/%s/traffic=%v,%s,size=%d,tail=%d,arrive=%d", p.Name, short, c.Traffic, c.Kind, c.Size, c.Tail, c.Arrive)
			if c.Pad != 0 {
				sig += fmt.Sprintf(",pad=%d", c.Pad)
			}
			sh.Violate(p.Name, sig, clause, &cc)
			if sh.NViolations() >= 4 {
				p.Exhaustive = false
				return false
			}
		}
		return true
	}
	// request without padding: every size
	for _, kind := range kinds {
		for _, size := range sizes[kind] {
			for _, traffic := range []bool{false, true} {
				for _, tail := range tails {
					for _, ar := range arrivals {
						if !one(c17RpCase{Traffic: traffic, Kind: kind, Size: size, Tail: tail, Arrive: ar}) {
							return
						}
					}
				}
			}
		}
	}
	// request with padding (dimension added after C17-12, see the head of the file): every padding
	// length x the sizes of padSizes x every arrival, including the one that puts the padding's tail
	// and the first flight into one Read
	for _, pad := range pads {
		for _, kind := range kinds {
			for _, size := range padSizes[kind] {
				if size != padSizes[kind][0] && !padBig[pad] {
					continue
				}
				for _, traffic := range []bool{false, true} {
					for _, tail := range tails {
						for _, ar := range padArrivals {
							if !one(c17RpCase{Traffic: traffic, Kind: kind, Size: size, Tail: tail, Arrive: ar, Pad: pad}) {
								return
							}
						}
					}
				}
			}
		}
	}
}

func TestVerifC17Replay(t *testing.T) {
	evidence.Main(t, "C17", evidence.Seq{
		Run: c17RpEnumerate,
		Replay: func(part string, raw json.RawMessage) (bool, bool, string) {
			if part != c17RpPart {
				return false, false, ""
			}
			var c c17RpCase
			if err := json.Unmarshal(raw, &c); err != nil {
				return true, false, err.Error()
			}
			clause, _ := c17RpRun(&c)
			return true, clause != "", clause
		},
	})
}
