package server

// C01 harness: no proxying before authentication on the same connection.

import (
	"fmt"
	"net/http"
	"sort"
	"strings"
	"testing"

	"github.com/apernet/hysteria/core/v2/internal/protocol"
	"verif.local/engine/evidence"
	"verif.local/engine/explore"
	"verif.local/engine/vquic"
	"verif.local/engine/vsched"
	"verif.local/engine/vsync"
)

const (
	c01AuthOK   = "AuthOK"
	c01AuthBad  = "AuthBad"
	c01AuthOnce = "AuthOnce" // a one-time credential: accepted for the first connection that presents it only
	c01NonAuth  = "NonAuth"
	c01Raw401   = "Raw401"
	c01Dgram    = "Dgram"
	// c01NonAuthCred + "(METHOD,authority,path)": a non-auth request in the given spelling that
	// carries an ACCEPTED credential in Hysteria-Auth (see c01Spelling)
	c01NonAuthCred = "NonAuthCred"
)

// c01Spelling is the (method, :authority, :path) of an HTTP/3 request. PROTOCOL.md defines the
// authentication request as exactly method POST, host "hysteria", path "/auth"; a request that
// differs from it in any of the three - also only by letter case, an explicit port, a trailing
// slash - is a non-auth request: whatever Hysteria-Auth value it carries, it is not "an
// authentication request accepted by the authenticator" and authorises nothing. (Dimension added
// after the independently seeded change C01-12: the auth-endpoint test compared :authority
// case-insensitively and ignored a port, so POST /auth to "hysteria:443" / "HYSTERIA" with accepted
// credentials authenticated the connection.)
type c01Spelling struct{ Method, Host, Path string }

func (s c01Spelling) c01Kind() string {
	return fmt.Sprintf("%s(%s,%s,%s)", c01NonAuthCred, s.Method, s.Host, s.Path)
}

func (s c01Spelling) c01IsAuth() bool {
	return s.Method == "POST" && s.Host == "hysteria" && s.Path == "/auth"
}

func c01ParseSpelling(kind string) (c01Spelling, bool) {
	if !strings.HasPrefix(kind, c01NonAuthCred+"(") || !strings.HasSuffix(kind, ")") {
		return c01Spelling{}, false
	}
	f := strings.Split(kind[len(c01NonAuthCred)+1:len(kind)-1], ",")
	if len(f) != 3 {
		return c01Spelling{}, false
	}
	return c01Spelling{f[0], f[1], f[2]}, true
}

// the spellings alphabet: each component is the auth request's own value or differs from it only
// by letter case, an explicit port / trailing dot or colon (authority), a trailing or doubled
// slash (path), or is a neighbouring method.
var (
	c01SpellMethods = []string{"POST", "post", "Post", "PUT", "GET"}
	c01SpellHosts   = []string{"hysteria", "hysteria:443", "HYSTERIA", "Hysteria", "Hysteria:8443", "hysteria.", "hysteria:"}
	c01SpellPaths   = []string{"/auth", "/Auth", "/AUTH", "/auth/", "//auth"}
)

// c01Deviations: in how many of its three components the spelling differs from the auth request.
func (s c01Spelling) c01Deviations() int {
	n := 0
	for _, same := range []bool{s.Method == "POST", s.Host == "hysteria", s.Path == "/auth"} {
		if !same {
			n++
		}
	}
	return n
}

// c01Spellings: every combination of the three alphabets that differs from the auth request itself
// in 1..maxDev components.
func c01Spellings(maxDev int) []c01Spelling {
	var out []c01Spelling
	for _, m := range c01SpellMethods {
		for _, h := range c01SpellHosts {
			for _, p := range c01SpellPaths {
				if sp := (c01Spelling{m, h, p}); !sp.c01IsAuth() && sp.c01Deviations() <= maxDev {
					out = append(out, sp)
				}
			}
		}
	}
	return out
}

// c01CredHeader: the headers of an auth request presenting cred.
func c01CredHeader(cred string) http.Header {
	h := http.Header{}
	protocol.AuthRequestToHeader(h, protocol.AuthRequest{Auth: cred})
	return h
}

type c01Outcome struct {
	Kind    string
	Start   int // len(rig.Events) when the event started
	End     int
	Status  int
	Err     string
	Tag     string
	Stream  *vquic.Stream
	RespOK  bool
	RespMsg string
	GotResp bool
	HysHdr  []string // Hysteria-* headers of the HTTP response
}

type c01Conn struct {
	name string
	cl   *rigClient
	outs []*c01Outcome
}

// c01StatusMasq is a CONFIGURED masquerade handler answering every request with one fixed status
// and a small body - what a `string` masquerade with statusCode N, or a proxied upstream that
// replies N, does. The status a rejected auth request is answered with is the operator's choice
// (it may be 200, it may even be 233) and is no evidence of authentication: only the
// authenticator's verdict on that connection is. (Dimension added after the independently seeded
// change C01-9: the connection was marked authenticated whenever the status actually written in
// reply to the auth request was 233, also when the masquerade handler wrote it for a rejected one.)
type c01StatusMasq int

func (s c01StatusMasq) ServeHTTP(w http.ResponseWriter, r *http.Request) {
	w.Header().Set("Content-Type", "text/plain")
	w.WriteHeader(int(s))
	_, _ = w.Write([]byte("masquerade"))
}

// c01Run: masqStatus 0 = the default masquerade (404), otherwise c01StatusMasq(masqStatus).
func c01Run(e *vsched.Exec, conns [][]string, disableUDP bool, masqStatus int) {
	var masq http.Handler
	wantMasq := 404 // default masquerade: a plain 404 without any Hysteria-specific header
	if masqStatus != 0 {
		masq, wantMasq = c01StatusMasq(masqStatus), masqStatus
	}
	r := newRig(e, rigOpts{DisableUDP: disableUDP, Masq: masq})
	if r.srv == nil {
		return
	}
	r.OnceCred = "once"
	var wg vsync.WaitGroup
	var cs []*c01Conn
	for ci, evs := range conns {
		cn := &c01Conn{name: string(rune('A' + ci))}
		cn.cl = r.dial(cn.name)
		cs = append(cs, cn)
		for k, kind := range evs {
			o := &c01Outcome{Kind: kind, Tag: fmt.Sprintf("%s%d", cn.name, k)}
			cn.outs = append(cn.outs, o)
			wg.Add(1)
			vsched.GoNamed(cn.name+"/"+kind, func() {
				defer wg.Done()
				o.Start = len(r.Events)
				switch kind {
				case c01AuthOK, c01AuthBad, c01AuthOnce:
					cred := "good"
					if kind == c01AuthBad {
						cred = "bad"
					}
					if kind == c01AuthOnce {
						cred = "once"
					}
					resp, err := cn.cl.auth(cred, 0)
					if err != nil {
						o.Err = err.Error()
					} else {
						o.Status = resp.Status
						for k := range resp.Header {
							if strings.HasPrefix(strings.ToLower(k), "hysteria-") {
								o.HysHdr = append(o.HysHdr, k)
							}
						}
					}
				case c01NonAuth:
					resp, err := cn.cl.request("GET", "example.com", "/auth", nil)
					if err != nil {
						o.Err = err.Error()
					} else {
						o.Status = resp.Status
					}
				case c01Raw401:
					str, err := cn.cl.rawTCP("t-" + o.Tag + ":80")
					o.Stream = str
					if err != nil {
						o.Err = err.Error()
						break
					}
					ok, msg, err := protocol.ReadTCPResponse(str)
					if err != nil {
						o.Err = err.Error()
					} else {
						o.GotResp, o.RespOK, o.RespMsg = true, ok, msg
					}
					str.CancelRead(0)
					_ = str.Close()
				case c01Dgram:
					if err := cn.cl.dgram(uint32(k+1), "u-"+o.Tag+":53", []byte("d")); err != nil {
						o.Err = err.Error()
					}
				default:
					// a non-auth request in an unusual spelling presenting the accepted credential
					sp, ok := c01ParseSpelling(kind)
					if !ok {
						e.Fail("harness: unknown event kind %q", kind)
						break
					}
					resp, err := cn.cl.request(sp.Method, sp.Host, sp.Path, c01CredHeader("good"))
					if err != nil {
						o.Err = err.Error()
					} else {
						o.Status = resp.Status
					}
				}
				o.End = len(r.Events)
			})
		}
	}
	wg.Wait()
	e.WaitIdle()
	// oracle
	for _, cn := range cs {
		addr := cn.cl.Addr()
		firstOK := c01FirstAccepted(r, cn)
		// (b) the authenticator is never consulted again for an authenticated connection
		for i, ev := range r.Events {
			if ev.Kind == "auth" && ev.Conn == addr && firstOK >= 0 && i > firstOK {
				e.Fail("(b) authenticator re-evaluated on authenticated connection %s: %v", cn.name, ev)
			}
		}
		sconn := cn.cl.Conn.Peer()
		for _, o := range cn.outs {
			switch o.Kind {
			case c01AuthOK:
				if o.Err == "" && o.Status != protocol.StatusAuthOK {
					e.Fail("valid credentials on %s got status %d", cn.name, o.Status)
				}
			case c01AuthBad, c01AuthOnce:
				if o.Err == "" {
					if o.Kind == c01AuthOnce && firstOK >= 0 && o.Status != protocol.StatusAuthOK {
						e.Fail("the one-time credential was accepted by the authenticator for %s but the request got status %d", cn.name, o.Status)
					}
					if firstOK >= 0 && firstOK < o.Start && o.Status != protocol.StatusAuthOK {
						e.Fail("(b) rejected attempt after acceptance revoked/re-evaluated access on %s: status %d", cn.name, o.Status)
					}
					if firstOK < 0 && o.Status == protocol.StatusAuthOK && wantMasq != protocol.StatusAuthOK {
						e.Fail("rejected credentials got 233 on %s", cn.name)
					}
					isMasq := o.Status == wantMasq && len(o.HysHdr) == 0
					if !isMasq && (o.Status != protocol.StatusAuthOK || (firstOK < 0 && wantMasq == protocol.StatusAuthOK)) {
						// the masquerade response: its status without any Hysteria-specific header (also
						// when the configured masquerade status happens to be 233 itself)
						e.Fail("rejected auth request on %s answered with status %d and Hysteria headers %v instead of the masquerade response (status %d)", cn.name, o.Status, o.HysHdr, wantMasq)
					}
				}
			case c01NonAuth:
				if o.Err == "" && o.Status == protocol.StatusAuthOK && wantMasq != protocol.StatusAuthOK {
					e.Fail("non-auth request got 233 on %s", cn.name)
				}
			default: // c01NonAuthCred(...)
				if _, spelled := c01ParseSpelling(o.Kind); !spelled {
					break
				}
				if o.Err == "" && o.Status == protocol.StatusAuthOK && wantMasq != protocol.StatusAuthOK {
					e.Fail("non-auth request %s carrying accepted credentials got 233 on %s", o.Kind, cn.name)
				}
			case c01Raw401:
				if firstOK < 0 && (o.GotResp || (o.Stream != nil && o.Stream.ReadTotal > 0)) {
					e.Fail("(a/d) unauthenticated connection %s received a proxy reply on a 0x401 stream", cn.name)
				}
			}
		}
		if firstOK < 0 && sconn.RecvDatagramCalls != 0 {
			e.Fail("(d) ReceiveDatagram issued on unauthenticated connection %s", cn.name)
		}
		if disableUDP && sconn.RecvDatagramCalls != 0 {
			e.Fail("ReceiveDatagram issued although UDP is disabled")
		}
		// (a)/(c): every outbound action tagged with this connection comes after an accepted auth of THIS connection
		for i, ev := range r.Events {
			switch ev.Kind {
			case "tcp", "udp", "checkudp", "udpwrite", "tcpreq", "udpreq":
				tag := ev.A
				if ev.Kind == "tcpreq" || ev.Kind == "udpreq" {
					tag = ev.B
				}
				if !strings.HasPrefix(tag, "t-"+cn.name) && !strings.HasPrefix(tag, "u-"+cn.name) {
					continue
				}
				if firstOK < 0 || firstOK > i {
					e.Fail("(a) %v for connection %s happened without a preceding accepted authentication on that connection", ev, cn.name)
				}
			}
		}
	}
	var sum []string
	for _, cn := range cs {
		for _, o := range cn.outs {
			sum = append(sum, fmt.Sprintf("%s/%s:%d:%v:%s", cn.name, o.Kind, o.Status, o.GotResp, o.Err))
		}
	}
	e.Logf("%s | %s", strings.Join(sum, " "), r.eventsString())
	for _, cn := range cs {
		cn.cl.close()
	}
	e.WaitIdle()
	// the same two clauses once more after every connection has ended: what a never-authenticated
	// connection left queued (datagrams, half-read streams) must not be relayed at teardown either
	// (added after the independently seeded change C01-7: the UDP session manager of a connection
	// that never authenticated was started when the connection ended, and drained the datagrams
	// quic-go still hands out after the close)
	for _, cn := range cs {
		firstOK := c01FirstAccepted(r, cn)
		if firstOK < 0 && cn.cl.Conn.Peer().RecvDatagramCalls != 0 {
			e.Fail("(d) ReceiveDatagram issued on connection %s, which never authenticated, after it ended", cn.name)
		}
		for i, ev := range r.Events {
			switch ev.Kind {
			case "tcp", "udp", "checkudp", "udpwrite", "tcpreq", "udpreq":
				tag := ev.A
				if ev.Kind == "tcpreq" || ev.Kind == "udpreq" {
					tag = ev.B
				}
				if !strings.HasPrefix(tag, "t-"+cn.name) && !strings.HasPrefix(tag, "u-"+cn.name) {
					continue
				}
				if firstOK < 0 || firstOK > i {
					e.Fail("(a) %v for connection %s happened (by the time the connection had ended) without a preceding accepted authentication on that connection", ev, cn.name)
				}
			}
		}
	}
	r.shutdown(true)
}

// c01FirstAccepted: the index of the event at which connection cn became authenticated, or -1:
// the first accepting verdict of the authenticator for this connection - provided the connection
// sent an AUTH request with accepted credentials at all. A connection whose only carrier of the
// accepted credential is a non-auth request (c01NonAuthCred) has not been authenticated, whatever
// the authenticator was asked on its behalf. (Refined after the independently seeded change C01-12.)
func c01FirstAccepted(r *rig, cn *c01Conn) int {
	sentAuth := false
	for _, o := range cn.outs {
		if o.Kind == c01AuthOK || o.Kind == c01AuthOnce {
			sentAuth = true
		}
	}
	if !sentAuth {
		return -1
	}
	addr := cn.cl.Addr()
	return r.firstIndex(func(ev rigEvent) bool { return ev.Kind == "auth" && ev.Conn == addr && ev.OK })
}

func c01Multisets(alpha []string, max int) [][]string {
	var out [][]string
	var rec func(start int, cur []string)
	rec = func(start int, cur []string) {
		if len(cur) > 0 {
			out = append(out, append([]string{}, cur...))
		}
		if len(cur) == max {
			return
		}
		for i := start; i < len(alpha); i++ {
			rec(i, append(cur, alpha[i]))
		}
	}
	rec(0, nil)
	sort.SliceStable(out, func(i, j int) bool { return len(out[i]) < len(out[j]) })
	return out
}

func c01Scenarios(thorough bool) []*explore.Scenario {
	alpha := []string{c01AuthOK, c01AuthBad, c01NonAuth, c01Raw401, c01Dgram}
	var scs []*explore.Scenario
	max1 := 3
	if thorough {
		max1 = 4
	}
	add := func(name string, conns [][]string, noUDP bool, q, t explore.Bounds) {
		scs = append(scs, &explore.Scenario{Name: name, Quick: q, Thorough: t, Body: func(e *vsched.Exec) { c01Run(e, conns, noUDP, 0) }})
	}
	for _, ms := range c01Multisets(alpha, max1) {
		q := explore.Bounds{P: 2}
		if len(ms) >= 3 {
			// P=2 only for the multisets that contain an accepted auth and something racing with it
			q = explore.Bounds{P: 1}
			if ms[0] == c01AuthOK && (ms[1] != c01AuthOK || ms[2] != c01AuthOK) && ms[1] != c01Raw401 && ms[2] != c01Raw401 {
				q = explore.Bounds{P: 2}
			}
		}
		t := explore.Bounds{P: 3}
		if len(ms) >= 4 {
			t = explore.Bounds{P: 2}
		}
		add("1conn:"+strings.Join(ms, "+"), [][]string{ms}, false, q, t)
	}
	add("1conn-noudp:AuthOK+Dgram+Raw401", [][]string{{c01AuthOK, c01Dgram, c01Raw401}}, true, explore.Bounds{P: 2}, explore.Bounds{P: 3})
	// two connections: A authenticates, B never does
	// two connections (same client IP) presenting the SAME one-time credential: the authenticator
	// accepts it for whichever connection it sees first and rejects it for the other; acceptance on
	// one connection must not authorise the other (added after the seeded change C01-4: a
	// server-wide cache of recently accepted (client IP, credential) pairs)
	for _, b := range [][]string{{c01AuthOnce, c01Raw401}, {c01AuthOnce, c01Dgram}} {
		add("2conn:AuthOnce+Raw401|"+strings.Join(b, "+"), [][]string{{c01AuthOnce, c01Raw401}, b}, false, explore.Bounds{P: 1}, explore.Bounds{P: 2})
	}
	// a configured masquerade handler answering every request with a fixed status - 233 (the very
	// status an accepted auth gets) and 200 -, rejected auth requests, then 0x401 streams / datagrams
	// on the never-authenticated connection; plus one mix with a later accepted auth (added after
	// the independently seeded change C01-9: authenticated was derived from the status written in
	// reply to the auth request instead of from the authenticator's verdict)
	for _, ms := range []struct {
		status int
		evs    []string
		q, t   explore.Bounds
	}{
		{233, []string{c01AuthBad, c01Raw401}, explore.Bounds{P: 2}, explore.Bounds{P: 3}},
		{233, []string{c01AuthBad, c01Dgram}, explore.Bounds{P: 2}, explore.Bounds{P: 3}},
		{233, []string{c01AuthBad, c01NonAuth, c01Raw401}, explore.Bounds{P: 1}, explore.Bounds{P: 2}},
		{233, []string{c01AuthOK, c01AuthBad, c01Raw401}, explore.Bounds{P: 1}, explore.Bounds{P: 2}},
		{200, []string{c01AuthBad, c01Raw401, c01Dgram}, explore.Bounds{P: 1}, explore.Bounds{P: 2}},
	} {
		ms := ms
		scs = append(scs, &explore.Scenario{Name: fmt.Sprintf("1conn-masq-status=%d:%s", ms.status, strings.Join(ms.evs, "+")), Quick: ms.q, Thorough: ms.t,
			Body: func(e *vsched.Exec) { c01Run(e, [][]string{ms.evs}, false, ms.status) }})
	}
	noAuth := []string{c01AuthBad, c01NonAuth, c01Raw401, c01Dgram}
	for _, a := range [][]string{{c01AuthOK}, {c01AuthOK, c01Raw401}, {c01AuthOK, c01Dgram}} {
		for _, b := range c01Multisets(noAuth, 2) {
			q2 := explore.Bounds{P: 1}
			if len(a)+len(b) <= 3 {
				q2 = explore.Bounds{P: 2}
			}
			add("2conn:"+strings.Join(a, "+")+"|"+strings.Join(b, "+"), [][]string{a, b}, false, q2, explore.Bounds{P: 2})
		}
	}
	for _, noUDP := range []bool{false, true} {
		noUDP := noUDP
		scs = append(scs, &explore.Scenario{Name: fmt.Sprintf("sequential:A-authenticates-and-ends-then-B-never-authenticates/disable-udp=%v", noUDP), Quick: explore.Bounds{P: 1}, Thorough: explore.Bounds{P: 2},
			Body: func(e *vsched.Exec) { c01Sequential(e, noUDP, 2) }})
	}
	scs = append(scs, &explore.Scenario{Name: "1conn:AuthOK-then-8-repeated-auths", Quick: explore.Bounds{P: 0}, Thorough: explore.Bounds{P: 1}, Body: c01RepeatedAuth})
	// the SPELLING of a non-auth request that carries accepted credentials (c01Spelling): one
	// sequential run judging every spelling of the alphabet on a connection of its own, and
	// concurrent mixes of one such request with a 0x401 stream / a datagram / a rejected auth request
	// (quick: the two authority spellings with an explicit port / other letter case, and one path;
	// thorough: every spelling that differs from the auth request in one component). Added after the
	// independently seeded change C01-12 (:authority compared case-insensitively and without its port).
	maxDev := 2 // quick: spellings differing from the auth request in at most two of the three components
	if thorough {
		maxDev = 3
	}
	scs = append(scs, &explore.Scenario{
		Name:  fmt.Sprintf("each-on-its-own-conn:NonAuthCred(method,authority,path)-then-Raw401+Dgram:methods=%v,authorities=%v,paths=%v,deviating-components<=%d", c01SpellMethods, c01SpellHosts, c01SpellPaths, maxDev),
		Quick: explore.Bounds{P: 0}, Thorough: explore.Bounds{P: 0}, Body: func(e *vsched.Exec) { c01NonAuthSpellings(e, maxDev) }})
	for _, sp := range c01Spellings(1) {
		dev := sp.c01Deviations()
		sparse := sp == c01Spelling{"POST", "hysteria:443", "/auth"} || sp == c01Spelling{"POST", "HYSTERIA", "/auth"} || sp == c01Spelling{"POST", "hysteria", "/auth/"}
		if dev != 1 || (!thorough && !sparse) {
			continue
		}
		k := sp.c01Kind()
		for _, ms := range [][]string{{k, c01Raw401}, {k, c01Dgram}, {c01AuthBad, k, c01Raw401}} {
			add("1conn:"+strings.Join(ms, "+"), [][]string{ms}, false, explore.Bounds{P: 1}, explore.Bounds{P: 2})
		}
	}
	// the NUMBER of rejected auth requests on one connection is a quantified input, not a constant:
	// every count in 1..c01MaxRejected in one sequential run that judges the connection after each
	// attempt, and an accepted attempt after N rejected ones (quick: N = every power of two up
	// to the bound, and the bound; thorough: every N). Added after the independently seeded change C01-11
	// (the flag became bit 7 of a byte whose low bits counted rejected attempts: the 128th rejected
	// attempt on a connection carried into the flag).
	scs = append(scs, &explore.Scenario{Name: fmt.Sprintf("1conn:rejected-auths=1..%d:Raw401+Dgram+NonAuth-after-each", c01MaxRejected), Quick: explore.Bounds{P: 0}, Thorough: explore.Bounds{P: 0},
		Body: func(e *vsched.Exec) { c01ManyRejected(e, c01MaxRejected, false) }})
	for _, n := range c01RejectedCounts(thorough) {
		n := n
		scs = append(scs, &explore.Scenario{Name: fmt.Sprintf("1conn:rejected-auths=%d-then-AuthOK", n), Quick: explore.Bounds{P: 0}, Thorough: explore.Bounds{P: 0},
			Body: func(e *vsched.Exec) { c01ManyRejected(e, n, true) }})
	}
	return scs
}

// c01MaxRejected bounds the number of rejected auth requests driven on one connection.
const c01MaxRejected = 300

// c01RejectedCounts: the numbers N of rejected attempts that precede the accepted one. Thorough:
// every N in 1..c01MaxRejected; quick: every power of two below the bound (the counts at which a
// counter of some width wraps) and the bound itself.
func c01RejectedCounts(thorough bool) []int {
	var out []int
	if thorough {
		for n := 1; n <= c01MaxRejected; n++ {
			out = append(out, n)
		}
		return out
	}
	for p := 1; p <= c01MaxRejected; p *= 2 {
		out = append(out, p)
	}
	if out[len(out)-1] != c01MaxRejected {
		out = append(out, c01MaxRejected)
	}
	return out
}

// c01ManyRejected: one connection sends n auth requests the authenticator refuses (three different
// refused credentials in turn), one after the other. After EVERY one of them the property's clauses
// are judged for that count: the authenticator was consulted for this very request and refused it,
// the reply is the masquerade's (404, no Hysteria-* header), a 0x401 stream is not served, a
// datagram is not received, nothing was dialled or logged for the connection, and a non-auth
// request still gets the masquerade. With thenGood (the per-count probes are left out then, the
// rejected requests are still judged) an accepted request follows: it is the authenticator's
// verdict on it - not the history of refusals - that authenticates the connection, and from then
// on the connection proxies. (Added after the independently seeded change C01-11: rejected
// attempts were counted in the low bits of the byte holding the authenticated flag.)
func c01ManyRejected(e *vsched.Exec, n int, thenGood bool) {
	r := newRig(e, rigOpts{})
	if r.srv == nil {
		return
	}
	cl := r.dial("A")
	addr := cl.Addr()
	sconn := cl.Conn.Peer()
	auths := func() (n int, last rigEvent) {
		for _, ev := range r.Events {
			if ev.Kind == "auth" {
				n++
				last = ev
			}
		}
		return
	}
	// judge: clauses (a) and (d) for the connection, which has not been accepted so far
	judge := func(after string) bool {
		ok := true
		for _, ev := range r.Events {
			switch ev.Kind {
			case "tcp", "udp", "checkudp", "udpwrite", "tcpreq", "udpreq":
				e.Fail("(a) %v happened on connection A after %s and no accepted one", ev, after)
				ok = false
			}
		}
		if sconn.RecvDatagramCalls != 0 {
			e.Fail("(d) ReceiveDatagram issued on connection A after %s and no accepted one", after)
			ok = false
		}
		return ok
	}
	bad := []string{"bad", "wrong", "good "}
	for i := 1; i <= n; i++ {
		cred := bad[i%len(bad)]
		after := fmt.Sprintf("%d rejected auth requests", i)
		resp, err := cl.auth(cred, 0)
		if err != nil {
			e.Fail("rejected auth request #%d (%q) on connection A failed: %v", i, cred, err)
			return
		}
		var hys []string
		for k := range resp.Header {
			if strings.HasPrefix(strings.ToLower(k), "hysteria-") {
				hys = append(hys, k)
			}
		}
		sort.Strings(hys)
		if resp.Status != 404 || len(hys) != 0 {
			e.Fail("rejected auth request #%d (%q) on connection A, which no accepted request preceded, answered with status %d and Hysteria headers %v instead of the masquerade response (status 404)", i, cred, resp.Status, hys)
			return
		}
		if cnt, last := auths(); cnt != i || last.Conn != addr || last.A != cred || last.OK {
			e.Fail("auth request #%d (%q) on connection A, which no accepted request preceded: the authenticator was consulted %d times so far, last %v", i, cred, cnt, last)
			return
		}
		if thenGood {
			continue
		}
		str, err := cl.rawTCP(fmt.Sprintf("t-A-after-%d:80", i))
		if err == nil {
			if ok, msg, rerr := protocol.ReadTCPResponse(str); rerr == nil || str.ReadTotal > 0 {
				e.Fail("(a/d) connection A received a proxy reply (%v, %q) on a 0x401 stream after %s and no accepted one", ok, msg, after)
			}
			str.CancelRead(0)
		}
		_ = cl.dgram(uint32(i), fmt.Sprintf("u-A-after-%d:53", i), []byte("d"))
		if resp, err := cl.request("GET", "example.com", "/auth", nil); err == nil && resp.Status != 404 {
			e.Fail("non-auth request on connection A got status %d after %s and no accepted one", resp.Status, after)
		}
		e.WaitIdle()
		if !judge(after) {
			return
		}
	}
	e.WaitIdle()
	after := fmt.Sprintf("%d rejected auth requests", n)
	if !judge(after) {
		return
	}
	if thenGood {
		resp, err := cl.auth("good", 0)
		if err != nil || resp.Status != protocol.StatusAuthOK {
			e.Fail("valid credentials after %s on connection A got %v %v", after, resp, err)
			return
		}
		if cnt, last := auths(); cnt != n+1 || last.Conn != addr || !last.OK {
			e.Fail("connection A answered 233 after %s although the authenticator was not asked about the accepted credential (consulted %d times, last %v)", after, cnt, last)
			return
		}
		str, err := cl.rawTCP("t-A-accepted:80")
		if err != nil {
			e.Fail("(b) accepted after %s, connection A does not open a proxy stream: %v", after, err)
		} else {
			if ok, msg, err := protocol.ReadTCPResponse(str); err != nil || !ok {
				e.Fail("(b) accepted after %s, a TCP request on connection A got (%v, %q, %v) instead of a Connected response", after, ok, msg, err)
			}
			str.CancelRead(0)
		}
		// and a further rejected credential neither revokes nor re-evaluates
		if resp, err := cl.auth("bad", 0); err != nil || resp.Status != protocol.StatusAuthOK {
			e.Fail("(b) repeated auth request on connection A, accepted after %s, got %v %v", after, resp, err)
		}
		if cnt, _ := auths(); cnt != n+1 {
			e.Fail("(b) authenticator re-evaluated on authenticated connection A (accepted after %s): consulted %d times", after, cnt)
		}
	}
	e.Logf("rejected=%d thenGood=%v auths=%d events=%d", n, thenGood, func() int { c, _ := auths(); return c }(), len(r.Events))
	cl.close()
	e.WaitIdle()
	if !thenGood {
		judge(after + " and the end of the connection")
	}
	r.shutdown(true)
}

// c01NonAuthSpellings: for every spelling of the alphabet (c01Spellings: every combination of
// methods x authorities x paths other than POST hysteria /auth itself, differing from it in at most
// maxDev components) a NEW connection sends that
// non-auth request with the accepted credential in Hysteria-Auth, then a 0x401 stream and a
// datagram. Judged per connection with the property's clauses: the request is not answered 233 but
// with the masquerade response (404, no Hysteria-* header); the stream is not served; no datagram is
// received; nothing is dialled or logged for the connection. Finally the connection sends the REAL
// auth request with the same credential: it is that request which authenticates it (the
// authenticator is asked about it and the connection proxies from then on). (Added after the
// independently seeded change C01-12: POST /auth to authority "hysteria:443", "HYSTERIA", ... was
// evaluated as an authentication request.)
func c01NonAuthSpellings(e *vsched.Exec, maxDev int) {
	r := newRig(e, rigOpts{})
	if r.srv == nil {
		return
	}
	spellings := c01Spellings(maxDev)
	for i, sp := range spellings {
		name := fmt.Sprintf("S%d", i)
		what := fmt.Sprintf("the non-auth request (method %q, authority %q, path %q) carrying accepted credentials", sp.Method, sp.Host, sp.Path)
		cl := r.dial(name)
		sconn := cl.Conn.Peer()
		resp, err := cl.request(sp.Method, sp.Host, sp.Path, c01CredHeader("good"))
		if err != nil {
			e.Fail("%s failed: %v", what, err)
			return
		}
		var hys []string
		for k := range resp.Header {
			if strings.HasPrefix(strings.ToLower(k), "hysteria-") {
				hys = append(hys, k)
			}
		}
		sort.Strings(hys)
		if resp.Status == protocol.StatusAuthOK {
			e.Fail("%s got 233", what)
			return
		}
		if resp.Status != 404 || len(hys) != 0 {
			e.Fail("%s was answered with status %d and Hysteria headers %v instead of the masquerade response (status 404)", what, resp.Status, hys)
			return
		}
		str, err := cl.rawTCP("t-" + name + ":80")
		if err == nil {
			if ok, msg, rerr := protocol.ReadTCPResponse(str); rerr == nil || str.ReadTotal > 0 {
				e.Fail("(a/d) a connection that sent only %s received a proxy reply (%v, %q) on a 0x401 stream", what, ok, msg)
				return
			}
			str.CancelRead(0)
		}
		_ = cl.dgram(1, "u-"+name+":53", []byte("d"))
		e.WaitIdle()
		for _, ev := range r.Events {
			tag := ev.A
			if ev.Kind == "tcpreq" || ev.Kind == "udpreq" {
				tag = ev.B
			}
			switch ev.Kind {
			case "tcp", "udp", "checkudp", "udpwrite", "tcpreq", "udpreq":
				if strings.HasPrefix(tag, "t-"+name+":") || strings.HasPrefix(tag, "u-"+name+":") {
					e.Fail("(a) %v happened on a connection that sent only %s and no auth request", ev, what)
					return
				}
			}
		}
		if sconn.RecvDatagramCalls != 0 {
			e.Fail("(d) ReceiveDatagram issued on a connection that sent only %s and no auth request", what)
			return
		}
		// the real auth request authenticates
		before := len(r.Events)
		if resp, err := cl.auth("good", 0); err != nil || resp.Status != protocol.StatusAuthOK {
			e.Fail("valid credentials after %s got %v %v", what, resp, err)
			return
		}
		asked := false
		for _, ev := range r.Events[before:] {
			if ev.Kind == "auth" && ev.Conn == cl.Addr() && ev.A == "good" && ev.OK {
				asked = true
			}
		}
		if !asked {
			e.Fail("the auth request after %s was answered 233 without the authenticator's verdict on it", what)
			return
		}
		if str, err := cl.rawTCP("t-" + name + "-accepted:80"); err != nil {
			e.Fail("accepted after %s, the connection does not open a proxy stream: %v", what, err)
			return
		} else {
			if ok, msg, err := protocol.ReadTCPResponse(str); err != nil || !ok {
				e.Fail("accepted after %s, a TCP request got (%v, %q, %v) instead of a Connected response", what, ok, msg, err)
				return
			}
			str.CancelRead(0)
			_ = str.Close()
		}
		cl.close()
		e.WaitIdle()
	}
	e.Logf("spellings=%d events=%d", len(spellings), len(r.Events))
	r.shutdown(true)
}

// c01RepeatedAuth: one connection, accepted authentication, then a run of further auth requests
// (rejected and accepted credentials alternating): every one is answered 233 without consulting
// the authenticator again, and after each of them the connection still proxies. "A later rejected
// or repeated attempt does not revoke access" for ANY number of attempts (added after the
// independently seeded change C01-5: the fourth auth request closed the connection).
func c01RepeatedAuth(e *vsched.Exec) {
	r := newRig(e, rigOpts{})
	if r.srv == nil {
		return
	}
	cl := r.dial("A")
	if resp, err := cl.auth("good", 0); err != nil || resp.Status != protocol.StatusAuthOK {
		e.Fail("valid credentials got %v %v", resp, err)
		return
	}
	proxied := func(tag string) {
		str, err := cl.rawTCP("t-" + tag + ":80")
		if err != nil {
			e.Fail("(b) after %s the authenticated connection does not open a proxy stream any more: %v", tag, err)
			return
		}
		ok, msg, err := protocol.ReadTCPResponse(str)
		if err != nil || !ok {
			e.Fail("(b) after %s a TCP request on the authenticated connection got (%v, %q, %v) instead of a Connected response: access was revoked", tag, ok, msg, err)
		}
		str.CancelRead(0)
		_ = str.Close()
	}
	proxied("first-auth")
	for i, cred := range []string{"bad", "good", "bad", "wrong", "good", "bad", "bad", "good"} {
		tag := fmt.Sprintf("repeated-auth-%d-%s", i+1, cred)
		resp, err := cl.auth(cred, 0)
		if err != nil {
			e.Fail("(b) repeated auth request #%d (%q) on the authenticated connection failed: %v", i+1, cred, err)
			break
		}
		if resp.Status != protocol.StatusAuthOK {
			e.Fail("(b) repeated auth request #%d (%q) on the authenticated connection got status %d", i+1, cred, resp.Status)
		}
		proxied(tag)
	}
	n := 0
	for _, ev := range r.Events {
		if ev.Kind == "auth" {
			n++
		}
	}
	if n != 1 {
		e.Fail("(b) the authenticator was consulted %d times for one connection", n)
	}
	cl.close()
	r.shutdown(true)
}

// c01Sequential: connection A authenticates, proxies and ENDS; only then a brand-new connection B,
// which never sends an auth request, tries a 0x401 stream and a datagram. "Acceptance on one
// connection never authorises another connection" also when the two are not alive at the same time
// and whatever per-connection state the server recycles. With and without DisableUDP. (Added after
// the independently seeded change C01-8: handler objects were pooled and, with DisableUDP, went
// back to the pool still marked authenticated.)
func c01Sequential(e *vsched.Exec, disableUDP bool, rounds int) {
	r := newRig(e, rigOpts{DisableUDP: disableUDP})
	if r.srv == nil {
		return
	}
	for k := 0; k < rounds; k++ {
		a := r.dial(fmt.Sprintf("A%d", k))
		if resp, err := a.auth("good", 0); err != nil || resp.Status != protocol.StatusAuthOK {
			e.Fail("valid credentials got %v %v", resp, err)
			return
		}
		if str, err := a.rawTCP(fmt.Sprintf("t-A%d:80", k)); err == nil {
			if ok, msg, err := protocol.ReadTCPResponse(str); err != nil || !ok {
				e.Fail("authenticated connection A%d got (%v, %q, %v) for a TCP request", k, ok, msg, err)
			}
			str.CancelRead(0)
			_ = str.Close()
		}
		a.close()
		e.WaitIdle()
		auths := 0
		for _, ev := range r.Events {
			if ev.Kind == "auth" {
				auths++
			}
		}
		b := r.dial(fmt.Sprintf("B%d", k))
		str, err := b.rawTCP(fmt.Sprintf("t-B%d:80", k))
		if err == nil {
			if ok, msg, rerr := protocol.ReadTCPResponse(str); rerr == nil {
				e.Fail("(a/c) connection B%d never authenticated (it was opened after authenticated connection A%d had ended) and got a proxy reply (%v, %q) on a 0x401 stream", k, k, ok, msg)
			}
			str.CancelRead(0)
			_ = str.Close()
		}
		_ = b.dgram(7, fmt.Sprintf("u-B%d:53", k), []byte("d"))
		e.WaitIdle()
		b.close()
		e.WaitIdle()
		for _, ev := range r.Events {
			tag := ev.A
			if ev.Kind == "tcpreq" || ev.Kind == "udpreq" {
				tag = ev.B
			}
			switch ev.Kind {
			case "tcp", "udp", "checkudp", "udpwrite", "tcpreq", "udpreq":
				if strings.HasPrefix(tag, fmt.Sprintf("t-B%d", k)) || strings.HasPrefix(tag, fmt.Sprintf("u-B%d", k)) {
					e.Fail("(a/c) %v happened for connection B%d, which never sent an auth request; it was opened after authenticated connection A%d had ended", ev, k, k)
				}
			}
		}
		n := 0
		for _, ev := range r.Events {
			if ev.Kind == "auth" {
				n++
			}
		}
		if n != auths {
			e.Fail("the authenticator was consulted for connection B%d, which sent no auth request", k)
		}
	}
	r.shutdown(true)
}

func TestVerifC01(t *testing.T) {
	env := evidence.GetEnv("C01")
	explore.Main(t, "C01", c01Scenarios(env.Thorough()))
}
