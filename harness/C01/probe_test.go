package server

import (
	"fmt"
	"os"
	"strings"
	"testing"

	"verif.local/engine/explore"
)

func TestVerifC01Probe(t *testing.T) {
	var scs []*explore.Scenario
	for _, s := range c01Scenarios(false) {
		if strings.Contains(s.Name, os.Getenv("VERIF_ONLY")) {
			scs = append(scs, s)
		}
	}
	for _, l := range explore.Probe(scs) {
		fmt.Println(l)
	}
}
