package brutal

// C11 harness (injected by overlay into core/internal/congestion/brutal).
//
// A simulated QUIC send loop on a virtual monotonic clock drives the real BrutalSender (and
// through it the real common.Pacer) with every action sequence up to a depth, on every point
// of a (rate x datagram size x smoothed RTT x loss compensation) grid. Nothing here reads the
// wall clock: all times are monotime.Time values made up by the harness.

import (
	"encoding/json"
	"fmt"
	"math/bits"
	"os"
	"strings"
	"testing"
	"time"

	"github.com/apernet/hysteria/core/v2/internal/congestion/common"
	"github.com/apernet/quic-go/congestion"
	"github.com/apernet/quic-go/monotime"
	"verif.local/engine/enum"
	"verif.local/engine/evidence"
)

// ---------------------------------------------------------------------------------------------
// grid

var (
	c11Rates = []uint64{65536, 65537, 100000, 1000000, 12500000, 125000000, 1250000000, 5000000000}
	c11Sizes = []int64{1200, 1252, 1350, 1452, 1500, 1501}
	c11RTTs  = []time.Duration{0, time.Millisecond, 50 * time.Millisecond, 300 * time.Millisecond}
	c11Comp  = []bool{true, false} // loss compensation enabled?
)

type c11Grid struct {
	Rate  uint64 `json:"rate"`
	Size  int64  `json:"dgram"`
	RTTns int64  `json:"rtt_ns"`
	Comp  bool   `json:"loss_compensation"`
	// Debug: the sender is created while the environment option HYSTERIA_BRUTAL_DEBUG=true (part
	// debug-on). Not a grid axis of the other parts: they keep the option unset.
	// Added after the independently seeded change C11-13 (in debug mode the factor was assigned only
	// when the rate-limited debug line was due, so it stayed stale for up to 2 s).
	Debug bool `json:"brutal_debug_env,omitempty"`
}

func (g c11Grid) String() string {
	s := fmt.Sprintf("rate=%d,dgram=%d,rtt=%s,comp=%v", g.Rate, g.Size, time.Duration(g.RTTns), g.Comp)
	if g.Debug {
		s += ",HYSTERIA_BRUTAL_DEBUG=true"
	}
	return s
}

// ---------------------------------------------------------------------------------------------
// action alphabet

type c11Action int

const (
	c11Send1   c11Action = iota // one datagram if CanSend && HasPacingBudget(now)
	c11Burst                    // up to c11BurstCap datagrams while allowed, at the same instant
	c11Drain                    // datagrams while allowed, at the same instant, no cap (safety cap c11DrainCap)
	c11Pace                     // the steady-state loop: c11PaceN x (sleep until announced; one datagram if allowed)
	c11Sleep                    // sleep until the time TimeUntilSend announces
	c11Sleep1                   // ... and wake 1ns late
	c11Idle1                    // idle 1s
	c11Idle10                   // idle 10s
	c11NextSec                  // advance to the next whole-second boundary
	c11Ack49_0                  // ack/loss batches (n acked, m lost)
	c11Ack50_0
	c11Ack40_10
	c11Ack39_11
	c11Ack10_40
	c11Ack0_50
	c11Probe // a datagram sent WITHOUT asking the pacer (quic-go: PTO probes and ACK-only packets bypass HasPacingBudget)
	c11MTU   // path-MTU discovery raises the datagram size (quic-go calls SetMaxDatagramSize after the probe's ACK): +172 bytes, up to 1500
	// small batches (part small-batches): each is well below the 50-sample threshold on its own, so
	// the threshold is crossed by an ACCUMULATION of batches - with the losses and the crossing in
	// different batches. Sizes from the two constants: 10+10 then 40 acked = 50/60 (between), 10+30
	// then 20 acked = 30/60 (clamped at 0.8), 1+0 / 0+1 = what one ACK frame usually carries.
	// Added after the independently seeded change C11-8 (an ACK-only batch arriving while the factor
	// is 1 skipped the recomputation, so losses counted below 50 samples were never applied).
	c11Ack10_10
	c11Ack10_30
	c11Ack20_0
	c11Ack40_0
	c11Ack1_0
	c11Ack0_1
	// datagrams reported to the controller as NOT ack-eliciting (part ack-only). quic-go's
	// sentPacketHandler.SentPacket calls OnPacketSent for EVERY 1-RTT packet and passes isAckEliciting
	// as the last argument: an ACK-only packet written in send mode SendAny (CanSend && HasPacingBudget
	// held) is a datagram released by pacing like any other - only its flag is false and it does not
	// count into the bytes in flight. The "-mixed" actions alternate such datagrams with ordinary ones
	// (first not ack-eliciting, second ack-eliciting, ...), which is what a connection that both
	// receives and sends produces. The rate bound counts every byte released, whatever the flag.
	// Added after the independently seeded change C11-9 (OnPacketSent returned early for packets
	// reported as not retransmittable, so they were released without being charged to the pacer).
	c11SendNA   // one not-ack-eliciting datagram if CanSend && HasPacingBudget(now)
	c11BurstMix // burst16 with alternating flags
	c11DrainMix // drain with alternating flags
	c11PaceMix  // pace16 with alternating flags
	// ack/loss batches whose event time is NOT the handling time (part late-acks). quic-go stamps a
	// batch found by an ACK frame with the RECEIVE time of the datagram that carried it (rcvTime, the
	// datagram may have waited in the connection's queue) and a batch found by the loss timer with
	// "now", and its run loop may handle the timer before the already-queued datagram: the event times
	// the controller sees are not monotone, and a batch stamped in second N can follow one stamped in
	// second N+1. "@rcv-<lag>" = the batch is handled now and stamped now-lag; a sample belongs to the
	// second it was stamped with. Lags: 2ms (a queued datagram; steps back over a second boundary only
	// right after one) and 1s (always stamps the previous second).
	// Added after the independently seeded change C11-10 (the slot an event maps to was recycled
	// whenever the event's second differed from the second of the previous event, so a batch stamped
	// one second back wiped the still-valid samples of that second).
	c11AckLate2ms50_0
	c11AckLate2ms40_10
	c11AckLate1s50_0
	c11AckLate1s40_10
	c11NActions
)

var c11ActionNames = [c11NActions]string{
	"send1", "burst16", "drain", "pace16", "sleep", "sleep+1ns", "idle1s", "idle10s", "nextsec",
	"ack(49,0)", "ack(50,0)", "ack(40,10)", "ack(39,11)", "ack(10,40)", "ack(0,50)", "probe", "mtu+172",
	"ack(10,10)", "ack(10,30)", "ack(20,0)", "ack(40,0)", "ack(1,0)", "ack(0,1)",
	"send1-ackonly", "burst16-mixed", "drain-mixed", "pace16-mixed",
	"ack(50,0)@rcv-2ms", "ack(40,10)@rcv-2ms", "ack(50,0)@rcv-1s", "ack(40,10)@rcv-1s",
}

var c11Batches = [c11NActions][2]int{
	c11Ack49_0: {49, 0}, c11Ack50_0: {50, 0}, c11Ack40_10: {40, 10}, c11Ack39_11: {39, 11}, c11Ack10_40: {10, 40}, c11Ack0_50: {0, 50},
	c11Ack10_10: {10, 10}, c11Ack10_30: {10, 30}, c11Ack20_0: {20, 0}, c11Ack40_0: {40, 0}, c11Ack1_0: {1, 0}, c11Ack0_1: {0, 1},
	c11AckLate2ms50_0: {50, 0}, c11AckLate2ms40_10: {40, 10}, c11AckLate1s50_0: {50, 0}, c11AckLate1s40_10: {40, 10},
}

// c11RcvLag: how long before it is handled a batch was stamped (0 = stamped with the handling time).
// Added after the independently seeded change C11-10 (see c11AckLate2ms50_0).
var c11RcvLag = [c11NActions]int64{
	c11AckLate2ms50_0: int64(2 * time.Millisecond), c11AckLate2ms40_10: int64(2 * time.Millisecond),
	c11AckLate1s50_0: int64(time.Second), c11AckLate1s40_10: int64(time.Second),
}

const (
	c11BurstCap = 16    // > maxBurstPackets(10)+1: an over-long burst is visible
	c11PaceN    = 16    // a pacing bandwidth more than 1/16 above rate/0.8 shows after one drain + one pace16
	c11DrainCap = 40000 // above the largest possible legal burst (25 MB / 1200 B = 20834 datagrams)
	// the virtual clock starts where quic-go's monotime starts (process start is "one hour ago"), 1ms
	// before a whole-second boundary so that short pacing sleeps cross a slot boundary
	c11Start = int64(3600*time.Second) + int64(999*time.Millisecond)
)

// alphabets of the two parts
var (
	c11AlphaSeq = []c11Action{c11Send1, c11Burst, c11Sleep, c11Sleep1, c11Idle1, c11Idle10, c11NextSec,
		c11Ack49_0, c11Ack50_0, c11Ack40_10, c11Ack39_11, c11Ack10_40, c11Ack0_50}
	// unpaced sends interleaved with paced ones (added after the seeded change C11-1 was missed)
	// (mtu+172 added after the seeded change C11-4: a window memoised across a datagram-size increase)
	c11AlphaProbe = []c11Action{c11Send1, c11Drain, c11Probe, c11Pace, c11Sleep, c11Idle1, c11Ack50_0, c11Ack40_10, c11MTU}
	c11AlphaDrain = []c11Action{c11Send1, c11Drain, c11Pace, c11Sleep, c11Sleep1, c11Idle1, c11Idle10, c11NextSec,
		c11Ack49_0, c11Ack50_0, c11Ack40_10, c11Ack39_11, c11Ack10_40, c11Ack0_50, c11MTU}
	// histories of SMALL batches: the 50-sample threshold is reached over several batches, inside
	// or across the five-second window (idle1s / idle10s / nextsec age them), with losses and
	// ACK-only batches in every order; the sends show the factor in the pacing rate and the window.
	// (added after the independently seeded change C11-8: an ACK-only batch at factor 1 skipped
	// the recomputation of the factor)
	c11AlphaSmall = []c11Action{c11Send1, c11Burst, c11Sleep, c11Idle1, c11Idle10, c11NextSec,
		c11Ack10_10, c11Ack10_30, c11Ack20_0, c11Ack40_0, c11Ack1_0, c11Ack0_1}
	// sends whose isRetransmittable flag is false, alone and mixed with ordinary sends, in every order
	// with paced sends, sleeps, an idle gap and two batches (the factor changes the pacing rate).
	// (added after the independently seeded change C11-9: packets reported as not retransmittable
	// were no longer charged to the pacer's token bucket)
	c11AlphaAckOnly = []c11Action{c11Send1, c11SendNA, c11BurstMix, c11DrainMix, c11PaceMix, c11Sleep, c11Idle1,
		c11Ack50_0, c11Ack40_10}
	// batches stamped with the handling time (loss timer: "now") in every order with batches stamped
	// with an earlier receive time (ACK frames: rcvTime), around second boundaries (the clock starts
	// 1ms before one; sleep / idle1s / nextsec cross them): event times that step back over a boundary.
	// (added after the independently seeded change C11-10: a batch stamped one second back recycled
	// the slot holding that second's samples)
	c11AlphaLate = []c11Action{c11Send1, c11Sleep, c11Idle1, c11NextSec, c11Ack50_0, c11Ack40_10,
		c11AckLate2ms50_0, c11AckLate2ms40_10, c11AckLate1s50_0, c11AckLate1s40_10}
	// the neighbouring diagnostics option HYSTERIA_BRUTAL_DEBUG=true (part debug-on): the property does
	// not mention it, so every clause holds with it as without it. The debug line is limited to one per
	// debugPrintInterval = 2 s of event time: batches whose correct factors differ (1 / between / 0.8,
	// by one batch or by accumulation) arrive in the same second, one second (nextsec: 1 ms; idle1s)
	// and 2 s = the interval itself (idle1s idle1s) or 10 s apart; the sends show the factor in the
	// pacing rate and the window.
	// (added after the independently seeded change C11-13: in debug mode the new factor was dropped
	// whenever the debug line was not yet due)
	c11AlphaDebug = []c11Action{c11Send1, c11Burst, c11Sleep, c11Idle1, c11Idle10, c11NextSec,
		c11Ack50_0, c11Ack40_10, c11Ack10_40, c11Ack10_30, c11Ack40_0}
)

// ---------------------------------------------------------------------------------------------
// fake RTT statistics

type c11RTTStats struct{ srtt time.Duration }

func (r *c11RTTStats) MinRTT() time.Duration                       { return r.srtt }
func (r *c11RTTStats) LatestRTT() time.Duration                    { return r.srtt }
func (r *c11RTTStats) SmoothedRTT() time.Duration                  { return r.srtt }
func (r *c11RTTStats) MeanDeviation() time.Duration                { return 0 }
func (r *c11RTTStats) MaxAckDelay() time.Duration                  { return 0 }
func (r *c11RTTStats) PTO(bool) time.Duration                      { return 3 * r.srtt }
func (r *c11RTTStats) UpdateRTT(sendDelta, ackDelay time.Duration) {}
func (r *c11RTTStats) SetMaxAckDelay(mad time.Duration)            {}
func (r *c11RTTStats) SetInitialRTT(t time.Duration)               {}

// ---------------------------------------------------------------------------------------------
// simulator = real sender + send loop state + what the reference needs

type c11AckEv struct {
	sec  int64
	a, l uint64
}

type c11Viol struct {
	Clause string // short stable name (part of the signature)
	Detail string // numbers
}

type c11Sim struct {
	g   c11Grid
	bs  *BrutalSender
	rtt *c11RTTStats

	now      int64
	inflight congestion.ByteCount
	pn       congestion.PacketNumber
	hasSent  bool
	lastSend int64

	// send events grouped by instant (stack)
	grpT []int64
	grpB []int64
	// ack/loss events (stack)
	hist []c11AckEv

	acked []congestion.AckedPacketInfo
	lost  []congestion.LostPacketInfo

	// reference constants
	size     congestion.ByteCount
	bwMax    uint64 // ceil(rate/0.8)
	maxBurst int64  // bytes

	packets int64 // total datagrams handed to OnPacketSent (statistics)

	by *c11Sim // a second sender living in the same process (part two-senders), stepped after every step
}

type c11Snap struct {
	// the WHOLE sender by value (not a list of the fields known today: a field the sender gains must
	// travel with the snapshot, or a backtracked search would run on a state no history produces)
	bs       BrutalSender
	pacer    common.Pacer
	now      int64
	inflight congestion.ByteCount
	pn       congestion.PacketNumber
	hasSent  bool
	lastSend int64
	nGrp     int
	lastGrpB int64
	nHist    int
	by       *c11Snap
	size     congestion.ByteCount
}

func c11CeilDiv(a, b uint64) uint64 { return (a + b - 1) / b }

func c11NewSim(g c11Grid) *c11Sim {
	s := &c11Sim{g: g, rtt: &c11RTTStats{srtt: time.Duration(g.RTTns)}}
	if g.Debug {
		// the option is read once, when the sender is created (bin/vcheck runs the shards with it unset)
		s.bs = c11NewDebugSender(g.Rate, !g.Comp)
	} else {
		s.bs = NewBrutalSender(g.Rate, !g.Comp)
		s.bs.debug = false // HYSTERIA_BRUTAL_DEBUG must not matter (debugPrint reads the wall clock)
	}
	s.bs.SetRTTStatsProvider(s.rtt)
	s.bs.SetMaxDatagramSize(congestion.ByteCount(g.Size))
	s.size = congestion.ByteCount(g.Size)
	s.now = c11Start
	s.acked = make([]congestion.AckedPacketInfo, 50)
	s.lost = make([]congestion.LostPacketInfo, 50)
	// Reference constants, from the property text and the pacer's two burst constants:
	// the pacing bandwidth never exceeds rate/0.8; a burst is at most max(10 datagrams,
	// 4 x MinPacingDelay(1ms) worth of that bandwidth).
	s.bwMax = c11CeilDiv(g.Rate*5, 4)
	mb := int64(c11CeilDiv(s.bwMax*4, 1000)) // 4ms of bwMax
	if p := 10 * g.Size; p > mb {
		mb = p
	}
	s.maxBurst = mb
	return s
}

// c11NewDebugSender creates the sender the way a process started with HYSTERIA_BRUTAL_DEBUG=true does:
// the variable is set around NewBrutalSender only and put back. The debug lines of such a sender go
// to os.Stdout (with a wall-clock time of day in them, which nothing here reads); c11RunPart points
// os.Stdout at the null device while the part runs so that the shard's captured output stays small.
// Added after the independently seeded change C11-13 (see c11AlphaDebug).
func c11NewDebugSender(bps uint64, disableLossCompensation bool) *BrutalSender {
	old, had := os.LookupEnv(debugEnv)
	os.Setenv(debugEnv, "true")
	defer func() {
		if had {
			os.Setenv(debugEnv, old)
		} else {
			os.Unsetenv(debugEnv)
		}
	}()
	return NewBrutalSender(bps, disableLossCompensation)
}

// setSize: the reference constants that depend on the datagram size.
func (s *c11Sim) setSize(n congestion.ByteCount) {
	s.size = n
	mb := int64(c11CeilDiv(s.bwMax*4, 1000)) // 4ms of bwMax
	if p := 10 * int64(n); p > mb {
		mb = p
	}
	s.maxBurst = mb
}

func (s *c11Sim) save() c11Snap {
	sn := c11Snap{bs: *s.bs, pacer: *s.bs.pacer,
		now: s.now, inflight: s.inflight, pn: s.pn, hasSent: s.hasSent, lastSend: s.lastSend, nGrp: len(s.grpT), nHist: len(s.hist),
		size: s.size}
	if n := len(s.grpB); n > 0 {
		sn.lastGrpB = s.grpB[n-1]
	}
	if s.by != nil {
		b := s.by.save()
		sn.by = &b
	}
	return sn
}

func (s *c11Sim) restore(sn *c11Snap) {
	*s.bs = sn.bs // (the pacer pointer in it is the one the sender was built with)
	*s.bs.pacer = sn.pacer
	s.now, s.inflight, s.pn, s.hasSent, s.lastSend = sn.now, sn.inflight, sn.pn, sn.hasSent, sn.lastSend
	if s.size != sn.size {
		s.setSize(sn.size)
	}
	s.grpT, s.grpB, s.hist = s.grpT[:sn.nGrp], s.grpB[:sn.nGrp], s.hist[:sn.nHist]
	if sn.nGrp > 0 {
		s.grpB[sn.nGrp-1] = sn.lastGrpB
	}
	if s.by != nil && sn.by != nil {
		s.by.restore(sn.by)
	}
}

func (s *c11Sim) mt() monotime.Time { return monotime.Time(s.now) }

// allowed: what sentPacketHandler.SendMode asks before SendAny.
func (s *c11Sim) allowed() bool {
	return s.bs.CanSend(s.inflight) && s.bs.HasPacingBudget(s.mt())
}

// sendOne releases one datagram. elicit is quic-go's isAckEliciting, passed on as OnPacketSent's
// isRetransmittable; only ack-eliciting packets count into the bytes in flight (SentPacket).
func (s *c11Sim) sendOne(elicit bool) {
	if elicit {
		s.inflight += s.size
	}
	s.pn++
	s.bs.OnPacketSent(s.mt(), s.inflight, s.pn, s.size, elicit)
	s.packets++
	s.hasSent, s.lastSend = true, s.now
	if n := len(s.grpT); n > 0 && s.grpT[n-1] == s.now {
		s.grpB[n-1] += int64(s.size)
	} else {
		s.grpT = append(s.grpT, s.now)
		s.grpB = append(s.grpB, int64(s.size))
	}
}

// gapOK: the property only speaks about gaps with rate x gap < 2^63 (gap = time since the last
// send, which is what the pacer multiplies); the conservative rate/0.8 is used.
func (s *c11Sim) gapOK(newNow int64) bool {
	if !s.hasSent {
		return true
	}
	hi, lo := bits.Mul64(s.bwMax, uint64(newNow-s.lastSend))
	return hi == 0 && lo < 1<<63
}

// ---- oracle clauses

// clause 2 (range) + 3 + 4: state invariants, checked after every step and between the
// datagrams of a burst.
func (s *c11Sim) checkState() *c11Viol {
	r := s.bs.ackRate
	if !(r >= 0.8 && r <= 1) {
		return &c11Viol{"ackrate-range", fmt.Sprintf("loss-compensation factor %v outside [0.8,1]", r)}
	}
	if w := s.bs.GetCongestionWindow(); w < s.size {
		return &c11Viol{"cwnd-below-datagram", fmt.Sprintf("GetCongestionWindow()=%d < datagram size %d", w, s.size)}
	}
	t := s.bs.TimeUntilSend(s.inflight)
	if t == 0 {
		if !s.bs.HasPacingBudget(s.mt()) {
			return &c11Viol{"send-now-without-budget", fmt.Sprintf("TimeUntilSend()=0 (send immediately) but HasPacingBudget(now=%d) is false: the send loop spins", s.now)}
		}
	} else {
		w := max(t, s.mt())
		if !s.bs.HasPacingBudget(w) {
			return &c11Viol{"wakeup-insufficient", fmt.Sprintf("TimeUntilSend()=%d (now=%d, last send %d) but HasPacingBudget(%d) is false: budget %d < datagram %d at the announced time",
				int64(t), s.now, s.lastSend, int64(w), s.bs.pacer.Budget(w), s.size)}
		}
	}
	return nil
}

// clause 1: for every pair of send events (the newest group against all earlier groups, and
// itself): bytes released in [t_i, t_j] <= maxBurst + rate/0.8 * (t_j - t_i) + one datagram.
func (s *c11Sim) checkRate() *c11Viol {
	j := len(s.grpT) - 1
	if j < 0 {
		return nil
	}
	var sum int64
	for i := j; i >= 0; i-- {
		sum += s.grpB[i]
		dt := uint64(s.grpT[j] - s.grpT[i])
		hi, lo := bits.Mul64(s.g.Rate*5, dt)
		q, rem := bits.Div64(hi, lo, 4e9) // hi < 4e9 always: rate*5 < 2^35, dt < 2^40
		if rem > 0 {
			q++
		}
		bound := s.maxBurst + int64(q) + int64(s.size)
		if sum > bound {
			return &c11Viol{"rate-exceeded", fmt.Sprintf("%d bytes released between t=%d and t=%d (dt=%dns) > bound %d = maxBurst %d + rate/0.8*dt %d + one datagram %d",
				sum, s.grpT[i], s.grpT[j], dt, bound, s.maxBurst, q, s.size)}
		}
	}
	return nil
}

// reference loss-compensation factor, from the property statement: acked/(acked+lost) over the
// last w whole seconds (the one in progress included), 1 below 50 samples or when disabled,
// never below 0.8.
func (s *c11Sim) refAckRate(curSec int64, w int64) float64 {
	if !s.g.Comp {
		return 1
	}
	var a, l uint64
	for _, e := range s.hist {
		if e.sec > curSec-w && e.sec <= curSec {
			a += e.a
			l += e.l
		}
	}
	if a+l < 50 {
		return 1
	}
	r := float64(a) / float64(a+l)
	if r < 0.8 {
		r = 0.8
	}
	return r
}

func c11Close(a, b float64) bool { d := a - b; return d < 1e-12 && d > -1e-12 }

func (s *c11Sim) checkAckRate() *c11Viol {
	cur := s.now / int64(time.Second)
	got := s.bs.ackRate
	r4, r5, r6 := s.refAckRate(cur, 4), s.refAckRate(cur, 5), s.refAckRate(cur, 6)
	if c11Close(got, r4) || c11Close(got, r5) || c11Close(got, r6) {
		return nil
	}
	return &c11Viol{"ackrate-wrong", fmt.Sprintf("after the batch at second %d the factor is %v; reference over the last 4/5/6 s: %v/%v/%v (events stamped sec:acked/lost %s)",
		cur, got, r4, r5, r6, s.histString())}
}

func (s *c11Sim) histString() string {
	var b strings.Builder
	for _, e := range s.hist {
		fmt.Fprintf(&b, "%d:%d/%d ", e.sec, e.a, e.l)
	}
	return strings.TrimSpace(b.String())
}

// step performs one action. eff=false: the action changed nothing (the sequence is equivalent
// to the one without it); disabled=true: the action is outside the property's range here.
// c11BystanderActs: what the OTHER connection of the same process does between two steps of the
// connection under test (part two-senders): whatever the package shares between senders, the
// sender under test must keep meeting its own reference.
var c11BystanderActs = []c11Action{c11Burst, c11Ack10_40, c11Send1}

func (s *c11Sim) step(a c11Action) (eff, disabled bool, v *c11Viol) {
	eff, disabled, v = s.step1(a)
	if v != nil || s.by == nil || disabled {
		return
	}
	if s.by.now < s.now {
		if !s.by.gapOK(s.now) {
			return
		}
		s.by.now = s.now
	}
	for _, ba := range c11BystanderActs {
		if _, _, bv := s.by.step1(ba); bv != nil {
			return eff, disabled, &c11Viol{"bystander-" + bv.Clause, "the other sender (" + s.by.g.String() + "): " + bv.Detail}
		}
	}
	return
}

func (s *c11Sim) step1(a c11Action) (eff, disabled bool, v *c11Viol) {
	switch a {
	case c11MTU:
		ns := s.size + 172
		if ns > 1500 {
			ns = 1500
		}
		if ns == s.size {
			return false, false, nil
		}
		s.bs.SetMaxDatagramSize(ns)
		s.setSize(ns)
		return true, false, s.checkState()
	case c11Send1, c11Burst, c11Drain, c11SendNA, c11BurstMix, c11DrainMix:
		limit := 1
		if a == c11Burst || a == c11BurstMix {
			limit = c11BurstCap
		} else if a == c11Drain || a == c11DrainMix {
			limit = c11DrainCap
		}
		// flags: ordinary actions all ack-eliciting; the C11-9 actions start with a datagram that
		// is not, and alternate
		mixed := a == c11SendNA || a == c11BurstMix || a == c11DrainMix
		n := 0
		for n < limit && s.allowed() {
			s.sendOne(!mixed || n%2 == 1)
			n++
			if n < limit { // intermediate state of a burst: the loop may stop here
				if v = s.checkState(); v != nil {
					return true, false, v
				}
			}
		}
		if n == 0 {
			return false, false, s.checkState()
		}
		if (a == c11Drain || a == c11DrainMix) && n == c11DrainCap {
			return true, false, &c11Viol{"rate-exceeded", fmt.Sprintf("%d datagrams released at one instant and still allowed", n)}
		}
		if v = s.checkRate(); v != nil {
			return true, false, v
		}
		return true, false, s.checkState()
	case c11Probe:
		// reported to the controller like any packet, but not released by pacing: it must not
		// buy the pacer any budget
		s.inflight += s.size
		s.pn++
		s.bs.OnPacketSent(s.mt(), s.inflight, s.pn, s.size, true)
		s.packets++
		s.hasSent, s.lastSend = true, s.now
		return true, false, s.checkState()
	case c11Pace, c11PaceMix:
		for i := 0; i < c11PaceN; i++ {
			if t := int64(s.bs.TimeUntilSend(s.inflight)); t > s.now {
				if !s.gapOK(t) {
					break
				}
				s.now = t
				eff = true
			}
			if !s.allowed() { // window-limited (pacing-limited here is clause 4, reported by checkState)
				break
			}
			s.sendOne(a == c11Pace || i%2 == 1)
			eff = true
			if v = s.checkRate(); v != nil {
				return true, false, v
			}
			if v = s.checkState(); v != nil {
				return true, false, v
			}
		}
		return eff, false, s.checkState()
	case c11Sleep, c11Sleep1:
		t := int64(s.bs.TimeUntilSend(s.inflight))
		if t <= s.now { // zero = "send immediately", or already due: the timer fires at once
			return false, false, s.checkState()
		}
		if a == c11Sleep1 {
			t++
		}
		if !s.gapOK(t) {
			return false, true, nil
		}
		s.now = t
		// the announced wake-up must suffice (clause 4, from the sleeper's side)
		if !s.bs.HasPacingBudget(s.mt()) {
			return true, false, &c11Viol{"wakeup-insufficient", fmt.Sprintf("woke at the announced time %d (+%dns) and HasPacingBudget is false: budget %d < datagram %d",
				t, int(a-c11Sleep), s.bs.pacer.Budget(s.mt()), s.size)}
		}
		return true, false, s.checkState()
	case c11Idle1, c11Idle10, c11NextSec:
		var t int64
		switch a {
		case c11Idle1:
			t = s.now + int64(time.Second)
		case c11Idle10:
			t = s.now + int64(10*time.Second)
		default:
			t = (s.now/int64(time.Second) + 1) * int64(time.Second)
		}
		if !s.gapOK(t) {
			return false, true, nil
		}
		s.now = t
		return true, false, s.checkState()
	default: // ack/loss batch
		n, m := c11Batches[a][0], c11Batches[a][1]
		prior := s.inflight
		if d := congestion.ByteCount(n+m) * s.size; d > s.inflight {
			s.inflight = 0
		} else {
			s.inflight -= d
		}
		// the time the batch is stamped with: the handling time, or (C11-10) an earlier receive time;
		// the reference counts a sample in the second it was stamped with
		stamp := s.now - c11RcvLag[a]
		s.hist = append(s.hist, c11AckEv{stamp / int64(time.Second), uint64(n), uint64(m)})
		s.bs.OnCongestionEventEx(prior, monotime.Time(stamp), s.acked[:n], s.lost[:m])
		if v = s.checkState(); v != nil {
			return true, false, v
		}
		return true, false, s.checkAckRate()
	}
}

// ---------------------------------------------------------------------------------------------
// bounded-exhaustive search of one grid point: every action sequence of length <= depth
// (sequences containing an action without effect are equivalent to the shorter one and cut).
// The shortest violating sequence (first in alphabet order among the shortest) is kept.

type c11Search struct {
	sim      *c11Sim
	alpha    []c11Action
	limit    int // current maximal length still of interest
	cur      []c11Action
	best     []c11Action
	bestV    *c11Viol
	steps    int64 // real-code steps evaluated
	seqs     int64 // distinct fully effective sequences (tree nodes)
	noops    int64
	disabled int64
	expired  func() bool
	aborted  bool
	classes  map[uint64]struct{}
	gi       int
}

func (q *c11Search) found(v *c11Viol) {
	q.best = append([]c11Action{}, q.cur...)
	q.bestV = v
	q.limit = len(q.cur) - 1
}

func (q *c11Search) class(a c11Action, eff bool) {
	s := q.sim
	k := uint64(q.gi)<<16 | uint64(a)<<8
	if eff {
		k |= 1
	}
	if !s.bs.HasPacingBudget(s.mt()) {
		k |= 2
	}
	if !s.bs.CanSend(s.inflight) {
		k |= 4
	}
	switch r := s.bs.ackRate; {
	case r == 1:
	case r == 0.8:
		k |= 8
	default:
		k |= 16
	}
	q.classes[k] = struct{}{}
}

func (q *c11Search) dfs() {
	if len(q.cur) >= q.limit {
		return
	}
	for _, a := range q.alpha {
		if len(q.cur) >= q.limit || q.aborted {
			return
		}
		sn := q.sim.save()
		q.cur = append(q.cur, a)
		eff, dis, v := q.sim.step(a)
		switch {
		case dis:
			q.disabled++
		default:
			q.steps++
			if q.steps&0x3ffff == 0 && q.expired != nil && q.expired() {
				q.aborted = true
			}
			q.class(a, eff)
			if v != nil {
				q.found(v)
			} else if !eff {
				q.noops++
			} else {
				q.seqs++
				q.dfs()
			}
		}
		q.cur = q.cur[:len(q.cur)-1]
		q.sim.restore(&sn)
	}
}

// run searches one grid point; a panic in the code under test is a violation at the current sequence.
func (q *c11Search) run(depth int) {
	q.limit = depth
	val, stack := evidence.Catch(func() {
		q.steps++
		q.seqs++
		if v := q.sim.checkState(); v != nil { // empty sequence
			q.found(v)
			return
		}
		q.dfs()
	})
	if val != nil {
		q.best = append([]c11Action{}, q.cur...)
		q.bestV = &c11Viol{"panic", fmt.Sprintf("panic: %v at %s", val, evidence.PanicSite(stack))}
	}
}

// ---------------------------------------------------------------------------------------------
// replay record

type c11Case struct {
	Part   string   `json:"part"`
	Grid   c11Grid  `json:"grid"`
	Seq    []string `json:"seq"`
	Clause string   `json:"clause,omitempty"`
	By     *c11Grid `json:"other_sender,omitempty"` // part two-senders
}

func c11SeqNames(seq []c11Action) []string {
	out := make([]string, len(seq))
	for i, a := range seq {
		out[i] = c11ActionNames[a]
	}
	return out
}

func c11Sig(part string, g c11Grid, clause string, seq []string) string {
	return fmt.Sprintf("%s/%s/%s/seq=[%s]", part, clause, g, strings.Join(seq, " "))
}

// c11RunCase executes one sequence from scratch and returns the first violation (or nil).
func c11RunCase(c *c11Case) (v *c11Viol, at int, trace string) {
	var tr strings.Builder
	val, stack := evidence.Catch(func() {
		s := c11NewSim(c.Grid)
		if c.By != nil {
			s.by = c11NewSim(*c.By)
		}
		if v = s.checkState(); v != nil {
			return
		}
		for i, name := range c.Seq {
			a := c11Action(-1)
			for k, n := range c11ActionNames {
				if n == name {
					a = c11Action(k)
				}
			}
			if a < 0 {
				v = &c11Viol{"bad-replay", "unknown action " + name}
				return
			}
			at = i + 1
			before := s.packets
			eff, dis, vv := s.step(a)
			fmt.Fprintf(&tr, "%s{now=%d sent=%d inflight=%d factor=%v eff=%v dis=%v} ", name, s.now, s.packets-before, s.inflight, s.bs.ackRate, eff, dis)
			if vv != nil {
				v = vv
				return
			}
		}
	})
	if val != nil {
		v = &c11Viol{"panic", fmt.Sprintf("panic: %v at %s", val, evidence.PanicSite(stack))}
	}
	return v, at, tr.String()
}

// ---------------------------------------------------------------------------------------------
// enumeration

type c11PartCfg struct {
	name  string
	alpha []c11Action
	depth int
	two   bool // a second sender of another rate/size/compensation setting is stepped after every step
	debug bool // the senders are created while HYSTERIA_BRUTAL_DEBUG=true (added after the seeded change C11-13)
}

func c11Depths(thorough bool) (seq, drain, small int) {
	if thorough {
		return 7, 5, 6
	}
	return 6, 4, 5
}

func c11Enumerate(sh *evidence.Shard) {
	env := sh.Env()
	dSeq, dDrain, dSmall := c11Depths(env.Thorough())
	parts := []c11PartCfg{
		// (the small targeted parts first: on a loaded machine the deadline then cuts the big one)
		{"two-senders", c11AlphaSeq, dDrain, true, false},
		{"probe", c11AlphaProbe, dDrain + 1, false, false},
		// added after the independently seeded change C11-8 (see c11AlphaSmall)
		{"small-batches", c11AlphaSmall, dSmall, false, false},
		// added after the independently seeded change C11-9 (see c11AlphaAckOnly)
		{"ack-only", c11AlphaAckOnly, dDrain, false, false},
		// added after the independently seeded change C11-10 (see c11AlphaLate)
		{"late-acks", c11AlphaLate, dDrain + 1, false, false},
		// added after the independently seeded change C11-13 (see c11AlphaDebug)
		{"debug-on", c11AlphaDebug, dDrain, false, true},
		{"drain", c11AlphaDrain, dDrain, false, false},
		{"seq", c11AlphaSeq, dSeq, false, false},
	}
	for _, pc := range parts {
		c11RunPart(sh, pc)
	}
}

func c11RunPart(sh *evidence.Shard, pc c11PartCfg) {
	env := sh.Env()
	if pc.debug {
		// the debug lines of the senders of this part (one per 2 s of event time on every path of the
		// search) are not evidence: keep them out of the shard's captured output
		if null, err := os.OpenFile(os.DevNull, os.O_WRONLY, 0); err == nil {
			stdout := os.Stdout
			os.Stdout = null
			defer func() { os.Stdout = stdout; null.Close() }()
		}
	}
	p := sh.Part(pc.name, "enum")
	names := c11SeqNames(pc.alpha)
	alpha := map[string]any{
		"rate_Bps": c11Rates, "datagram": c11Sizes, "smoothed_rtt": []string{"0(none)", "1ms", "50ms", "300ms"}, "loss_compensation": []string{"on", "off"},
		"actions":          names,
		"action_semantics": "send1: one datagram if CanSend&&HasPacingBudget(now); burst16/drain: datagrams while allowed at one instant (cap 16 / none); pace16: 16 x (sleep until announced, then one datagram if allowed); sleep: now=TimeUntilSend() if later; sleep+1ns: one ns late; idle1s/idle10s; nextsec: next whole-second boundary; ack(n,m): OnCongestionEventEx with n acked, m lost (in flight reduced by n+m datagrams)",
		"clock_start_ns":   c11Start,
	}
	if pc.name == "small-batches" {
		alpha["batch_histories"] = "ack/loss batches of 1..40 samples: the 50-sample threshold is crossed by accumulation over several batches (losses first then ACK-only batches, and every other order), within and across the five-second window; the factor is compared with the reference after every batch"
	}
	if pc.name == "ack-only" {
		alpha["is_retransmittable"] = "OnPacketSent's last argument (quic-go: isAckEliciting) is false for send1-ackonly and for every other datagram (the first, third, ...) of burst16-mixed / drain-mixed / pace16-mixed, true elsewhere; a datagram with the flag false is released under the same condition (CanSend&&HasPacingBudget), does not count into the bytes in flight, and counts in full in the rate bound"
	}
	if pc.debug {
		alpha["env HYSTERIA_BRUTAL_DEBUG while the sender is created"] = "true (every other part: unset). The sender then prints a line about the factor at most once per 2 s of event time; batches with different correct factors arrive 0 s, 1 ms, 1 s, 2 s, 10 s apart; the factor is compared with the same reference after every batch, and the rate, window and wake-up clauses are checked as everywhere"
	}
	if pc.name == "late-acks" {
		alpha["event_time"] = "ack(n,m) is stamped with the handling time (quic-go: loss-timer batches get now); ack(n,m)@rcv-2ms / @rcv-1s are handled now and stamped 2ms / 1s earlier (quic-go: ACK-frame batches get the datagram's receive time), so the event times are NOT monotone and step back over a whole-second boundary (2ms: only right after one; 1s: always); the reference counts a sample in the second it was stamped with and takes the last 4/5/6 seconds from the handling time"
	}
	p.Alphabet = alpha
	p.Bounds = map[string]any{"max_sequence_length": pc.depth, "grid_points": len(c11Rates) * len(c11Sizes) * len(c11RTTs) * len(c11Comp),
		"gap_restriction": "a time advance is not taken when ceil(rate/0.8) x (new now - last send) >= 2^63"}
	classes := map[uint64]struct{}{}
	var gi int64
	done, total := 0, 0
	stop := false
	enum.Product([]int{len(c11Rates), len(c11Sizes), len(c11RTTs), len(c11Comp)}, func(ix []int) bool {
		gi++
		// diagonal striding: a plain gi%nshards would give a shard the same (rtt, compensation) every time
		if !env.Mine(gi + gi/int64(env.NShards)) {
			return true
		}
		total++
		if stop {
			return true
		}
		if env.Expired() {
			stop = true
			return true
		}
		g := c11Grid{Rate: c11Rates[ix[0]], Size: c11Sizes[ix[1]], RTTns: int64(c11RTTs[ix[2]]), Comp: c11Comp[ix[3]], Debug: pc.debug}
		q := &c11Search{sim: c11NewSim(g), alpha: pc.alpha, expired: env.Expired, classes: classes, gi: int(gi)}
		var by *c11Grid
		if pc.two {
			by = &c11Grid{Rate: c11Rates[(ix[0]+1)%len(c11Rates)], Size: c11Sizes[(ix[1]+1)%len(c11Sizes)], RTTns: int64(c11RTTs[ix[2]]), Comp: !c11Comp[ix[3]]}
			q.sim.by = c11NewSim(*by)
		}
		q.run(pc.depth)
		p.Evaluations += q.steps
		p.Count("sequences", q.seqs)
		p.Count("steps_without_effect_cut", q.noops)
		p.Count("steps_outside_gap_range", q.disabled)
		p.Count("datagrams_sent", q.sim.packets)
		if q.aborted {
			stop = true
		} else {
			done++
		}
		if q.bestV != nil {
			seq := c11SeqNames(q.best)
			c := &c11Case{Part: pc.name, Grid: g, Seq: seq, Clause: q.bestV.Clause, By: by}
			sh.Violate(pc.name, c11Sig(pc.name, g, q.bestV.Clause, seq), q.bestV.Detail, c)
		}
		if pc.debug && q.sim.bs.debug {
			p.Count("senders_in_debug_mode", 1)
		}
		if gi%97 == 5 {
			p.Sample(map[string]any{"grid": g, "sequences": q.seqs, "steps": q.steps, "violation": q.bestV != nil})
		}
		return true
	})
	for k := range classes {
		p.ClassHash(k)
	}
	if stop {
		p.Exhaustive = false
		p.Note("deadline: %d of this shard's %d grid points searched completely to length %d", done, total, pc.depth)
	}
}

func TestVerifC11(t *testing.T) {
	evidence.Main(t, "C11", evidence.Seq{
		Run: c11Enumerate,
		Replay: func(part string, raw json.RawMessage) (bool, bool, string) {
			if part != "seq" && part != "drain" && part != "probe" && part != "small-batches" && part != "ack-only" && part != "late-acks" && part != "debug-on" {
				return false, false, ""
			}
			var c c11Case
			if err := json.Unmarshal(raw, &c); err != nil {
				return true, false, err.Error()
			}
			v, at, trace := c11RunCase(&c)
			if v == nil {
				return true, false, "no clause violated; trace: " + trace
			}
			return true, true, fmt.Sprintf("%s at step %d: %s; trace: %s", v.Clause, at, v.Detail, trace)
		},
	})
}
