package server

// C08 harness (injected by overlay into core/server): every UDP datagram's destination passes
// the outbound policy.
//
// Everything is driven synchronously through udpSessionManager.feed / cleanup on the REAL
// session code with fakes of udpIO, UDPConn and udpEventLogger. The oracle is a reference
// written from the property text: it knows the policy predicate, whether the session has a
// socket, and whether the hook rewrote the session's destination. It does NOT model the
// decision cache - which victim the real code evicts (Go map order) cannot influence what the
// reference expects; the cache is covered by the coherence invariant read from c08Cache(e).

import (
	"bytes"
	"encoding/json"
	"errors"
	"fmt"
	"reflect"
	"runtime"
	"sort"
	"strings"
	"sync"
	"sync/atomic"
	"testing"
	"time"

	"github.com/apernet/hysteria/core/v2/internal/protocol"
	"verif.local/engine/evidence"
	"verif.local/engine/vpriv"
	"verif.local/engine/xstate"
)

const (
	c08SID      = uint32(0x0c08)
	c08HookAddr = "198.51.100.7:5353"
	c08Yields   = 10000
)

// Destination strings of the exhaustive part: an IPv4 literal, a bracketed IPv6 literal, names
// in lower/upper case and with a trailing dot - the policy is a predicate on the exact string.
var c08Dests = []string{"192.0.2.1:53", "[2001:db8::1]:443", "d2.example:1", "D3.EXAMPLE:65535", "d4.example.:80", "d5.example:5000"}

// c08SearchN: number of destinations of the exhaustive part = scaled cache capacity + 2, so
// that the cache overflows by two (capacity 3 -> d0..d4, capacity 4 -> d0..d5).
var c08SearchN = func() int {
	n := maxSessionACLCache + 2
	if n > len(c08Dests) {
		n = len(c08Dests)
	}
	return n
}()

var (
	c08ErrDenied = errors.New("c08: destination rejected by the outbound policy")
	c08ErrClosed = errors.New("c08: fake socket closed")
)

// ---------------------------------------------------------------------------------------------
// fakes

type c08Write struct {
	Addr string
	Data []byte
}

type c08Reply struct {
	from string
	data []byte
}

type c08Conn struct {
	dialed  string
	mu      sync.Mutex
	writes  []c08Write
	in      chan c08Reply
	closed  chan struct{}
	closeN  int32
	onceCls sync.Once
}

func (c *c08Conn) ReadFrom(b []byte) (int, string, error) {
	select {
	case r := <-c.in:
		return copy(b, r.data), r.from, nil
	case <-c.closed:
		return 0, "", c08ErrClosed
	}
}

func (c *c08Conn) WriteTo(b []byte, addr string) (int, error) {
	select {
	case <-c.closed:
		return 0, c08ErrClosed
	default:
	}
	c.mu.Lock()
	c.writes = append(c.writes, c08Write{Addr: addr, Data: append([]byte{}, b...)})
	c.mu.Unlock()
	return len(b), nil
}

func (c *c08Conn) Close() error {
	atomic.AddInt32(&c.closeN, 1)
	c.onceCls.Do(func() { close(c.closed) })
	return nil
}

func (c *c08Conn) isClosed() bool {
	select {
	case <-c.closed:
		return true
	default:
		return false
	}
}

func (c *c08Conn) nWrites() int {
	c.mu.Lock()
	defer c.mu.Unlock()
	return len(c.writes)
}

// c08IO is the fake udpIO. The environment contract of the property: UDP(addr) refuses a
// destination exactly when CheckUDP(addr) does (discharged on the real adapter/ACL engine by
// the extras/outbounds unit of this check).
type c08IO struct {
	allow    func(addr string) bool
	hook     func(addr string) (string, bool) // rewritten address, whether it rewrites
	udpCalls []string
	chkCalls []string
	hookN    int
	conns    []*c08Conn
	sent     chan *protocol.UDPMessage
	overflow int32
}

func (io *c08IO) ReceiveMessage() (*protocol.UDPMessage, error) {
	return nil, errors.New("c08: ReceiveMessage is not used (feed is driven directly)")
}

func (io *c08IO) SendMessage(buf []byte, msg *protocol.UDPMessage) error {
	cp := *msg
	cp.Data = append([]byte{}, msg.Data...)
	select {
	case io.sent <- &cp:
	default:
		atomic.AddInt32(&io.overflow, 1)
	}
	return nil
}

func (io *c08IO) Hook(data []byte, reqAddr *string) error {
	io.hookN++
	if io.hook != nil {
		if to, ok := io.hook(*reqAddr); ok {
			*reqAddr = to
		}
	}
	return nil
}

func (io *c08IO) UDP(reqAddr string) (UDPConn, error) {
	io.udpCalls = append(io.udpCalls, reqAddr)
	if !io.allow(reqAddr) {
		return nil, c08ErrDenied
	}
	c := &c08Conn{dialed: reqAddr, in: make(chan c08Reply), closed: make(chan struct{})}
	io.conns = append(io.conns, c)
	return c, nil
}

func (io *c08IO) CheckUDP(reqAddr string) error {
	io.chkCalls = append(io.chkCalls, reqAddr)
	if !io.allow(reqAddr) {
		return c08ErrDenied
	}
	return nil
}

type c08Event struct {
	Kind string // new | close
	ID   uint32
	Addr string
	Err  error
}

type c08Log struct {
	mu sync.Mutex
	ev []c08Event
}

func (l *c08Log) New(id uint32, addr string) {
	l.mu.Lock()
	l.ev = append(l.ev, c08Event{Kind: "new", ID: id, Addr: addr})
	l.mu.Unlock()
}

func (l *c08Log) Close(id uint32, err error) {
	l.mu.Lock()
	l.ev = append(l.ev, c08Event{Kind: "close", ID: id, Err: err})
	l.mu.Unlock()
}

func (l *c08Log) n() int {
	l.mu.Lock()
	defer l.mu.Unlock()
	return len(l.ev)
}

func (l *c08Log) since(i int) []c08Event {
	l.mu.Lock()
	defer l.mu.Unlock()
	return append([]c08Event{}, l.ev[i:]...)
}

// ---------------------------------------------------------------------------------------------
// violation clause (short id for the signature + detail)

type c08Err struct {
	Clause string
	Detail string
}

func (e *c08Err) Error() string { return e.Clause + ": " + e.Detail }

func c08Bad(clause, format string, a ...any) error {
	return &c08Err{Clause: clause, Detail: fmt.Sprintf(format, a...)}
}

// ---------------------------------------------------------------------------------------------
// system under test + reference

// c08World is one real udpSessionManager with fakes, plus the reference state of the single
// session the harness drives.
type c08World struct {
	m   *udpSessionManager
	io  *c08IO
	log *c08Log

	allow  func(string) bool
	hookFn func(string) (string, bool)
	dests  map[string]bool // destinations with a defined policy (cache entries must be among them)

	// reference (from the property text)
	open    bool   // the session has a socket
	hooked  bool   // the hook rewrote the session's destination
	orig    string // first destination of the session (what replies must be reported from)
	target  string // where every datagram of a hooked session goes
	peer    string // destination of the last forwarded datagram (source of simulated replies)
	step    int
	ownVict bool // the harness owns the eviction-victim choice (exhaustive part)
}

func c08NewWorld(allow func(string) bool, hook func(string) (string, bool), dests []string) *c08World {
	w := &c08World{allow: allow, hookFn: hook, dests: map[string]bool{}}
	for _, d := range dests {
		w.dests[d] = true
	}
	w.io = &c08IO{allow: allow, hook: hook, sent: make(chan *protocol.UDPMessage, 4)}
	w.log = &c08Log{}
	// idle timeout is irrelevant: Run()/idleCleanupLoop are never started, cleanup is an explicit op
	w.m = newUDPSessionManager(w.io, w.log, time.Hour)
	return w
}

// teardown closes every session (the receive loops exit because the fake socket's ReadFrom
// returns an error once closed) - nothing of a finished history keeps running.
func (w *c08World) teardown() {
	verifCleanupAll(w.m)
	for _, c := range w.io.conns {
		_ = c.Close()
	}
	runtime.Gosched()
}

// entry peeks at the session entry in the manager's private table. Table and lock are found by
// TYPE (the manager's only map[uint32]*udpSessionEntry, its only mutex), so a rename of the
// private fields does not break the harness; c08PrivMissing records what could not be found.
func (w *c08World) entry() *udpSessionEntry {
	if unlock, ok := vpriv.ReadLock(w.m); ok {
		defer unlock()
	} else {
		c08PrivMissing["udpSessionManager: its mutex"] = true
	}
	tab, ok := vpriv.FieldByType[map[uint32]*udpSessionEntry](w.m)
	if !ok {
		c08PrivMissing["udpSessionManager: its map[uint32]*udpSessionEntry"] = true
		return nil
	}
	return tab[c08SID]
}

var c08PrivMissing = map[string]bool{}

// c08Cache is the session's private decision cache (the entry's only map[string]error), live: the
// search reads it for the coherence invariant and swaps entries to enumerate the eviction victim.
// nil when the entry keeps its decisions in another shape: those extra oracles are then skipped.
func c08Cache(e *udpSessionEntry) map[string]error {
	if e == nil {
		return nil
	}
	c, ok := vpriv.FieldByType[map[string]error](e)
	if !ok {
		c08PrivMissing["udpSessionEntry: its map[string]error decision cache"] = true
		return nil
	}
	return c
}

func c08CacheCopy(e *udpSessionEntry) map[string]error {
	if e == nil || c08Cache(e) == nil {
		return nil
	}
	cp := make(map[string]error, len(c08Cache(e)))
	for k, v := range c08Cache(e) {
		cp[k] = v
	}
	return cp
}

func c08SortedKeys(m map[string]error) []string {
	ks := make([]string, 0, len(m))
	for k := range m {
		ks = append(ks, k)
	}
	sort.Strings(ks)
	return ks
}

func (w *c08World) totalWrites() (n int, per []int) {
	for _, c := range w.io.conns {
		k := c.nWrites()
		per = append(per, k)
		n += k
	}
	return
}

// willEvict: the next datagram to dest makes checkAddr evict an entry (cache full, dest not cached).
func (w *c08World) willEvict(dest string) bool {
	e := w.entry()
	if e == nil || e.conn == nil || e.OverrideAddr != "" {
		return false
	}
	if _, ok := c08Cache(e)[dest]; ok {
		return false
	}
	return len(c08Cache(e)) >= maxSessionACLCache
}

// datagram feeds one complete, unfragmented datagram addressed to dest into the real manager
// and checks everything the property says about this step. victim >= 0: when the real code
// evicted exactly one cache entry in this step, the harness makes the (sorted) victim-th entry
// the evicted one instead - the real code picks an arbitrary map element, so every choice is a
// state the real code can be in; enumerating the choice replaces Go's random map order.
func (w *c08World) datagram(dest string, victim int) error {
	w.step++
	data := []byte{'q', byte(w.step), byte(w.step >> 8), 0x00, 0xff}
	data = data[:len(data):len(data)]

	// ---- reference expectation
	wasOpen := w.open
	var expWrite string // "" = nothing may be forwarded
	expDial := ""       // UDP() expected to be called with this address
	expOpenFail := false
	if !w.open {
		actual, hk := dest, false
		if w.hookFn != nil {
			if to, ok := w.hookFn(dest); ok && to != dest {
				actual, hk = to, true
			}
		}
		expDial = actual
		if w.allow(actual) {
			w.open, w.hooked, w.orig, w.target = true, hk, dest, actual
			expWrite = actual
		} else {
			expOpenFail = true
		}
	} else if w.hooked {
		expWrite = w.target
	} else if w.allow(dest) {
		expWrite = dest
	}

	// ---- real step
	before := c08CacheCopy(w.entry())
	nW0, per0 := w.totalWrites()
	nConn0, nUDP0, nEv0 := len(w.io.conns), len(w.io.udpCalls), w.log.n()
	msg := &protocol.UDPMessage{SessionID: c08SID, PacketID: 0, FragID: 0, FragCount: 1, Addr: dest, Data: data}
	var perr any
	var pstack string
	perr, pstack = evidence.Catch(func() { w.m.feed(msg) })
	if perr != nil {
		return c08Bad("panic", "feed(%q) panicked: %v at %s", dest, perr, evidence.PanicSite(pstack))
	}

	// ---- forwarded datagrams: exactly the expected one, on the session's socket
	nW1, per1 := w.totalWrites()
	var got []c08Write
	for i, c := range w.io.conns {
		old := 0
		if i < len(per0) {
			old = per0[i]
		}
		if per1[i] > old {
			c.mu.Lock()
			got = append(got, c.writes[old:]...)
			c.mu.Unlock()
			if i != len(w.io.conns)-1 {
				return c08Bad("write-on-stale-socket", "datagram to %q was written on socket #%d, the session's socket is #%d", dest, i, len(w.io.conns)-1)
			}
		}
	}
	for _, g := range got {
		if !w.allow(g.Addr) {
			return c08Bad("denied-destination-received-datagram", "WriteTo(%q) happened although the policy rejects %q (datagram addressed to %q)", g.Addr, g.Addr, dest)
		}
	}
	switch {
	case expWrite == "" && nW1 != nW0:
		return c08Bad("unexpected-forward", "datagram to %q must not be forwarded, but WriteTo(%q) happened", dest, got[0].Addr)
	case expWrite != "" && nW1 == nW0:
		return c08Bad("allowed-datagram-dropped", "datagram to %q must be forwarded to %q, no WriteTo happened", dest, expWrite)
	case expWrite != "" && nW1 != nW0+1:
		return c08Bad("forwarded-more-than-once", "datagram to %q forwarded %d times", dest, nW1-nW0)
	case expWrite != "":
		if got[0].Addr != expWrite {
			if w.hooked {
				return c08Bad("hooked-datagram-wrong-destination", "hooked session (rewritten to %q): datagram addressed to %q went to %q", w.target, dest, got[0].Addr)
			}
			return c08Bad("wrong-destination", "datagram addressed to %q went to %q", dest, got[0].Addr)
		}
		if !bytes.Equal(got[0].Data, data) {
			return c08Bad("payload-changed", "datagram to %q: payload differs", dest)
		}
		w.peer = expWrite
	}

	// ---- sockets
	newUDP := w.io.udpCalls[nUDP0:]
	if wasOpen {
		if len(newUDP) != 0 {
			return c08Bad("second-socket", "session already has a socket, UDP(%q) was called again", newUDP[0])
		}
	} else {
		if len(newUDP) != 1 || newUDP[0] != expDial {
			return c08Bad("dial-address", "first datagram to %q: expected exactly UDP(%q), got %v", dest, expDial, newUDP)
		}
		if expOpenFail {
			if len(w.io.conns) != nConn0 {
				return c08Bad("socket-for-denied-first-destination", "first datagram to denied %q opened a socket", expDial)
			}
			if w.m.Count() != 0 || w.entry() != nil {
				return c08Bad("session-kept-after-denied-dial", "first datagram to denied %q: session still registered", expDial)
			}
			ev := w.log.since(nEv0)
			if len(ev) != 2 || ev[0].Kind != "new" || ev[0].Addr != expDial || ev[1].Kind != "close" || ev[1].Err == nil {
				return c08Bad("events-denied-dial", "first datagram to denied %q: events %v", expDial, c08Events(ev))
			}
		} else if len(w.io.conns) != nConn0+1 {
			return c08Bad("no-socket", "first datagram to allowed %q opened %d sockets", expDial, len(w.io.conns)-nConn0)
		}
	}

	// ---- state invariants on the raw state, then own the victim choice
	if err := w.invariant(); err != nil {
		return err
	}
	if w.ownVict && victim >= 0 {
		w.fixVictim(before, dest, victim)
	}

	// ---- reply direction: a reply arriving on the session's socket is reported from the
	// original address of a hooked session, from its real source otherwise.
	if w.open {
		if err := w.reply(); err != nil {
			return err
		}
	}
	return nil
}

func c08Events(ev []c08Event) string {
	var sb strings.Builder
	for _, e := range ev {
		fmt.Fprintf(&sb, "{%s %q err=%v}", e.Kind, e.Addr, e.Err)
	}
	return sb.String()
}

// fixVictim: see datagram().
func (w *c08World) fixVictim(before map[string]error, dest string, victim int) {
	e := w.entry()
	if e == nil || c08Cache(e) == nil || len(before) == 0 {
		return
	}
	var evicted []string
	for k := range before {
		if _, ok := c08Cache(e)[k]; !ok {
			evicted = append(evicted, k)
		}
	}
	if len(evicted) != 1 {
		return
	}
	ks := c08SortedKeys(before)
	chosen := ks[victim%len(ks)]
	if chosen == evicted[0] || chosen == dest {
		return
	}
	if _, ok := c08Cache(e)[chosen]; !ok {
		return
	}
	delete(c08Cache(e), chosen)
	c08Cache(e)[evicted[0]] = before[evicted[0]]
}

// invariant: cache coherence and bookkeeping, read from the private fields.
func (w *c08World) invariant() error {
	e := w.entry()
	if !w.open {
		if e != nil || w.m.Count() != 0 {
			return c08Bad("session-registered-without-socket", "reference: no session; manager has %d", w.m.Count())
		}
		for i, c := range w.io.conns {
			if !c.isClosed() {
				return c08Bad("socket-left-open", "socket #%d (%q) is open although the session ended", i, c.dialed)
			}
		}
		return nil
	}
	if e == nil {
		return c08Bad("session-lost", "reference: session open; manager has no entry")
	}
	if e.conn == nil {
		return c08Bad("session-without-socket", "entry registered, conn == nil")
	}
	if c, ok := e.conn.(*c08Conn); !ok || c != w.io.conns[len(w.io.conns)-1] || c.isClosed() {
		return c08Bad("session-socket-identity", "the session's conn is not the open socket returned by the last UDP()")
	}
	wantOvr, wantOrig := "", ""
	if w.hooked {
		wantOvr, wantOrig = w.target, w.orig
	}
	if e.OverrideAddr != wantOvr || e.OriginalAddr != wantOrig {
		return c08Bad("override-bookkeeping", "OverrideAddr=%q OriginalAddr=%q, expected %q / %q", e.OverrideAddr, e.OriginalAddr, wantOvr, wantOrig)
	}
	if len(c08Cache(e)) > maxSessionACLCache {
		return c08Bad("cache-over-capacity", "len(aclCache)=%d > %d", len(c08Cache(e)), maxSessionACLCache)
	}
	for _, k := range c08SortedKeys(c08Cache(e)) {
		v := c08Cache(e)[k]
		if !w.dests[k] {
			return c08Bad("cache-foreign-key", "aclCache holds %q which was never a destination of this session's policy domain", k)
		}
		if (v == nil) != w.allow(k) {
			return c08Bad("cache-incoherent", "aclCache[%q] = %v but the policy says allow=%v", k, v, w.allow(k))
		}
	}
	return nil
}

// reply simulates one datagram arriving on the session's socket from w.peer and waits (by
// yielding, no clock) until the real receive loop has reported it through SendMessage.
func (w *c08World) reply() error {
	// the socket is full-cone: a reply may also come from a source the session never wrote to (the
	// remote answering from another address, an IP where the hook put a host name). Added after
	// the independently seeded change C08-5 (only replies whose source equals the rewritten
	// destination were reported from the original address).
	for _, from := range []string{w.peer, "203.0.113.9:999"} {
		if err := w.replyFrom(from); err != nil {
			return err
		}
	}
	return nil
}

func (w *c08World) replyFrom(from string) error {
	c := w.io.conns[len(w.io.conns)-1]
	data := []byte{'r', byte(w.step), byte(w.step >> 8), byte(len(from))}
	r := c08Reply{from: from, data: data}
	delivered := false
	for i := 0; i < c08Yields && !delivered; i++ {
		select {
		case c.in <- r:
			delivered = true
		default:
			runtime.Gosched()
		}
	}
	if !delivered {
		return c08Bad("receive-loop-not-reading", "the session's receive loop never called ReadFrom on its socket")
	}
	var m *protocol.UDPMessage
	for i := 0; i < c08Yields && m == nil; i++ {
		select {
		case m = <-w.io.sent:
		default:
			runtime.Gosched()
		}
	}
	if m == nil {
		return c08Bad("reply-not-reported", "a reply from %q was read but never passed to SendMessage", from)
	}
	want := from
	if w.hooked {
		want = w.orig
	}
	if m.Addr != want {
		if w.hooked {
			return c08Bad("reply-not-from-original-address", "hooked session (original %q, rewritten to %q): a reply from %q was reported from %q", w.orig, w.target, from, m.Addr)
		}
		return c08Bad("reply-address", "reply from %q reported from %q", from, m.Addr)
	}
	if m.SessionID != c08SID || m.FragCount != 1 || m.FragID != 0 || !bytes.Equal(m.Data, data) {
		return c08Bad("reply-mangled", "reply reported as sid=%#x frag=%d/%d data=%x", m.SessionID, m.FragID, m.FragCount, m.Data)
	}
	if atomic.LoadInt32(&w.io.overflow) != 0 {
		return c08Bad("reply-duplicated", "more replies reported than arrived")
	}
	return nil
}

// inbound: a packet from `from` arrives at the session's socket and is relayed to the client - an
// ENVIRONMENT answer: the socket is full-cone, so any host may send to it at any time, including a
// destination the policy rejects and one the session never addressed. It is judged by the reply
// clauses (reported from its real source, from the original address in a hooked session); what it
// must NOT do is change what the policy oracle of the following datagrams expects - the reference
// (c08World.datagram) does not look at who sent packets to the session. Without a socket there is
// nothing a packet could arrive at (no-op). Added after the independently seeded change C08-13
// (the receive loop remembered every source as an "established flow" and Feed skipped the
// per-datagram policy check for destinations in that set).
func (w *c08World) inbound(from string) error {
	w.step++
	if !w.open {
		return nil
	}
	return w.replyFrom(from)
}

// cleanupOp: the manager drops every session (what Run does on exit / the idle loop on timeout).
func (w *c08World) cleanupOp() error {
	w.step++
	nEv0 := w.log.n()
	wasOpen := w.open
	verifCleanupAll(w.m)
	w.open, w.hooked, w.orig, w.target, w.peer = false, false, "", "", ""
	if wasOpen {
		ev := w.log.since(nEv0)
		if len(ev) != 1 || ev[0].Kind != "close" || ev[0].Err != nil {
			return c08Bad("events-cleanup", "cleanup of an open session: events %v", c08Events(ev))
		}
		c := w.io.conns[len(w.io.conns)-1]
		if atomic.LoadInt32(&c.closeN) != 1 {
			return c08Bad("socket-close-count", "socket closed %d times by cleanup", c.closeN)
		}
	}
	runtime.Gosched() // let the receive loop observe the closed socket and exit
	return w.invariant()
}

// ---------------------------------------------------------------------------------------------
// exhaustive part: explicit-state BFS

type c08Cfg struct {
	Policy int `json:"policy"` // bit i: d_i allowed; bit 5: h allowed
	Hook   int `json:"hook"`   // 0 off; 1 rewrites every first destination to h; 2 rewrites only when the first destination is d0
}

func (c c08Cfg) String() string {
	var al, dn []string
	for i := 0; i < c08SearchN; i++ {
		if c.Policy&(1<<i) != 0 {
			al = append(al, fmt.Sprintf("d%d", i))
		} else {
			dn = append(dn, fmt.Sprintf("d%d", i))
		}
	}
	h := ""
	if c.Hook != 0 {
		if c.Policy&(1<<c08SearchN) != 0 {
			al = append(al, "h")
		} else {
			dn = append(dn, "h")
		}
		h = map[int]string{1: ",hook=all->h", 2: ",hook=d0->h"}[c.Hook]
	}
	return fmt.Sprintf("allow{%s}deny{%s}%s", strings.Join(al, ","), strings.Join(dn, ","), h)
}

func (c c08Cfg) allow(addr string) bool {
	for i, d := range c08Dests[:c08SearchN] {
		if d == addr {
			return c.Policy&(1<<i) != 0
		}
	}
	if addr == c08HookAddr {
		return c.Policy&(1<<c08SearchN) != 0
	}
	return false
}

func (c c08Cfg) hook() func(string) (string, bool) {
	switch c.Hook {
	case 1:
		return func(string) (string, bool) { return c08HookAddr, true }
	case 2:
		return func(a string) (string, bool) { return c08HookAddr, a == c08Dests[0] }
	}
	return nil
}

// c08Op: D >= 0 datagram to d_D (V = owned eviction victim rank), D == -1 cleanup; In: a packet
// FROM d_D arrives at the session's socket instead (environment answer, see c08World.inbound;
// added after the independently seeded change C08-13).
type c08Op struct {
	D  int  `json:"d"`
	V  int  `json:"v"`
	In bool `json:"in,omitempty"`
}

func (o c08Op) String() string {
	if o.D < 0 {
		return "cleanup"
	}
	if o.In {
		return fmt.Sprintf("in<-d%d", o.D)
	}
	if o.V == 0 {
		return fmt.Sprintf("d%d", o.D)
	}
	return fmt.Sprintf("d%d/evict#%d", o.D, o.V)
}

type c08Sys struct{ w *c08World }

var c08Live *c08World // the BFS uses one system at a time; the previous one is torn down on New

func c08NewSys(cfg c08Cfg) *c08Sys {
	if c08Live != nil {
		c08Live.teardown()
	}
	dom := append(append([]string{}, c08Dests[:c08SearchN]...), c08HookAddr)
	w := c08NewWorld(cfg.allow, cfg.hook(), dom)
	w.ownVict = true
	c08Live = w
	return &c08Sys{w}
}

func (s *c08Sys) Apply(op c08Op) error {
	if op.D < 0 {
		return s.w.cleanupOp()
	}
	if op.In {
		return s.w.inbound(c08Dests[op.D])
	}
	return s.w.datagram(c08Dests[op.D], op.V)
}

// Key: everything Feed/checkAddr/initConn branch on for complete unfragmented datagrams -
// whether the session (and its socket) exists, the override/original address, and the cache
// contents with their verdicts (sorted). Two sessions equal in these take the same branches
// and produce the same successor for every operation; the defragmenter holds no state because
// only complete datagrams are fed (asserted by the probe).
func (s *c08Sys) Key() string {
	e := s.w.entry()
	if e == nil {
		return "nosession"
	}
	var sb strings.Builder
	fmt.Fprintf(&sb, "conn=%v ovr=%q orig=%q cache=[", e.conn != nil, e.OverrideAddr, e.OriginalAddr)
	for _, k := range c08SortedKeys(c08Cache(e)) {
		fmt.Fprintf(&sb, "%s=%v;", k, c08Cache(e)[k] == nil)
	}
	sb.WriteString("]")
	sb.WriteString(c08Remembered(e))
	return sb.String()
}

// c08Remembered: every other thing the entry REMEMBERS directly in its own fields, whatever they
// are called - each field of a string, bool, integer or error type, by reflection (pointers,
// funcs, the socket, the defragmenter and the last-activity clock are not decisions the entry
// could replay). Two sessions with equal caches but a different remembered destination/verdict
// are different states and are searched separately. On the pinned tree this adds only constants
// (ID, closed) to the key. Added after the independently seeded change C08-12 (a one-entry
// "same destination as the previous datagram" shortcut in front of the cache whose remembered
// verdict went stale after a cache hit: hidden state the key merged away).
func c08Remembered(e *udpSessionEntry) string {
	var sb strings.Builder
	t := reflect.TypeOf(e).Elem()
	errT := reflect.TypeOf((*error)(nil)).Elem()
	for i := 0; i < t.NumField(); i++ {
		f := t.Field(i)
		v, ok := vpriv.Field(e, f.Name)
		if !ok {
			continue
		}
		switch {
		case f.Type == errT:
			if v.IsNil() {
				fmt.Fprintf(&sb, " %s=nil", f.Name)
			} else {
				fmt.Fprintf(&sb, " %s=err(%v)", f.Name, v.Interface())
			}
		case f.Type.Kind() == reflect.String:
			fmt.Fprintf(&sb, " %s=%q", f.Name, v.String())
		case f.Type.Kind() == reflect.Bool:
			fmt.Fprintf(&sb, " %s=%v", f.Name, v.Bool())
		case f.Type.Kind() >= reflect.Int && f.Type.Kind() <= reflect.Int64:
			fmt.Fprintf(&sb, " %s=%d", f.Name, v.Int())
		case f.Type.Kind() >= reflect.Uint && f.Type.Kind() <= reflect.Uintptr:
			fmt.Fprintf(&sb, " %s=%d", f.Name, v.Uint())
		case f.Type.Kind() == reflect.Map:
			// any SET/TABLE the entry keeps (the decision cache again, and whatever else): sorted
			// keys with their values where those are plain. Added after the independently seeded
			// change C08-13 (a sync.Map of "established flows" the key did not see).
			var ents []string
			for it := v.MapRange(); it.Next(); {
				ents = append(ents, c08Plain(it.Key())+"="+c08Plain(it.Value()))
			}
			sort.Strings(ents)
			fmt.Fprintf(&sb, " %s={%s}", f.Name, strings.Join(ents, ";"))
		case f.Type == reflect.TypeOf(sync.Map{}) && v.CanAddr():
			var ents []string
			v.Addr().Interface().(*sync.Map).Range(func(k, x any) bool {
				ents = append(ents, c08Plain(reflect.ValueOf(k))+"="+c08Plain(reflect.ValueOf(x)))
				return true
			})
			sort.Strings(ents)
			fmt.Fprintf(&sb, " %s={%s}", f.Name, strings.Join(ents, ";"))
		}
	}
	return sb.String()
}

// c08Plain renders a map key/value for the state key when it is a plain value (string, bool,
// integer, nil/non-nil error); anything else (pointers, structs, funcs) by its type only, so that
// addresses never enter the key.
func c08Plain(v reflect.Value) string {
	if !v.IsValid() {
		return "nil"
	}
	if v.Kind() == reflect.Interface {
		if v.IsNil() {
			return "nil"
		}
		if err, ok := v.Interface().(error); ok {
			return "err(" + err.Error() + ")"
		}
		v = v.Elem()
	}
	switch k := v.Kind(); {
	case k == reflect.String:
		return fmt.Sprintf("%q", v.String())
	case k == reflect.Bool:
		return fmt.Sprint(v.Bool())
	case k >= reflect.Int && k <= reflect.Int64:
		return fmt.Sprint(v.Int())
	case k >= reflect.Uint && k <= reflect.Uintptr:
		return fmt.Sprint(v.Uint())
	}
	return v.Type().String()
}

// c08Probe: the remaining private state, claimed irrelevant/constant by Key - xstate reports a
// history dependence if two histories reach one key with different answers.
func c08Probe(s xstate.Sys[c08Op]) string {
	w := s.(*c08Sys).w
	e := w.entry()
	if e == nil {
		return fmt.Sprintf("count=%d", w.m.Count())
	}
	open := 0
	for _, c := range w.io.conns {
		if !c.isClosed() {
			open++
		}
	}
	return fmt.Sprintf("count=%d closed=%v id=%#x open_sockets=%d", w.m.Count(), e.closed, e.ID, open)
}

func c08Configs() []c08Cfg {
	var cs []c08Cfg
	for p := 0; p < 1<<c08SearchN; p++ {
		cs = append(cs, c08Cfg{Policy: p, Hook: 0})
	}
	for hk := 1; hk <= 2; hk++ {
		for p := 0; p < 1<<(c08SearchN+1); p++ {
			cs = append(cs, c08Cfg{Policy: p, Hook: hk})
		}
	}
	return cs
}

func c08Ops() []c08Op {
	var ops []c08Op
	for d := 0; d < c08SearchN; d++ {
		for v := 0; v < maxSessionACLCache; v++ {
			ops = append(ops, c08Op{D: d, V: v})
		}
	}
	// a packet from d_i (allowed, rejected, addressed before or never) arrives at the session's socket
	for d := 0; d < c08SearchN; d++ {
		ops = append(ops, c08Op{D: d, In: true})
	}
	return append(ops, c08Op{D: -1})
}

func c08Enabled(s xstate.Sys[c08Op], op c08Op) bool {
	w := s.(*c08Sys).w
	if op.D < 0 || op.In {
		return w.entry() != nil // a packet can only arrive at a socket the session has
	}
	// victim ranks > 0 are distinct operations only when this step evicts
	return op.V == 0 || w.willEvict(c08Dests[op.D])
}

type c08SearchReplay struct {
	Cap     int     `json:"cache_capacity"`
	Cfg     c08Cfg  `json:"cfg"`
	History []c08Op `json:"history"`
}

func c08RunHistory(r *c08SearchReplay) error {
	s := c08NewSys(r.Cfg)
	defer func() { s.w.teardown(); c08Live = nil }()
	for _, op := range r.History {
		if err := s.Apply(op); err != nil {
			return err
		}
	}
	return nil
}

func c08Search(sh *evidence.Shard) {
	env := sh.Env()
	p := sh.Part("search", "xstate")
	if maxSessionACLCache+2 != c08SearchN || maxSessionACLCache < 2 {
		sh.InfraError("search unit built without the const override: maxSessionACLCache=%d", maxSessionACLCache)
		return
	}
	depth := 7
	if env.Thorough() {
		depth = 9
	}
	p.Alphabet = map[string]any{
		"destinations":         c08Dests[:c08SearchN],
		"hook_address":         c08HookAddr,
		"policies":             fmt.Sprintf("every allow/deny predicate on the %d destinations (%d); with a hook every predicate on the destinations and h (%d)", c08SearchN, 1<<c08SearchN, 2<<c08SearchN),
		"hook":                 []string{"off", "rewrites every session's first destination to h", "rewrites the first destination to h only when it is d0"},
		"operations":           "complete unfragmented datagram to d_i (session id fixed) x owned eviction victim (rank among the sorted cached entries, only when the step evicts); cleanup of all sessions; environment answer in<-d_i: a packet FROM d_i (any destination: allowed, rejected, addressed before or never) arrives at the session's full-cone socket and is relayed to the client",
		"maxSessionACLCache":   fmt.Sprintf("%d (rewritten from 256 so that %d destinations overflow it)", maxSessionACLCache, c08SearchN),
		"after_each_datagram":  "one reply from the last forwarded destination is pushed through the real receive loop",
		"canonical_state_key":  "session/socket exists, OverrideAddr, OriginalAddr, sorted aclCache entries with verdicts, and every other string/bool/integer/error field of the entry plus the sorted contents of every map / sync.Map field (whatever else it remembers, by reflection)",
		"max_depth":            depth,
		"eviction_victim_note": "the real code deletes an arbitrary map element; after the step the harness swaps the evicted entry for the enumerated one, so all victims are covered and replays are deterministic; the oracle never depends on the victim",
	}
	p.Bounds = map[string]any{"max_depth": depth, "destinations": c08SearchN, "cache_capacity": maxSessionACLCache}
	ops := c08Ops()
	reported, maxDepthSeen := 0, 0
	for i, cfg := range c08Configs() {
		if !env.Mine(int64(i)) {
			continue
		}
		if env.Expired() {
			p.Exhaustive = false
			p.Note("deadline: configurations before #%d of this shard completely covered", i)
			break
		}
		if reported >= 4 {
			p.Exhaustive = false
			p.Note("stopped after 4 reported violations in this shard (remaining configurations not searched)")
			break
		}
		cfg := cfg
		res := xstate.BFS(xstate.Config[c08Op]{
			Ops:      ops,
			New:      func() xstate.Sys[c08Op] { return c08NewSys(cfg) },
			MaxDepth: depth,
			Enabled:  c08Enabled,
			Probe:    c08Probe,
		}, p, env)
		if c08Live != nil {
			c08Live.teardown()
			c08Live = nil
		}
		// xstate adds each BFS's depth to the max_depth counter; keep the maximum instead
		if res.Depth > maxDepthSeen {
			maxDepthSeen = res.Depth
		}
		p.Counters["max_depth"] = int64(maxDepthSeen)
		p.Count("configurations", 1)
		if res.Depth < depth {
			p.Count("configurations_closed_under_all_operations", 1) // frontier empty: no new state at any depth
		}
		p.Class(cfg.String(), res.States)
		if res.Violation != nil {
			reported++
			clause, detail := "history-dependence", res.Violation.Error()
			var ce *c08Err
			if errors.As(res.Violation, &ce) {
				clause, detail = ce.Clause, ce.Detail
			}
			sig := fmt.Sprintf("search/cap=%d/%s/%s/%v", maxSessionACLCache, clause, cfg, res.History)
			sh.Violate(p.Name, sig, fmt.Sprintf("%s after %v under %s: %s", clause, res.History, cfg, detail), &c08SearchReplay{Cap: maxSessionACLCache, Cfg: cfg, History: res.History})
		}
	}
}

func c08ReplaySearch(part string, raw json.RawMessage) (bool, bool, string) {
	if part != "search" {
		return false, false, ""
	}
	var r c08SearchReplay
	if err := json.Unmarshal(raw, &r); err != nil {
		return true, false, err.Error()
	}
	if r.Cap != maxSessionACLCache {
		return false, false, "" // recorded by the unit built with another capacity
	}
	if err := c08RunHistory(&r); err != nil {
		return true, true, err.Error()
	}
	return true, false, "history runs without violation"
}

func TestVerifC08Search(t *testing.T) {
	evidence.Main(t, "C08", evidence.Seq{Run: func(sh *evidence.Shard) { c08Search(sh); c08Sequences(sh); c08NotePriv(sh) }, Replay: func(part string, raw json.RawMessage) (bool, bool, string) {
		if part == "sequences" {
			return c08ReplaySeq(part, raw)
		}
		return c08ReplaySearch(part, raw)
	}})
}

// ---------------------------------------------------------------------------------------------
// plain SEQUENCES of one session, no state merging (same units as the search). The search merges
// histories that reach the same canonical key; its verdict for long histories rests on the key
// naming everything the session remembers. This part does not rest on any key: every sequence of
// exactly L operations over {datagram to d_0..d_{n-1}, cleanup} is run on a fresh manager, for
// every policy on the n destinations, hook off/on, judged by the same per-datagram oracle
// (c08World.datagram) - so repeats of a rejected destination back to back, after a cache hit,
// after a fresh lookup of another destination, after a cleanup ... are all there literally.
// Added after the independently seeded change C08-12 (a one-entry "same destination as the
// previous datagram" shortcut in front of the cache whose remembered verdict went stale after a
// cache hit; it needs the history a,R,b,R,R and lived in fields the search key did not name).

type c08SeqCase struct {
	Cap    int   `json:"cache_capacity"`
	NDest  int   `json:"destinations"`
	Policy int   `json:"policy"` // bit i: d_i allowed (the hook address is allowed)
	Hook   bool  `json:"hook"`   // rewrites every session's first destination to h
	Seq    []int `json:"seq"`    // i >= 0: datagram to d_i; -1: cleanup; -2-i: a packet FROM d_i arrives at the session's socket
}

// c08SeqOp decodes one element of c08SeqCase.Seq. The in<-d_i operations (environment answer, see
// c08World.inbound) were added after the independently seeded change C08-13 (sources of received
// packets became "established flows" that Feed no longer asked the policy about; it needs the
// history a, in<-R, R).
func c08SeqOp(x int) c08Op {
	if x <= -2 {
		return c08Op{D: -2 - x, In: true}
	}
	return c08Op{D: x}
}

func (c *c08SeqCase) String() string {
	var al, dn, ops []string
	for i := 0; i < c.NDest; i++ {
		if c.Policy&(1<<i) != 0 {
			al = append(al, fmt.Sprintf("d%d", i))
		} else {
			dn = append(dn, fmt.Sprintf("d%d", i))
		}
	}
	for _, x := range c.Seq {
		ops = append(ops, c08SeqOp(x).String())
	}
	return fmt.Sprintf("allow{%s}deny{%s},hook=%v,seq=%s", strings.Join(al, ","), strings.Join(dn, ","), c.Hook, strings.Join(ops, ","))
}

// c08RunSeq runs the case on a fresh manager; failedAt is the index of the violating operation,
// shape has one letter per executed operation (F forwarded, x not forwarded, c cleanup, i packet
// arrived at the socket and was relayed, - packet with no socket to arrive at).
func c08RunSeq(c *c08SeqCase) (verr error, failedAt int, shape string) {
	if c.NDest < 1 || c.NDest > len(c08Dests) {
		return c08Bad("unknown-case", "%d destinations", c.NDest), 0, ""
	}
	ds := c08Dests[:c.NDest]
	allow := func(a string) bool {
		if a == c08HookAddr {
			return true
		}
		for i, d := range ds {
			if d == a {
				return c.Policy&(1<<i) != 0
			}
		}
		return false
	}
	var hook func(string) (string, bool)
	if c.Hook {
		hook = func(string) (string, bool) { return c08HookAddr, true }
	}
	w := c08NewWorld(allow, hook, append(append([]string{}, ds...), c08HookAddr))
	defer w.teardown()
	var sb strings.Builder
	for i, x := range c.Seq {
		if op := c08SeqOp(x); op.D >= c.NDest {
			return c08Bad("unknown-case", "destination d%d", op.D), i, sb.String()
		} else if op.In {
			wasOpen := w.open
			if err := w.inbound(ds[op.D]); err != nil {
				return err, i, sb.String()
			}
			if wasOpen {
				sb.WriteByte('i')
			} else {
				sb.WriteByte('-')
			}
			continue
		}
		if x < 0 {
			if err := w.cleanupOp(); err != nil {
				return err, i, sb.String()
			}
			sb.WriteByte('c')
			continue
		}
		n0, _ := w.totalWrites()
		if err := w.datagram(ds[x], -1); err != nil {
			return err, i, sb.String()
		}
		if n1, _ := w.totalWrites(); n1 > n0 {
			sb.WriteByte('F')
		} else {
			sb.WriteByte('x')
		}
	}
	return nil, -1, sb.String()
}

func c08Sequences(sh *evidence.Shard) {
	env := sh.Env()
	p := sh.Part("sequences", "enum")
	// families of sequences: N destinations, exactly Len operations, with or without the in<-d_i
	// operations (a packet FROM d_i arrives at the session's socket: environment answer, added after
	// the independently seeded change C08-13, see c08SeqOp). The quick tier has them in its one
	// family; the thorough tier keeps the longest family for datagrams and cleanups alone and adds
	// the packets from d_i at one destination less / one operation less (9^6 x 32 cases otherwise).
	fams := []c08SeqFamily{{N: 3, Len: 5, In: true}}
	if env.Thorough() {
		fams = []c08SeqFamily{{N: 4, Len: 6}, {N: 3, Len: 6, In: true}, {N: 4, Len: 5, In: true}}
	}
	maxN, maxLen := 0, 0
	var famNames []string
	for _, f := range fams {
		if f.N > maxN {
			maxN = f.N
		}
		if f.Len > maxLen {
			maxLen = f.Len
		}
		famNames = append(famNames, f.String())
	}
	p.Alphabet = map[string]any{
		"destinations":       c08Dests[:maxN],
		"operations":         "complete unfragmented datagram to d_i; cleanup of all sessions; environment answer in<-d_i: a packet FROM d_i (any of the destinations: allowed, rejected, addressed before or never) arrives at the session's full-cone socket and is relayed to the client (nothing happens while the session has no socket)",
		"sequence":           "for each family: every sequence of exactly Len operations in one session id on a fresh manager (every shorter sequence is a prefix, judged step by step), NO state merging; one simulated reply after every forwarded datagram",
		"families":           famNames,
		"policies":           "every allow/deny predicate on the N destinations of the family (2^N); the hook address is allowed",
		"hook":               []string{"off", "rewrites every session's first destination to h"},
		"maxSessionACLCache": maxSessionACLCache,
		"eviction_note":      "where the destinations overflow the cache (thorough tier, capacity 3) the victim is whatever Go's map order picks; the oracle never depends on it",
	}
	p.Bounds = map[string]any{"sequence_len": maxLen, "destinations": maxN}
	var item int64
	seen := map[string]bool{}
	for _, fam := range fams {
		n, length := fam.N, fam.Len
		// operation codes: 0 cleanup, 1..n datagram to d_0..d_{n-1}, n+1..2n packet from d_0..d_{n-1}
		nOps := n + 1
		if fam.In {
			nOps = 2*n + 1
		}
		nSeq := 1
		for i := 0; i < length; i++ {
			nSeq *= nOps
		}
		for pol := 0; pol < 1<<n; pol++ {
			for _, hk := range []bool{false, true} {
				for s := 0; s < nSeq; s++ {
					item++
					if !env.Mine(item) {
						continue
					}
					if item&1023 == 0 && env.Expired() {
						p.Exhaustive = false
						p.Note("deadline: cases before #%d of this shard completely covered", item)
						return
					}
					c := &c08SeqCase{Cap: maxSessionACLCache, NDest: n, Policy: pol, Hook: hk}
					for k, r := 0, s; k < length; k, r = k+1, r/nOps {
						if x := r%nOps - 1; x >= n {
							c.Seq = append(c.Seq, -2-(x-n))
						} else {
							c.Seq = append(c.Seq, x)
						}
					}
					p.Evaluations++
					var verr error
					var at int
					var shape string
					if val, stack := evidence.Catch(func() { verr, at, shape = c08RunSeq(c) }); val != nil {
						verr = c08Bad("panic", "%v at %s", val, evidence.PanicSite(stack))
					}
					p.Count("operations", int64(len(c.Seq)))
					p.Class(n, pol, hk, shape, verr == nil)
					if p.Evaluations%251 == 7 {
						p.Sample(c)
					}
					if verr != nil {
						clause := "error"
						var ce *c08Err
						if errors.As(verr, &ce) {
							clause = ce.Clause
						}
						// minimal case: the prefix up to the violating operation (reported once)
						if at >= 0 && at < len(c.Seq) {
							c.Seq = c.Seq[:at+1]
						}
						sig := fmt.Sprintf("sequences/cap=%d/%s/%s", maxSessionACLCache, clause, c)
						if seen[sig] {
							continue
						}
						seen[sig] = true
						sh.Violate(p.Name, sig, fmt.Sprintf("%s at operation #%d of %s: %v", clause, at+1, c, verr), c)
						if len(seen) >= 4 {
							p.Exhaustive = false
							p.Note("stopped after 4 reported violations in this shard (remaining cases not run)")
							return
						}
					}
				}
			}
		}
	}
}

// c08SeqFamily: see c08Sequences.
type c08SeqFamily struct {
	N, Len int
	In     bool
}

func (f c08SeqFamily) String() string {
	ops := fmt.Sprintf("{d0..d%d,cleanup}", f.N-1)
	if f.In {
		ops = fmt.Sprintf("{d0..d%d,cleanup,in<-d0..in<-d%d}", f.N-1, f.N-1)
	}
	return fmt.Sprintf("N=%d,Len=%d,ops=%s", f.N, f.Len, ops)
}

func c08ReplaySeq(part string, raw json.RawMessage) (bool, bool, string) {
	var c c08SeqCase
	if err := json.Unmarshal(raw, &c); err != nil {
		return true, false, err.Error()
	}
	if c.Cap != maxSessionACLCache {
		return false, false, "" // recorded by the unit built with another capacity
	}
	if verr, at, _ := c08RunSeq(&c); verr != nil {
		return true, true, fmt.Sprintf("%v [operation #%d of %s]", verr, at+1, &c)
	}
	return true, false, "sequence runs without violation"
}

// ---------------------------------------------------------------------------------------------
// directed run at the real capacity (no const override in this unit)

// c08RealN: more distinct destinations than the decision cache of the tree under test holds
// (whatever its capacity constant is: 256 on the pinned tree -> 300).
var c08RealN = maxSessionACLCache + 44

type c08RealCase struct {
	Policy string `json:"policy"`
	Hook   bool   `json:"hook"`
}

func c08RealDest(i int) string {
	return fmt.Sprintf("10.8.%d.%d:%d", i/200, i%200+1, 1000+i)
}

var c08RealPolicies = []struct {
	name  string
	allow func(i int) bool
}{
	{"all-allowed", func(i int) bool { return true }},
	{"even-allowed", func(i int) bool { return i%2 == 0 }},
	{"odd-allowed(first-destination-denied)", func(i int) bool { return i%2 == 1 }},
	{"i%3!=1-allowed", func(i int) bool { return i%3 != 1 }},
	{"only-first-10-allowed", func(i int) bool { return i < 10 }},
	{"only-0-and-beyond-capacity-allowed", func(i int) bool { return i == 0 || i >= 256 }},
	{"only-0-allowed", func(i int) bool { return i == 0 }},
}

func c08RunReal(c *c08RealCase) (verr error, where string, maxCache int, checks int) {
	var pol func(int) bool
	for _, p := range c08RealPolicies {
		if p.name == c.Policy {
			pol = p.allow
		}
	}
	if pol == nil {
		return c08Bad("unknown-policy", "%s", c.Policy), "", 0, 0
	}
	idx := map[string]int{}
	dom := make([]string, 0, c08RealN+1)
	for i := 0; i < c08RealN; i++ {
		idx[c08RealDest(i)] = i
		dom = append(dom, c08RealDest(i))
	}
	dom = append(dom, c08HookAddr)
	allow := func(a string) bool {
		if a == c08HookAddr {
			return true
		}
		i, ok := idx[a]
		return ok && pol(i)
	}
	var hook func(string) (string, bool)
	if c.Hook {
		hook = func(string) (string, bool) { return c08HookAddr, true }
	}
	w := c08NewWorld(allow, hook, dom)
	defer w.teardown()
	step := func(i int) error {
		if err := w.datagram(c08RealDest(i), -1); err != nil {
			return err
		}
		if e := w.entry(); e != nil && len(c08Cache(e)) > maxCache {
			maxCache = len(c08Cache(e))
		}
		return nil
	}
	// 300 distinct destinations, all of them again, then once more in reverse order
	for pass := 0; pass < 3; pass++ {
		for k := 0; k < c08RealN; k++ {
			i := k
			if pass == 2 {
				i = c08RealN - 1 - k
			}
			if err := step(i); err != nil {
				return err, fmt.Sprintf("pass %d, datagram #%d (to destination %d = %s)", pass+1, w.step, i, c08RealDest(i)), maxCache, len(w.io.chkCalls)
			}
		}
	}
	return nil, "", maxCache, len(w.io.chkCalls)
}

func c08Real(sh *evidence.Shard) {
	env := sh.Env()
	p := sh.Part("real-capacity", "enum")
	var names []string
	for _, pl := range c08RealPolicies {
		names = append(names, pl.name)
	}
	p.Alphabet = map[string]any{
		"maxSessionACLCache": maxSessionACLCache,
		"destinations":       fmt.Sprintf("%d distinct (%s .. %s)", c08RealN, c08RealDest(0), c08RealDest(c08RealN-1)),
		"sequence":           "all of them in order, all again, all in reverse (one session), one simulated reply after every datagram",
		"policies":           names,
		"hook":               []string{"off", "rewrites the first destination to h"},
		"note":               "directed run: the eviction victim is whatever Go's map order picks (not enumerated here); the oracle is victim-independent",
	}
	var item int64
	shardMax := 0
	for _, pl := range c08RealPolicies {
		for _, hk := range []bool{false, true} {
			item++
			if !env.Mine(item) {
				continue
			}
			c := &c08RealCase{Policy: pl.name, Hook: hk}
			p.Evaluations++
			var verr error
			var where string
			var maxCache, checks int
			if val, stack := evidence.Catch(func() { verr, where, maxCache, checks = c08RunReal(c) }); val != nil {
				verr = c08Bad("panic", "%v at %s", val, evidence.PanicSite(stack))
			}
			p.Count("datagrams", int64(3*c08RealN))
			if maxCache > shardMax {
				shardMax = maxCache
			}
			p.Class(pl.name, hk, verr == nil, maxCache)
			p.Sample(map[string]any{"policy": pl.name, "hook": hk, "max_cache_len": maxCache, "CheckUDP_calls": checks})
			if verr == nil && !hk && pl.allow(0) && maxCache != maxSessionACLCache {
				// a harness expectation, not a property clause: how full the cache gets is the
				// implementation's business (it may cache allowed destinations only, flush when full, ...)
				p.Count("runs_in_which_the_cache_never_reached_its_capacity", 1)
				p.Note("policy %s: the private decision cache peaked at %d entries (capacity constant %d): the at-capacity eviction path was not exercised by this run (not a violation)", pl.name, maxCache, maxSessionACLCache)
			}
			if verr != nil {
				clause := "error"
				var ce *c08Err
				if errors.As(verr, &ce) {
					clause = ce.Clause
				}
				sh.Violate(p.Name, fmt.Sprintf("real-capacity/%s/policy=%s,hook=%v", clause, pl.name, hk), fmt.Sprintf("%v [%s]", verr, where), c)
			}
		}
	}
	p.Count("max_cache_len", int64(shardMax))
}

func c08ReplayReal(part string, raw json.RawMessage) (bool, bool, string) {
	if part != "real-capacity" {
		return false, false, ""
	}
	if maxSessionACLCache != 256 {
		return false, false, ""
	}
	var c c08RealCase
	if err := json.Unmarshal(raw, &c); err != nil {
		return true, false, err.Error()
	}
	verr, where, _, _ := c08RunReal(&c)
	if verr != nil {
		return true, true, fmt.Sprintf("%v [%s]", verr, where)
	}
	return true, false, "run completes without violation"
}

func TestVerifC08Real(t *testing.T) {
	evidence.Main(t, "C08", evidence.Seq{Run: func(sh *evidence.Shard) { c08Real(sh); c08Long(sh); c08NotePriv(sh) }, Replay: func(part string, raw json.RawMessage) (bool, bool, string) {
		if part == "long-destinations" {
			return c08ReplayLong(part, raw)
		}
		return c08ReplayReal(part, raw)
	}})
}

// ---------------------------------------------------------------------------------------------
// LENGTH of the destination strings (same unit: real capacity). The policy is a predicate on the
// exact destination string, whatever its length; every other part uses strings of at most ~20
// bytes. Here one session names two destinations A and B that share a common prefix of L bytes
// and differ only behind it (in the tail of the name, in the port only, or B is A plus one more
// byte), under every policy on (A, B), in every order, with a short allowed destination s as a
// possible opener, hook off/on - judged by the same per-datagram oracle (c08World.datagram).
// Added after the independently seeded change C08-9 (decision cache keyed by a fixed [128]byte
// array filled by copy(): destinations equal in their first 128 bytes shared one cached verdict).

// c08LongLens: shared-prefix lengths around the powers of two a fixed-size key/buffer would
// have (quick); every length 3..300 and more boundaries in the thorough tier.
func c08LongLens(thorough bool) []int {
	if !thorough {
		return []int{64, 127, 128, 129, 255, 256, 1024}
	}
	var ls []int
	for l := 3; l <= 300; l++ {
		ls = append(ls, l)
	}
	return append(ls, 511, 512, 513, 1023, 1024, 1025, 2000)
}

// c08LongTails: how A and B differ behind the shared prefix; pre/a/b are chosen so that the
// longest common prefix of A = host+pre+a and B = host+pre+b is exactly L bytes (host has
// L-len(pre) bytes, a and b differ in their first byte or a is empty).
var c08LongTails = []struct {
	name      string
	pre, a, b string
}{
	{"name-tail", ".", "allowed.example:53", "blocked.example:53"},
	{"port-only", ":", "53", "80"},
	{"B=A+one-byte", ":5", "", "3"},
}

// c08LongPrefix: l bytes of host name, labels of 63 letters separated by dots (never ending in a dot).
func c08LongPrefix(l int) string {
	b := make([]byte, l)
	for i := range b {
		if i%64 == 63 && i != l-1 {
			b[i] = '.'
		} else {
			b[i] = byte('a' + (i/64)%26)
		}
	}
	return string(b)
}

const c08LongSeqLen = 3

type c08LongCase struct {
	PrefixLen int    `json:"shared_prefix_len"`
	Tail      string `json:"tail"`
	Policy    int    `json:"policy"` // bit 0: A allowed, bit 1: B allowed (s and h always allowed)
	Hook      bool   `json:"hook"`
	Seq       []int  `json:"seq"` // 0 = s (short, allowed), 1 = A, 2 = B
}

func (c *c08LongCase) String() string {
	var sb strings.Builder
	for _, x := range c.Seq {
		sb.WriteByte("sAB"[x])
	}
	return fmt.Sprintf("prefix=%d,tail=%s,allowA=%v,allowB=%v,hook=%v,seq=%s", c.PrefixLen, c.Tail, c.Policy&1 != 0, c.Policy&2 != 0, c.Hook, sb.String())
}

func c08RunLong(c *c08LongCase) (verr error, where string) {
	ta, tb, found := "", "", false
	for _, t := range c08LongTails {
		if t.name == c.Tail && c.PrefixLen > len(t.pre) {
			host := c08LongPrefix(c.PrefixLen - len(t.pre))
			ta, tb, found = host+t.pre+t.a, host+t.pre+t.b, true
		}
	}
	if !found {
		return c08Bad("unknown-case", "%s", c), ""
	}
	sym := []string{c08Dests[0], ta, tb}
	allow := func(a string) bool {
		switch a {
		case sym[0], c08HookAddr:
			return true
		case sym[1]:
			return c.Policy&1 != 0
		case sym[2]:
			return c.Policy&2 != 0
		}
		return false
	}
	var hook func(string) (string, bool)
	if c.Hook {
		hook = func(string) (string, bool) { return c08HookAddr, true }
	}
	w := c08NewWorld(allow, hook, append(append([]string{}, sym...), c08HookAddr))
	defer w.teardown()
	for i, x := range c.Seq {
		if x < 0 || x >= len(sym) {
			return c08Bad("unknown-case", "%s", c), ""
		}
		if err := w.datagram(sym[x], -1); err != nil {
			return err, fmt.Sprintf("datagram #%d of %s (A, B = %d, %d bytes)", i+1, c, len(sym[1]), len(sym[2]))
		}
	}
	return nil, ""
}

func c08Long(sh *evidence.Shard) {
	env := sh.Env()
	p := sh.Part("long-destinations", "enum")
	lens := c08LongLens(env.Thorough())
	var tails []string
	for _, t := range c08LongTails {
		tails = append(tails, fmt.Sprintf("%s: A = host+%q, B = host+%q", t.name, t.pre+t.a, t.pre+t.b))
	}
	p.Alphabet = map[string]any{
		"destination_string_length": "the longest common prefix of A and B is exactly L bytes (a host name of 63-letter labels); they differ only behind it",
		"shared_prefix_len_L":       lens,
		"tails":                     tails,
		"policies":                  "every allow/deny predicate on (A, B) (4); the short destination s and the hook address are allowed",
		"sequence":                  fmt.Sprintf("every sequence of %d datagrams over {s = %s, A, B} in one session (both orders of A and B, each of them or s as the opener), one simulated reply after every datagram", c08LongSeqLen, c08Dests[0]),
		"hook":                      []string{"off", "rewrites the first destination to h"},
		"maxSessionACLCache":        maxSessionACLCache,
	}
	p.Bounds = map[string]any{"sequence_len": c08LongSeqLen, "max_shared_prefix_len": lens[len(lens)-1]}
	nSeq := 1
	for i := 0; i < c08LongSeqLen; i++ {
		nSeq *= 3
	}
	var item int64
	reported := 0
	for _, l := range lens {
		for _, t := range c08LongTails {
			for pol := 0; pol < 4; pol++ {
				for _, hk := range []bool{false, true} {
					for s := 0; s < nSeq; s++ {
						item++
						if !env.Mine(item) {
							continue
						}
						c := &c08LongCase{PrefixLen: l, Tail: t.name, Policy: pol, Hook: hk}
						for k, r := 0, s; k < c08LongSeqLen; k, r = k+1, r/3 {
							c.Seq = append(c.Seq, r%3)
						}
						p.Evaluations++
						var verr error
						var where string
						if val, stack := evidence.Catch(func() { verr, where = c08RunLong(c) }); val != nil {
							verr = c08Bad("panic", "%v at %s", val, evidence.PanicSite(stack))
						}
						p.Count("datagrams", int64(len(c.Seq)))
						p.Class(l, t.name, pol, hk, verr == nil)
						if p.Evaluations%307 == 5 {
							p.Sample(c)
						}
						if verr != nil {
							clause := "error"
							var ce *c08Err
							if errors.As(verr, &ce) {
								clause = ce.Clause
							}
							sh.Violate(p.Name, fmt.Sprintf("long-destinations/%s/%s", clause, c), fmt.Sprintf("%v [%s]", verr, where), c)
							if reported++; reported >= 4 {
								p.Exhaustive = false
								p.Note("stopped after 4 reported violations in this shard (remaining cases not run)")
								return
							}
						}
					}
				}
			}
		}
	}
}

func c08ReplayLong(part string, raw json.RawMessage) (bool, bool, string) {
	var c c08LongCase
	if err := json.Unmarshal(raw, &c); err != nil {
		return true, false, err.Error()
	}
	verr, where := c08RunLong(&c)
	if verr != nil {
		return true, true, fmt.Sprintf("%v [%s]", verr, where)
	}
	return true, false, "run completes without violation"
}

// verifCleanupAll closes every session of a manager at the end of a case. The private
// cleanup(idleOnly bool) method is called through an interface assertion, so that a refactor of
// it does not break the harness build; without it the sessions are left to the fake sockets'
// Close (every case uses fresh objects).
func verifCleanupAll(m *udpSessionManager) {
	if c, ok := any(m).(interface{ cleanup(bool) }); ok {
		c.cleanup(false)
	}
}

// c08NotePriv records private state the harness could not locate on this tree (the oracles that
// read it were skipped).
func c08NotePriv(sh *evidence.Shard) {
	var ns []string
	for n := range c08PrivMissing {
		ns = append(ns, n)
	}
	if len(ns) == 0 {
		return
	}
	sort.Strings(ns)
	sh.Assume("private state not found by type on this tree: " + strings.Join(ns, "; ") + " — the cache-coherence invariant, the eviction-victim enumeration and that part of the state key were skipped; the policy oracle on every forwarded datagram still ran")
}
