package outbounds

// C08 harness, environment contract (injected by overlay into extras/outbounds).
//
// The core/server units of C08 run the session code against a fake outbound whose UDP(addr)
// refuses a destination exactly when CheckUDP(addr) does. This unit discharges that contract
// on the real code: for every rule list and every query, aclEngine.UDP and aclEngine.CheckUDP
// reach the same decision (reject, or the same outbound with the same - possibly hijacked -
// address), in either call order (the rule set has a lookup cache), and
// PluggableOutboundAdapter parses "host:port" identically on both paths. Stub outbounds, no
// network, no resolver (resolved addresses are supplied as ResolveInfo directly).

import (
	"encoding/json"
	"errors"
	"fmt"
	"net"
	"testing"

	"verif.local/engine/enum"
	"verif.local/engine/evidence"
)

type c08Seen struct {
	OB     string
	Method string
	Host   string
	Port   uint16
	RI     string
}

func c08RI(r *ResolveInfo) string {
	if r == nil {
		return "-"
	}
	return fmt.Sprintf("%v|%v|%v", r.IPv4, r.IPv6, r.Err)
}

type c08StubConn struct{}

func (c08StubConn) ReadFrom(b []byte) (int, *AddrEx, error)     { return 0, nil, errors.New("c08 stub") }
func (c08StubConn) WriteTo(b []byte, addr *AddrEx) (int, error) { return len(b), nil }
func (c08StubConn) Close() error                                { return nil }

// c08StubOB records what reaches it. refuse=true: an outbound that does not do UDP at all
// (refuses on both paths, like the real HTTP outbound).
type c08StubOB struct {
	name   string
	refuse bool
	seen   *[]c08Seen
}

func (o *c08StubOB) rec(method string, a *AddrEx) {
	*o.seen = append(*o.seen, c08Seen{OB: o.name, Method: method, Host: a.Host, Port: a.Port, RI: c08RI(a.ResolveInfo)})
}

func (o *c08StubOB) TCP(a *AddrEx) (net.Conn, error) {
	o.rec("TCP", a)
	return nil, errors.New("c08 stub: tcp not used")
}

func (o *c08StubOB) UDP(a *AddrEx) (UDPConn, error) {
	o.rec("UDP", a)
	if o.refuse {
		return nil, errors.New("c08 stub: no udp")
	}
	return c08StubConn{}, nil
}

func (o *c08StubOB) CheckUDP(a *AddrEx) error {
	o.rec("CheckUDP", a)
	if o.refuse {
		return errors.New("c08 stub: no udp")
	}
	return nil
}

// rule lists: reject rules, direct, default, proto/port qualifiers (a tcp-only reject must not
// reject UDP and vice versa), CIDR, suffix/wildcard names, hijack, custom outbounds.
var c08RuleLists = []string{
	``,
	`reject(all)`,
	`reject(all, udp)`,
	`reject(all, tcp)`,
	`reject(a.com)
direct(all)`,
	`reject(a.com, udp/53)
reject(b.com, tcp)
ob2(all, udp)`,
	`reject(*.a.com)
reject(suffix:b.com, udp)
ob2(1.2.3.0/24)
direct(all, tcp)`,
	`ob2(a.com, udp/53)
reject(a.com)
ob3(all, */80-90)`,
	`reject(1.2.3.4)
reject(::1, udp)
reject(10.0.0.0/8, udp/1000-2000)
ob2(2001:db8::/32)`,
	`ob3(a.com, udp, 9.9.9.9)
reject(9.9.9.9)
ob2(all, *, 2001:db8::9)`,
	`noudp(b.com)
reject(a.com, tcp/443)
reject(a.com, udp/443)
default(c.org)
ob3(all)`,
	`reject(a.*)
ob2(suffix:example, udp/1)
reject(all, udp/65535)
reject(all, udp/0)`,
	`reject(all, tcp/53)
ob2(all, tcp)
reject(d2.example, */1)`,
}

// query strings handed to the adapter (host:port as a client may send it).
var c08Queries = []string{
	"a.com:53", "a.com:443", "a.com:80", "A.COM:53", "a.com.:53", "x.a.com:53", "a.org:53",
	"b.com:53", "x.b.com:1", "c.org:9", "example:1", "d2.example:1", "d3.example:65535",
	"1.2.3.4:53", "1.2.3.5:90", "9.9.9.9:53", "10.1.2.3:1000", "10.1.2.3:2001", "[::1]:53",
	"[2001:db8::1]:443", "[2001:db8::9]:1", "a.com:0", "a.com:65535",
	// malformed: both paths must fail alike, before reaching any outbound
	"a.com:65536", "a.com:-1", "a.com:", "a.com", ":53", "a.com:http", "a.com:+80", "a.com:080",
	"::1:53", "[::1]", "1.2.3.4:53 ", "a.com:5 3", "",
}

// resolved addresses optionally attached to a query at the AddrEx level (what a resolver in
// front of the ACL engine would have filled in).
var c08Resolves = []*ResolveInfo{
	nil,
	{IPv4: net.ParseIP("1.2.3.4").To4()},
	{IPv6: net.ParseIP("::1")},
	{IPv4: net.ParseIP("10.9.9.9").To4(), IPv6: net.ParseIP("2001:db8::77")},
	{Err: errors.New("c08: resolve failed")},
}

func c08Engine(rules string, seen *[]c08Seen) (PluggableOutbound, error) {
	obs := []OutboundEntry{
		{"ob1", &c08StubOB{name: "ob1(default)", seen: seen}},
		{"ob2", &c08StubOB{name: "ob2", seen: seen}},
		{"ob3", &c08StubOB{name: "ob3", seen: seen}},
		{"noudp", &c08StubOB{name: "noudp", refuse: true, seen: seen}},
		{"direct", &c08StubOB{name: "direct", seen: seen}}, // no real sockets: override the built-in direct
	}
	// "reject" stays the built-in aclRejectOutbound
	return NewACLEngineFromString(rules, obs, nil)
}

// c08Decision is what one path decided: error or not, and which outbound saw which address.
type c08Decision struct {
	Err  bool
	Seen []c08Seen
}

func (d c08Decision) norm() string {
	s := fmt.Sprintf("err=%v", d.Err)
	for _, x := range d.Seen {
		s += fmt.Sprintf(" %s(%s,%d,%s)", x.OB, x.Host, x.Port, x.RI)
	}
	return s
}

type c08AclCase struct {
	Kind    string `json:"kind"` // engine | adapter-engine | adapter
	Rules   int    `json:"rules"`
	Query   string `json:"query,omitempty"`
	Host    string `json:"host,omitempty"`
	Port    uint16 `json:"port,omitempty"`
	Resolve int    `json:"resolve,omitempty"`
}

func c08CloneRI(r *ResolveInfo) *ResolveInfo {
	if r == nil {
		return nil
	}
	cp := *r
	return &cp
}

// c08RunAcl returns "" or the violated clause, plus the decision (for the class).
func c08RunAcl(c *c08AclCase) (clause string, outcome string) {
	type path struct {
		name string
		udp  bool
		tcp  bool // a TCP request to the same destination (shares the engine's lookup cache)
	}
	run := func(order []path) (map[string]c08Decision, string) {
		var seen []c08Seen
		var ob PluggableOutbound
		if c.Kind == "adapter" {
			ob = &c08StubOB{name: "stub", seen: &seen}
		} else {
			var err error
			ob, err = c08Engine(c08RuleLists[c.Rules], &seen)
			if err != nil {
				return nil, "rule list does not compile: " + err.Error()
			}
		}
		res := map[string]c08Decision{}
		for _, p := range order {
			seen = seen[:0]
			var err error
			switch c.Kind {
			case "engine":
				a := &AddrEx{Host: c.Host, Port: c.Port, ResolveInfo: c08CloneRI(c08Resolves[c.Resolve])}
				if p.tcp {
					if conn, terr := ob.TCP(a); terr == nil && conn != nil {
						_ = conn.Close()
					}
					continue
				}
				if p.udp {
					_, err = ob.UDP(a)
				} else {
					err = ob.CheckUDP(a)
				}
			default:
				ad := &PluggableOutboundAdapter{ob}
				if p.tcp {
					if conn, terr := ad.TCP(c.Query); terr == nil && conn != nil {
						_ = conn.Close()
					}
					continue
				}
				if p.udp {
					var conn interface{ Close() error }
					conn, err = ad.UDP(c.Query)
					if err == nil && conn == nil {
						return nil, "adapter.UDP returned neither a socket nor an error"
					}
				} else {
					err = ad.CheckUDP(c.Query)
				}
			}
			d := c08Decision{Err: err != nil, Seen: append([]c08Seen{}, seen...)}
			for _, s := range d.Seen {
				want := "CheckUDP"
				if p.udp {
					want = "UDP"
				}
				if s.Method != want {
					return nil, fmt.Sprintf("%s path invoked %s on outbound %s", want, s.Method, s.OB)
				}
			}
			for i := range d.Seen {
				d.Seen[i].Method = ""
			}
			res[p.name] = d
		}
		return res, ""
	}
	a, cl := run([]path{{"udp-first", true, false}, {"check-second", false, false}})
	if cl != "" {
		return cl, ""
	}
	b, cl := run([]path{{"check-first", false, false}, {"udp-second", true, false}})
	if cl != "" {
		return cl, ""
	}
	// a TCP request to the same destination first (any client of the server may have made one):
	// the UDP decisions must not depend on it
	t, cl := run([]path{{name: "tcp-first", tcp: true}, {"udp-after-tcp", true, false}, {"check-after-tcp", false, false}})
	if cl != "" {
		return cl, ""
	}
	ref := a["udp-first"].norm()
	for _, x := range []struct {
		n string
		d c08Decision
	}{{"CheckUDP after UDP", a["check-second"]}, {"CheckUDP on a fresh engine", b["check-first"]}, {"UDP after CheckUDP", b["udp-second"]},
		{"UDP after a TCP request to the same destination", t["udp-after-tcp"]}, {"CheckUDP after a TCP request to the same destination", t["check-after-tcp"]}} {
		if x.d.norm() != ref {
			return fmt.Sprintf("UDP and CheckUDP disagree: UDP on a fresh engine -> [%s], %s -> [%s]", ref, x.n, x.d.norm()), ref
		}
	}
	if len(a["udp-first"].Seen) > 1 {
		return "more than one outbound consulted for one request: " + ref, ref
	}
	// a PARTIAL resolver answer (ResolveInfo documents that addresses and an error may come together: the A lookup
	// timed out, the AAAA lookup answered): a destination the policy rejects with these addresses known is still
	// rejected when the same addresses arrive with an error next to them, on both paths (seed C08-14). One
	// direction only - refusing more on an error is the policy's business.
	if ri := c08Resolves[c.Resolve]; c.Kind == "engine" && ri != nil && ri.Err == nil && (ri.IPv4 != nil || ri.IPv6 != nil) &&
		a["udp-first"].Err && len(a["udp-first"].Seen) == 0 {
		for _, udp := range []bool{true, false} {
			var seen []c08Seen
			ob, err := c08Engine(c08RuleLists[c.Rules], &seen)
			if err != nil {
				return "rule list does not compile: " + err.Error(), ref
			}
			pr := c08CloneRI(ri)
			pr.Err = errors.New("c08: lookup of the other family timed out")
			ad := &AddrEx{Host: c.Host, Port: c.Port, ResolveInfo: pr}
			if udp {
				_, err = ob.UDP(ad)
			} else {
				err = ob.CheckUDP(ad)
			}
			if err == nil || len(seen) > 0 {
				return fmt.Sprintf("rejected destination allowed on a partial resolver answer: with addresses %s the policy rejects it, with the same addresses plus a resolver error (udp-path=%v) -> err=%v outbounds=%v", c08RI(ri), udp, err != nil, seen), ref
			}
		}
	}
	return "", ref
}

func c08AclSig(c *c08AclCase, clause string) string {
	// clause text up to the first ':' is the stable id
	id := clause
	for i := 0; i < len(id); i++ {
		if id[i] == ':' {
			id = id[:i]
			break
		}
	}
	switch c.Kind {
	case "engine":
		return fmt.Sprintf("acl-contract/%s/%s/rules#%d,host=%q,port=%d,resolve#%d", c.Kind, id, c.Rules, c.Host, c.Port, c.Resolve)
	case "adapter":
		return fmt.Sprintf("acl-contract/%s/%s/query=%q", c.Kind, id, c.Query)
	}
	return fmt.Sprintf("acl-contract/%s/%s/rules#%d,query=%q", c.Kind, id, c.Rules, c.Query)
}

func c08AclContract(sh *evidence.Shard) {
	env := sh.Env()
	var item int64
	reported := 0
	one := func(p *evidence.Part, c *c08AclCase) {
		item++
		if !env.Mine(item) || reported >= 6 {
			return
		}
		p.Evaluations++
		var clause, outcome string
		if val, stack := evidence.Catch(func() { clause, outcome = c08RunAcl(c) }); val != nil {
			clause = fmt.Sprintf("panic: %v at %s", val, evidence.PanicSite(stack))
		}
		p.Class(c.Kind, c.Rules, outcome)
		if p.Evaluations%37 == 5 {
			p.Sample(map[string]any{"case": c, "decision": outcome})
		}
		if clause != "" {
			reported++
			cc := *c
			sh.Violate(p.Name, c08AclSig(c, clause), clause, &cc)
		}
	}

	// (1) adapter alone: host/port parsing identical on UDP() and CheckUDP()
	p1 := sh.Part("adapter-parse", "enum")
	p1.Alphabet = map[string]any{"queries": c08Queries}
	for _, q := range c08Queries {
		one(p1, &c08AclCase{Kind: "adapter", Query: q})
	}

	// (2) adapter + real ACL engine: every rule list x every query string
	p2 := sh.Part("adapter-acl-engine", "enum")
	p2.Alphabet = map[string]any{"rule_lists": c08RuleLists, "queries": c08Queries,
		"outbounds": "ob1 (default), ob2, ob3, noudp (refuses UDP on both paths), direct (stub), built-in reject",
		"orders":    "UDP then CheckUDP on one engine; CheckUDP then UDP on another; TCP to the same destination, then UDP, then CheckUDP on a third (lookup cache warm/cold, warmed by the other protocol)"}
	enum.Product([]int{len(c08RuleLists), len(c08Queries)}, func(ix []int) bool {
		one(p2, &c08AclCase{Kind: "adapter-engine", Rules: ix[0], Query: c08Queries[ix[1]]})
		return true
	})

	// (3) ACL engine at the AddrEx level, with resolver results attached
	p3 := sh.Part("acl-engine-resolved", "enum")
	hosts := []string{"a.com", "A.COM.", "x.a.com", "b.com", "c.org", "d2.example", "1.2.3.4", "::1", "10.1.2.3", "2001:db8::1", ""}
	ports := []uint16{0, 1, 53, 80, 443, 1000, 2001, 65535}
	p3.Alphabet = map[string]any{"rule_lists": len(c08RuleLists), "hosts": hosts, "ports": ports,
		"resolve_info": []string{"none", "IPv4 1.2.3.4", "IPv6 ::1", "IPv4 10.9.9.9 + IPv6 2001:db8::77", "error only"}}
	enum.Product([]int{len(c08RuleLists), len(hosts), len(ports), len(c08Resolves)}, func(ix []int) bool {
		one(p3, &c08AclCase{Kind: "engine", Rules: ix[0], Host: hosts[ix[1]], Port: ports[ix[2]], Resolve: ix[3]})
		return true
	})
	if reported >= 6 {
		for _, p := range []*evidence.Part{p1, p2, p3} {
			p.Exhaustive = false
		}
		p3.Note("stopped reporting after 6 violations in this shard")
	}
}

func c08AclReplay(part string, raw json.RawMessage) (bool, bool, string) {
	switch part {
	case "adapter-parse", "adapter-acl-engine", "acl-engine-resolved":
	default:
		return false, false, ""
	}
	var c c08AclCase
	if err := json.Unmarshal(raw, &c); err != nil {
		return true, false, err.Error()
	}
	if c.Rules < 0 || c.Rules >= len(c08RuleLists) || c.Resolve < 0 || c.Resolve >= len(c08Resolves) {
		return true, false, "case out of range"
	}
	clause, _ := c08RunAcl(&c)
	if clause != "" {
		return true, true, clause
	}
	return true, false, "UDP and CheckUDP agree"
}

func TestVerifC08AclContract(t *testing.T) {
	// session-delivery parts (aclsession_test.go): several destinations in one session through the
	// real chain, judged by where the datagrams arrive; added after the independently seeded
	// change C08-8 (udpConnAdapter.WriteTo kept the previous destination's ResolveInfo)
	evidence.Main(t, "C08", evidence.Seq{
		Run: func(sh *evidence.Shard) { c08AclContract(sh); c08SessionDelivery(sh) },
		Replay: func(part string, raw json.RawMessage) (bool, bool, string) {
			if h, r, d := c08AclReplay(part, raw); h {
				return h, r, d
			}
			return c08SessReplay(part, raw)
		},
	})
}
