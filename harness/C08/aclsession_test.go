package outbounds

// C08 harness, delivery of one session's datagrams through the REAL outbound chain (injected by
// overlay into extras/outbounds, unit aclcontract).
//
// Dimension: one UDP session that names SEVERAL destinations one after the other, driven through
// the chain app/cmd/server.go builds - PluggableOutboundAdapter -> system resolver -> ACL engine
// -> terminal outbound - the way core/server/udp.go drives a server.Outbound (first destination
// dialled with UDP(), every later one submitted to CheckUDP() and, when allowed, handed to the
// session's UDPConn.WriteTo()), judged by WHERE each datagram physically arrives: a destination
// the rule list rejects receives nothing, every datagram arrives at the destination it was
// addressed to and nowhere else. The other parts of this unit compare decisions (AddrEx
// Host/Port as seen by a stub); this one looks behind the AddrEx, at the IP the terminal
// outbound sends to.
//
// Two terminals, same cases:
//   - "loopback": the real built-in direct outbound; the destinations are real UDP sockets on
//     loopback addresses (127.0.0.1/2/3 x two port numbers that are free on all three). After
//     every session the harness sends an end marker to every listener from its own socket and
//     reads each listener up to its marker (loopback delivers in order), so no clock decides
//     anything; the read deadline is only a guard against a hung harness (infrastructure error).
//     When the loopback aliases cannot be bound the part says so and is not exhaustive.
//   - "inplace": a socket-free fake with the capability the real direct outbound has and the
//     recording stubs of the other parts lack: its UDPConn.WriteTo resolves IN PLACE into the
//     AddrEx it is given when (and only when) ResolveInfo is nil and "sends" to the resolved IP.
//
// added after the independently seeded change C08-8 (udpConnAdapter.WriteTo reused one AddrEx
// per connection and overwrote only Host/Port, so the ResolveInfo of the previous destination
// survived and the datagram for an approved destination went to the previous destination's IP)

import (
	"encoding/json"
	"errors"
	"fmt"
	"net"
	"sort"
	"strings"
	"time"

	"verif.local/engine/enum"
	"verif.local/engine/evidence"
)

var c08SessIPs = []string{"127.0.0.1", "127.0.0.2", "127.0.0.3"}

const c08SessNPorts = 2

// destination index d = ip*c08SessNPorts + port
func c08SessDestName(d int) string {
	return fmt.Sprintf("%s:p%d", c08SessIPs[d/c08SessNPorts], d%c08SessNPorts)
}

// c08SessRule is one reject rule in front of direct(all); the reference predicate is written
// from the rule's meaning, not taken from the engine.
type c08SessRule struct {
	IP    string // "" = all, "a.b.c.d" or CIDR "a.b.c.d/n"
	Proto string // "udp", "tcp", "*" or "" (no qualifier at all)
	Port  int    // port index, -1 = any
}

func (r c08SessRule) text(ports []string) string {
	host := r.IP
	if host == "" {
		host = "all"
	}
	switch {
	case r.Proto == "":
		return fmt.Sprintf("reject(%s)", host)
	case r.Port < 0:
		return fmt.Sprintf("reject(%s, %s)", host, r.Proto)
	}
	return fmt.Sprintf("reject(%s, %s/%s)", host, r.Proto, ports[r.Port])
}

func (r c08SessRule) name() string {
	return r.text([]string{"p0", "p1"}) // stable spelling: port index, not the number of this run
}

func (r c08SessRule) rejects(d int) bool {
	ip, port := c08SessIPs[d/c08SessNPorts], d%c08SessNPorts
	if r.Proto == "tcp" {
		return false
	}
	if r.Proto != "" && r.Port >= 0 && r.Port != port {
		return false
	}
	switch {
	case r.IP == "":
		return true
	case strings.Contains(r.IP, "/"):
		_, n, err := net.ParseCIDR(r.IP)
		return err == nil && n.Contains(net.ParseIP(ip))
	}
	return r.IP == ip
}

// rule lists: nothing rejected; every single (ip, port) of the grid rejected for udp; a whole
// ip; a port on every ip; a CIDR covering two of the three ips; a tcp-only reject (must not touch
// UDP); two rejects on a diagonal.
func c08SessRuleLists() [][]c08SessRule {
	ls := [][]c08SessRule{{}}
	for _, ip := range c08SessIPs {
		for p := 0; p < c08SessNPorts; p++ {
			ls = append(ls, []c08SessRule{{IP: ip, Proto: "udp", Port: p}})
		}
	}
	for _, ip := range c08SessIPs {
		ls = append(ls, []c08SessRule{{IP: ip, Port: -1}})
	}
	for p := 0; p < c08SessNPorts; p++ {
		ls = append(ls, []c08SessRule{{Proto: "*", Port: p}})
	}
	ls = append(ls,
		[]c08SessRule{{IP: "127.0.0.2/31", Proto: "udp", Port: 1}},
		[]c08SessRule{{IP: c08SessIPs[0], Proto: "tcp", Port: 1}},
		[]c08SessRule{{IP: c08SessIPs[0], Proto: "udp", Port: 1}, {IP: c08SessIPs[1], Proto: "udp", Port: 0}},
	)
	return ls
}

func c08SessRulesName(l []c08SessRule) string {
	if len(l) == 0 {
		return "direct(all)"
	}
	var s []string
	for _, r := range l {
		s = append(s, r.name())
	}
	return strings.Join(s, ";")
}

func c08SessRejected(l []c08SessRule, d int) bool {
	for _, r := range l {
		if r.rejects(d) {
			return true
		}
	}
	return false
}

// ---- terminal "inplace": socket-free fake with in-place resolution ----

type c08Arrival struct {
	At      string // "ip:port" the datagram physically went to
	Payload string
}

type c08InplaceOB struct{ arrived *[]c08Arrival }

func (o *c08InplaceOB) TCP(*AddrEx) (net.Conn, error) { return nil, errors.New("c08 inplace: no tcp") }
func (o *c08InplaceOB) CheckUDP(*AddrEx) error        { return nil }
func (o *c08InplaceOB) UDP(*AddrEx) (UDPConn, error)  { return &c08InplaceConn{o.arrived}, nil }

type c08InplaceConn struct{ arrived *[]c08Arrival }

func (c *c08InplaceConn) ReadFrom([]byte) (int, *AddrEx, error) {
	return 0, nil, errors.New("c08 inplace: closed")
}
func (c *c08InplaceConn) Close() error { return nil }

// WriteTo does what directOutboundUDPConn.WriteTo does with the AddrEx: resolve into it only
// when nobody did before, then send to the resolved IP and addr.Port.
func (c *c08InplaceConn) WriteTo(b []byte, addr *AddrEx) (int, error) {
	if addr.ResolveInfo == nil {
		ri := &ResolveInfo{}
		if ip := net.ParseIP(addr.Host); ip == nil {
			ri.Err = errors.New("c08 inplace: unknown host")
		} else if ip.To4() != nil {
			ri.IPv4 = ip
		} else {
			ri.IPv6 = ip
		}
		addr.ResolveInfo = ri
	}
	r := addr.ResolveInfo
	ip := r.IPv4
	if ip == nil {
		ip = r.IPv6
	}
	if ip == nil {
		return 0, errors.New("c08 inplace: no address")
	}
	*c.arrived = append(*c.arrived, c08Arrival{At: net.JoinHostPort(ip.String(), fmt.Sprint(addr.Port)), Payload: string(b)})
	return len(b), nil
}

// ---- terminal "loopback": real direct outbound, real sockets on loopback ----

type c08Loopback struct {
	ports []int
	l     []*net.UDPConn // by destination index
	probe *net.UDPConn
	seq   int
}

func c08OpenLoopback() (*c08Loopback, error) {
	n := &c08Loopback{}
	var lastErr error
	for p := 0; p < c08SessNPorts; p++ {
		var got []*net.UDPConn
		for try := 0; try < 64 && got == nil; try++ {
			first, err := net.ListenUDP("udp4", &net.UDPAddr{IP: net.ParseIP(c08SessIPs[0])})
			if err != nil {
				lastErr = err
				break
			}
			port := first.LocalAddr().(*net.UDPAddr).Port
			cs := []*net.UDPConn{first}
			for _, ip := range c08SessIPs[1:] {
				c, err := net.ListenUDP("udp4", &net.UDPAddr{IP: net.ParseIP(ip), Port: port})
				if err != nil {
					lastErr = err
					break
				}
				cs = append(cs, c)
			}
			if len(cs) != len(c08SessIPs) {
				for _, c := range cs {
					_ = c.Close()
				}
				continue
			}
			got = cs
			n.ports = append(n.ports, port)
		}
		if got == nil {
			n.Close()
			return nil, fmt.Errorf("no port number bindable on all of %v: %v", c08SessIPs, lastErr)
		}
		// got is by ip for this port; n.l is by destination index ip*NPorts+port
		if n.l == nil {
			n.l = make([]*net.UDPConn, len(c08SessIPs)*c08SessNPorts)
		}
		for i, c := range got {
			n.l[i*c08SessNPorts+p] = c
		}
	}
	probe, err := net.ListenUDP("udp4", &net.UDPAddr{IP: net.ParseIP(c08SessIPs[0])})
	if err != nil {
		n.Close()
		return nil, err
	}
	n.probe = probe
	return n, nil
}

func (n *c08Loopback) Close() {
	for _, c := range n.l {
		if c != nil {
			_ = c.Close()
		}
	}
	if n.probe != nil {
		_ = n.probe.Close()
	}
}

// collect returns, per destination index, what arrived there since the previous collect. The
// end marker is sent after everything the session wrote; loopback queues in order.
func (n *c08Loopback) collect() ([][]string, error) {
	n.seq++
	marker := fmt.Sprintf("c08-end#%d", n.seq)
	for _, l := range n.l {
		if _, err := n.probe.WriteToUDP([]byte(marker), l.LocalAddr().(*net.UDPAddr)); err != nil {
			return nil, err
		}
	}
	out := make([][]string, len(n.l))
	buf := make([]byte, 512)
	for d, l := range n.l {
		for {
			_ = l.SetReadDeadline(time.Now().Add(20 * time.Second)) // guard only, not an oracle
			k, _, err := l.ReadFromUDP(buf)
			if err != nil {
				return nil, fmt.Errorf("listener %s: end marker did not arrive: %v", c08SessDestName(d), err)
			}
			s := string(buf[:k])
			if s == marker {
				break
			}
			if strings.HasPrefix(s, "c08-end#") {
				continue // marker of an earlier, aborted collect
			}
			out[d] = append(out[d], s)
		}
	}
	return out, nil
}

// ---- one session ----

type c08SessCase struct {
	Terminal string `json:"terminal"` // loopback | inplace
	Rules    int    `json:"rules"`
	Seq      []int  `json:"seq"` // destination indices, in the order the session names them
}

var c08SessFakePorts = []int{1001, 1002}

// c08RunSession returns the violated clause ("" if none), the outcome shape for the class, and
// an infrastructure error.
func c08RunSession(c *c08SessCase, lo *c08Loopback) (clause, shape string, infra error) {
	lists := c08SessRuleLists()
	rules := lists[c.Rules]
	ports := c08SessFakePorts
	var arrived []c08Arrival
	var obs []OutboundEntry // none: "direct" is the real built-in direct outbound
	if c.Terminal == "loopback" {
		ports = lo.ports
	} else {
		obs = []OutboundEntry{{"direct", &c08InplaceOB{&arrived}}}
	}
	var text, portNames []string
	for _, p := range ports {
		portNames = append(portNames, fmt.Sprint(p))
	}
	for _, r := range rules {
		text = append(text, r.text(portNames))
	}
	text = append(text, "direct(all)")
	acl, err := NewACLEngineFromString(strings.Join(text, "\n"), obs, nil)
	if err != nil {
		return "rule list does not compile: " + err.Error(), "", nil
	}
	ob := &PluggableOutboundAdapter{NewSystemResolver(acl)}
	addr := func(d int) string {
		return net.JoinHostPort(c08SessIPs[d/c08SessNPorts], fmt.Sprint(ports[d%c08SessNPorts]))
	}

	// the session, as core/server/udp.go runs it: no socket yet -> the datagram's destination
	// is dialled (a refused dial drops the datagram, the next one tries again); socket exists ->
	// CheckUDP, then WriteTo
	var conn interface {
		WriteTo([]byte, string) (int, error)
		Close() error
	}
	want := make([][]string, len(c08SessIPs)*c08SessNPorts)
	for i, d := range c.Seq {
		rejected := c08SessRejected(rules, d)
		payload := fmt.Sprintf("dgram%d>%s", i, c08SessDestName(d))
		if conn == nil {
			cn, err := ob.UDP(addr(d))
			if (err != nil) != rejected && clause == "" {
				clause = fmt.Sprintf("UDP() disagrees with the rule list: datagram %d to %s, rejected by the rules=%v, UDP() error=%v", i, c08SessDestName(d), rejected, err)
			}
			if err != nil {
				continue
			}
			conn = cn
		} else {
			err := ob.CheckUDP(addr(d))
			if (err != nil) != rejected && clause == "" {
				clause = fmt.Sprintf("CheckUDP() disagrees with the rule list: datagram %d to %s, rejected by the rules=%v, CheckUDP() error=%v", i, c08SessDestName(d), rejected, err)
			}
			if err != nil {
				continue
			}
		}
		if _, err := conn.WriteTo([]byte(payload), addr(d)); err != nil && clause == "" {
			clause = fmt.Sprintf("WriteTo failed: datagram %d to %s: %v", i, c08SessDestName(d), err)
		}
		if !rejected {
			want[d] = append(want[d], payload)
		}
		shape += fmt.Sprint(d)
	}
	if conn != nil {
		_ = conn.Close()
	}

	// where did the datagrams arrive?
	got := make([][]string, len(want))
	if c.Terminal == "loopback" {
		got, infra = lo.collect()
		if infra != nil {
			return "", "", infra
		}
	} else {
		for _, a := range arrived {
			at := -1
			for d := range want {
				if a.At == addr(d) {
					at = d
				}
			}
			if at < 0 {
				return fmt.Sprintf("datagram left the grid: %q sent to %s", a.Payload, a.At), shape, nil
			}
			got[at] = append(got[at], a.Payload)
		}
	}
	// judged in this order: a rejected destination received something; a datagram arrived at a
	// destination it was not addressed to; an approved datagram did not arrive
	for d := range got {
		if len(got[d]) > 0 && c08SessRejected(rules, d) {
			return fmt.Sprintf("rejected destination received a datagram: %s is rejected by [%s] but received %q", c08SessDestName(d), c08SessRulesName(rules), got[d]), shape, nil
		}
	}
	for d := range got {
		for _, pl := range got[d] {
			if !strings.HasSuffix(pl, ">"+c08SessDestName(d)) {
				return fmt.Sprintf("datagram arrived at a destination it was not addressed to: %s received %q", c08SessDestName(d), pl), shape, nil
			}
		}
	}
	for d := range got {
		g, w := append([]string{}, got[d]...), append([]string{}, want[d]...)
		sort.Strings(g)
		sort.Strings(w)
		if strings.Join(g, ",") != strings.Join(w, ",") {
			return fmt.Sprintf("approved datagram did not arrive: %s received %q, the session was allowed to send it %q", c08SessDestName(d), g, w), shape, nil
		}
	}
	return clause, shape, nil
}

func c08SessSig(c *c08SessCase, clause string) string {
	id := clause
	if i := strings.IndexByte(id, ':'); i >= 0 {
		id = id[:i]
	}
	var seq []string
	for _, d := range c.Seq {
		seq = append(seq, c08SessDestName(d))
	}
	return fmt.Sprintf("session-delivery/%s/%s/rules=[%s],seq=%s", c.Terminal, id, c08SessRulesName(c08SessRuleLists()[c.Rules]), strings.Join(seq, ","))
}

func c08SessionDelivery(sh *evidence.Shard) {
	env := sh.Env()
	lists := c08SessRuleLists()
	nDest := len(c08SessIPs) * c08SessNPorts
	maxLen := 3
	if env.Thorough() {
		maxLen = 4
	}
	var listNames, dests []string
	for _, l := range lists {
		listNames = append(listNames, c08SessRulesName(l))
	}
	for d := 0; d < nDest; d++ {
		dests = append(dests, c08SessDestName(d))
	}
	for _, terminal := range []string{"inplace", "loopback"} {
		p := sh.Part("session-delivery-"+terminal, "enum")
		p.Alphabet = map[string]any{
			"chain":        "PluggableOutboundAdapter -> systemResolver -> aclEngine -> " + map[string]string{"inplace": "fake terminal whose UDPConn.WriteTo resolves in place into the AddrEx (like the direct outbound)", "loopback": "built-in direct outbound, destinations are UDP sockets on loopback"}[terminal],
			"destinations": dests,
			"rule_lists":   listNames,
			"session":      fmt.Sprintf("every sequence of 1..%d destinations (several destinations in ONE session; first dialled with UDP(), later ones CheckUDP() then WriteTo())", maxLen),
			"observed":     "where each datagram physically arrives (resolved IP and port), not the AddrEx Host/Port",
		}
		var lo *c08Loopback
		if terminal == "loopback" {
			var err error
			if lo, err = c08OpenLoopback(); err != nil {
				p.Exhaustive = false
				p.Note("loopback destinations not available here (%v): part not run; the inplace terminal covers the same cases without sockets", err)
				continue
			}
		}
		var item int64
		reported := map[string]int{} // by clause id: the first two cases of every clause are reported, all are counted
	cases:
		for ri := range lists {
			for n := 1; n <= maxLen; n++ {
				dims := make([]int, n)
				for i := range dims {
					dims[i] = nDest
				}
				stop := false
				enum.Product(dims, func(ix []int) bool {
					item++
					if !env.Mine(item) {
						return true
					}
					if item&255 == 0 && env.Expired() {
						p.Exhaustive = false
						p.Note("deadline: stopped in rule list %d, length %d", ri, n)
						stop = true
						return false
					}
					c := &c08SessCase{Terminal: terminal, Rules: ri, Seq: append([]int{}, ix...)}
					p.Evaluations++
					var clause, shape string
					var infra error
					if val, stack := evidence.Catch(func() { clause, shape, infra = c08RunSession(c, lo) }); val != nil {
						clause = fmt.Sprintf("panic: %v at %s", val, evidence.PanicSite(stack))
					}
					if infra != nil {
						sh.InfraError("session-delivery-%s: %v", terminal, infra)
						p.Exhaustive = false
						stop = true
						return false
					}
					p.Class(ri, shape)
					if p.Evaluations%97 == 5 {
						p.Sample(map[string]any{"rules": listNames[ri], "seq": c.Seq, "written": shape})
					}
					if clause != "" {
						id := clause
						if i := strings.IndexByte(id, ':'); i >= 0 {
							id = id[:i]
						}
						if reported[id]++; reported[id] <= 2 {
							sh.Violate(p.Name, c08SessSig(c, clause), clause, c)
						}
						p.Count("failing sessions: "+id, 1)
					}
					return true
				})
				if stop {
					break cases
				}
			}
		}
		if lo != nil {
			lo.Close()
		}
	}
}

func c08SessReplay(part string, raw json.RawMessage) (bool, bool, string) {
	if !strings.HasPrefix(part, "session-delivery-") {
		return false, false, ""
	}
	var c c08SessCase
	if err := json.Unmarshal(raw, &c); err != nil {
		return true, false, err.Error()
	}
	if c.Rules < 0 || c.Rules >= len(c08SessRuleLists()) || (c.Terminal != "loopback" && c.Terminal != "inplace") {
		return true, false, "case out of range"
	}
	for _, d := range c.Seq {
		if d < 0 || d >= len(c08SessIPs)*c08SessNPorts {
			return true, false, "case out of range"
		}
	}
	var lo *c08Loopback
	if c.Terminal == "loopback" {
		var err error
		if lo, err = c08OpenLoopback(); err != nil {
			return true, false, "loopback destinations not available: " + err.Error()
		}
		defer lo.Close()
	}
	clause, _, infra := c08RunSession(&c, lo)
	if infra != nil {
		return true, false, infra.Error()
	}
	if clause != "" {
		return true, true, clause
	}
	return true, false, "every datagram arrived where it was addressed and no rejected destination received one"
}
