package server

// C08, fragmented datagrams: each fragment of a UDP message carries its own address field, and
// the reassembler hands back the LAST-arriving fragment's header. Whatever address ends up being
// used, a destination the policy rejects must never receive a datagram, and the policy must be
// asked about the destination that is actually written to. (Added after the independently
// seeded change C08-1 - policy evaluated on the leading fragment only - was missed by the
// unfragmented alphabet.)

import (
	"encoding/json"
	"fmt"
	"testing"

	"github.com/apernet/hysteria/core/v2/internal/protocol"
	"verif.local/engine/evidence"
)

type c08FragCase struct {
	Policy  int  `json:"policy"` // bit i: destination i allowed
	Opener  int  `json:"opener"` // -1: fresh session, else a complete datagram to this destination first
	A0      int  `json:"addr_frag0"`
	A1      int  `json:"addr_frag1"`
	Reverse bool `json:"reverse"` // fragment 1 arrives first
	Count   int  `json:"count"`   // 2 or 3 fragments (the middle one repeats A0)
}

func c08FragRun(c *c08FragCase) string {
	allow := func(a string) bool {
		for i, d := range c08Dests[:4] {
			if d == a {
				return c.Policy&(1<<i) != 0
			}
		}
		return false
	}
	w := c08NewWorld(allow, nil, c08Dests[:4])
	defer w.teardown()
	clause := ""
	feed := func(m *protocol.UDPMessage) {
		if v, st := evidence.Catch(func() { w.m.feed(m) }); v != nil {
			clause = fmt.Sprintf("panic: %v at %s", v, evidence.PanicSite(st))
		}
	}
	if c.Opener >= 0 {
		feed(&protocol.UDPMessage{SessionID: c08SID, FragCount: 1, Addr: c08Dests[c.Opener], Data: []byte("open")})
	}
	var frags []*protocol.UDPMessage
	for i := 0; i < c.Count; i++ {
		a := c.A0
		if i == c.Count-1 {
			a = c.A1
		}
		frags = append(frags, &protocol.UDPMessage{SessionID: c08SID, PacketID: 7, FragID: uint8(i), FragCount: uint8(c.Count), Addr: c08Dests[a], Data: []byte{byte('a' + i), byte('A' + i)}})
	}
	if c.Reverse {
		for i, j := 0, len(frags)-1; i < j; i, j = i+1, j-1 {
			frags[i], frags[j] = frags[j], frags[i]
		}
	}
	for _, f := range frags {
		feed(f)
	}
	if clause != "" {
		return clause
	}
	for si, conn := range w.io.conns {
		conn.mu.Lock()
		ws := append([]c08Write(nil), conn.writes...)
		conn.mu.Unlock()
		for _, wr := range ws {
			if !allow(wr.Addr) {
				return fmt.Sprintf("denied-destination-received-datagram: WriteTo(%q) on socket #%d although the policy rejects it (fragments addressed %q / %q)", wr.Addr, si, c08Dests[c.A0], c08Dests[c.A1])
			}
		}
	}
	for _, a := range w.io.udpCalls {
		_ = a
	}
	return ""
}

func c08FragEnumerate(sh *evidence.Shard) {
	env := sh.Env()
	p := sh.Part("fragments-with-different-addresses", "enum")
	p.Alphabet = map[string]any{"destinations": c08Dests[:4], "policy": "every predicate on them (16)", "opener": "fresh session or a complete datagram to each destination first", "fragment addresses": "every ordered pair", "arrival": []string{"in order", "reversed"}, "fragments": []int{2, 3}}
	var item int64
	for pol := 0; pol < 16; pol++ {
		for op := -1; op < 4; op++ {
			for a0 := 0; a0 < 4; a0++ {
				for a1 := 0; a1 < 4; a1++ {
					for _, rev := range []bool{false, true} {
						for _, cnt := range []int{2, 3} {
							item++
							if !env.Mine(item) {
								continue
							}
							c := c08FragCase{Policy: pol, Opener: op, A0: a0, A1: a1, Reverse: rev, Count: cnt}
							p.Evaluations++
							clause := c08FragRun(&c)
							p.Class(pol, op >= 0, a0 == a1, rev, cnt, clause == "")
							if p.Evaluations%211 == 3 {
								p.Sample(c)
							}
							if clause != "" {
								cc := c
								sh.Violate(p.Name, fmt.Sprintf("%s/%.40s/policy=%04b,opener=%d,frag0=d%d,last=d%d,reverse=%v,n=%d", p.Name, clause, pol, op, a0, a1, rev, cnt), clause, &cc)
								if sh.NViolations() >= 4 {
									return
								}
							}
						}
					}
				}
			}
		}
	}
}

func TestVerifC08Frag(t *testing.T) {
	evidence.Main(t, "C08", evidence.Seq{Run: c08FragEnumerate, Replay: func(part string, raw json.RawMessage) (bool, bool, string) {
		if part != "fragments-with-different-addresses" {
			return false, false, ""
		}
		var c c08FragCase
		if err := json.Unmarshal(raw, &c); err != nil {
			return true, false, err.Error()
		}
		clause := c08FragRun(&c)
		return true, clause != "", clause
	}})
}
