package server

// C02 under concurrency: several requests in flight on ONE connection (auth attempts being
// evaluated while other requests arrive). Reuses the C01 harness body (real server over the fake
// QUIC layer, every schedule within the deviation bound); here the oracle of interest is: every
// response that is not an accepted authentication request is the masquerade response - no 233,
// no Hysteria-* header. Added after the independently seeded change C02-2 (a second auth request
// arriving while the first is still inside the authenticator got 233 although both were
// rejected) was missed by the sequential enumeration.

import (
	"strings"
	"testing"

	"verif.local/engine/evidence"
	"verif.local/engine/explore"
)

func TestVerifC02Conc(t *testing.T) {
	env := evidence.GetEnv("C02")
	var scs []*explore.Scenario
	for _, sc := range c01Scenarios(env.Thorough()) {
		if !strings.HasPrefix(sc.Name, "1conn:") || strings.Contains(sc.Name, "Raw401") || strings.Contains(sc.Name, "Dgram") || strings.Contains(sc.Name, "noudp") {
			continue
		}
		if !strings.Contains(sc.Name, "AuthBad") && !strings.Contains(sc.Name, "NonAuth") {
			continue
		}
		scs = append(scs, sc)
	}
	explore.Main(t, "C02", scs)
}
