package server

// C02 harness: unauthenticated peers see only the masquerade web server. Sequential: every
// request of the product runs in its own execution (default schedule) against the real server
// over the fake QUIC layer, on a connection with a given history; the response the real handler
// wrote is compared byte-for-byte with what the configured masquerade handler alone produces.

import (
	"encoding/json"
	"fmt"
	"net/http"
	"net/http/httptest"
	"net/url"
	"sort"
	"strings"
	"testing"
	"time"

	"github.com/apernet/hysteria/core/v2/internal/protocol"
	"verif.local/engine/evidence"
	vh3 "verif.local/engine/vquic/http3"
	"verif.local/engine/vsched"
)

type c02Case struct {
	Method  string `json:"method"`
	Host    string `json:"host"`
	Path    string `json:"path"`
	Auth    string `json:"auth"`    // "-" absent
	RX      string `json:"rx"`      // "-" absent
	Noise   string `json:"noise"`   // "", "padding", "udp"
	Masq    int    `json:"masq"`    // 0 default 404, 1 custom echo handler, 2 bare-Write handler, 3 streaming handler, 4 handler that aborts its first call
	History int    `json:"history"` // 0 fresh, 1 after rejected auth, 2 after accepted auth, 3 after two masq requests, 4/5 another connection authenticated (closed / still open), 6 long-busy connection, 7/8 another connection authenticated with a credential since revoked (closed / still open), 9 after a rejected auth whose masquerade response the handler aborted
}

var (
	c02Methods = []string{"GET", "POST", "PUT", "HEAD", "OPTIONS", "CONNECT", "post"}
	c02Hosts   = []string{"hysteria", "Hysteria", "hysteria.", "hysteria:443", "example.com", ""}
	c02Paths   = []string{"/auth", "/auth/", "/Auth", "/authx", "//auth", "/", "/auth?x=1"}
	// Hysteria-Auth SPELLING: besides the accepted credential and clearly different ones, values that
	// differ from the accepted credential only by a leading/trailing SP or HTAB. They are legal HTTP/3
	// field values, delivered to the handler as sent, and they are DIFFERENT strings: the authenticator
	// (exact compare) rejects them, so the peer is owed the masquerade response, and the authenticator
	// must have been asked about exactly the string the request carried (see c02BlankSpelling and the
	// "authenticator was asked" clause in c02Run). Likewise a Hysteria-CC-RX value with a blank. (Added
	// after the independently seeded change C02-12: the server stripped optional whitespace from the
	// Hysteria-Auth / Hysteria-CC-RX values before use and handed the authenticator the normalised
	// credential, so "good " was answered with 233.)
	c02Auths     = []string{"-", "", "good", "bad", "good ", "\tgood"}
	c02RXs       = []string{"-", "0", "100000", "abc", "100000 "}
	c02Noises    = []string{"", "padding", "udp", "cookie5000", "cookie60000"}
	c02Histories = []string{"fresh", "after-rejected-auth", "after-accepted-auth", "after-two-masq-requests",
		"after-another-connection-authenticated-and-closed", "while-another-connection-is-authenticated",
		"on-a-connection-busy-for-longer-than-any-timeout",
		// histories 7 and 8: the authenticator's verdict is not a pure function of the auth string — the
		// credential "good" is a one-time / since-revoked one: another connection was accepted with it,
		// and the authenticator REJECTS it from then on; this connection presenting the same credential
		// is an unauthenticated peer and must see the masquerade response only. (Added after the
		// independently seeded change C02-9: the server cached accepted auth strings for 60 s and answered
		// 233 from the cache without consulting the authenticator.)
		"after-another-connection-was-accepted-with-a-credential-since-revoked-and-closed",
		"while-another-connection-accepted-with-a-credential-since-revoked-is-open",
		// history 9 (masquerade handler 4 only): an earlier POST hysteria/auth with rejected credentials
		// on this connection was handed to the masquerade handler, which ABORTED it (see c02Abort); the
		// HTTP/3 layer resets that one request stream and keeps the connection, so the requests that
		// follow on it are still owed the masquerade response. (Added after the independently seeded
		// change C02-10: the per-connection auth mutex was released by explicit Unlock calls instead of
		// a defer, so a handler abort left it locked and every later auth-shaped request hung.)
		"after-a-rejected-auth-whose-masquerade-response-the-handler-aborted"}
	c02Masqs = []string{"default 404", "custom echo handler", "bare-Write handler (status and Content-Type left to the server)",
		"streaming handler (needs http.Flusher)", "handler that aborts (http.ErrAbortHandler) its first call and echoes afterwards"}
)

// c02BlankSpelling: a header value that has a leading or trailing SP/HTAB (the spelling dimension).
func c02BlankSpelling(v string) bool {
	return v != strings.Trim(v, " \t")
}

// c02HistAborted: the history in which the connection's first request was an aborted masquerade response.
const c02HistAborted = 9

// c02Revoked: histories in which the credential "good" was accepted once (on another connection)
// and is rejected by the authenticator ever after.
func c02Revoked(history int) bool { return history == 7 || history == 8 }

// custom masquerade handler: echoes the request into status, headers (one of its own choosing,
// one that looks like a Hysteria header) and body, so any deviation is visible.
type c02Echo struct{}

func (c02Echo) ServeHTTP(w http.ResponseWriter, r *http.Request) {
	w.Header().Set("X-Masq", r.Method+"|"+r.Host+"|"+r.URL.Path)
	w.Header().Set("Server", "masq/1.0")
	if r.Method == "OPTIONS" {
		w.Header().Set("Allow", "GET, POST")
		w.WriteHeader(http.StatusNoContent)
		return
	}
	st := 200 + len(r.URL.Path)%7
	w.WriteHeader(st)
	fmt.Fprintf(w, "masq %s %s %s q=%s auth=%q", r.Method, r.Host, r.URL.Path, r.URL.RawQuery, r.Header.Get("Hysteria-Auth"))
}

// c02Plain: a handler that leaves status and Content-Type to the server (a bare Write), as a
// file or string masquerade does; c02Stream: a handler that streams (needs http.Flusher and says so
// with a 500 when the writer cannot flush). What a peer sees from them depends on what the
// ResponseWriter the handler is GIVEN can do. (Added after the independently seeded change C02-6:
// the handler was called with a wrapper that hid Flusher and pre-empted Content-Type sniffing.)
type c02Plain struct{}

func (c02Plain) ServeHTTP(w http.ResponseWriter, r *http.Request) {
	w.Header().Set("X-Masq", "plain")
	_, _ = w.Write([]byte("<html><head><title>" + r.URL.Path + "</title></head><body>" + strings.Repeat("masquerade ", 400) + "</body></html>"))
}

type c02Stream struct{}

func (c02Stream) ServeHTTP(w http.ResponseWriter, r *http.Request) {
	f, ok := w.(http.Flusher)
	if !ok {
		http.Error(w, "streaming unsupported", http.StatusInternalServerError)
		return
	}
	w.Header().Set("Content-Type", "text/event-stream")
	_, _ = w.Write([]byte("data: one\n\n"))
	f.Flush()
	_, _ = w.Write([]byte("data: " + r.Method + "\n\n"))
	f.Flush()
}

// c02Abort: a handler that ABORTS its first call the way net/http handlers do - by panicking with
// http.ErrAbortHandler, as httputil.ReverseProxy does when its upstream dies mid-response - and
// answers like c02Echo from then on. The HTTP/3 layer recovers the panic per request stream (the
// peer sees that stream reset, nothing else), so what the handler alone does on its n-th call is
// still exactly what the peer must see. (Added after the independently seeded change C02-10: a
// handler abort on a rejected auth request left the connection's auth mutex locked.)
type c02Abort struct{ calls int }

func (a *c02Abort) ServeHTTP(w http.ResponseWriter, r *http.Request) {
	a.calls++
	if a.calls == 1 {
		w.Header().Set("X-Masq", "upstream gone")
		panic(http.ErrAbortHandler)
	}
	c02Echo{}.ServeHTTP(w, r)
}

func c02MasqHandler(kind int) http.Handler {
	switch kind {
	case 1:
		return c02Echo{}
	case 2:
		return c02Plain{}
	case 3:
		return c02Stream{}
	case 4:
		return &c02Abort{}
	}
	return nil
}

func c02Header(c *c02Case) http.Header {
	h := http.Header{}
	if c.Auth != "-" {
		h.Set(protocol.RequestHeaderAuth, c.Auth)
	}
	if c.RX != "-" {
		h.Set(protocol.CommonHeaderCCRX, c.RX)
	}
	switch c.Noise {
	case "padding":
		h.Set(protocol.CommonHeaderPadding, "xxxxxxxx")
	case "udp":
		h.Set(protocol.ResponseHeaderUDPEnabled, "true")
	case "cookie5000", "cookie60000":
		// "every header set": a large but ordinary header (the HTTP/3 layer accepts 1 MiB by default;
		// added after the independently seeded change C02-7: a 4096-byte MaxHeaderBytes made the
		// HTTP/3 layer answer 431 itself)
		n := 5000
		if c.Noise == "cookie60000" {
			n = 60000
		}
		h.Set("Cookie", "session="+strings.Repeat("c", n))
	}
	return h
}

func c02Masq(c *c02Case) http.Handler { return c02MasqHandler(c.Masq) }

// c02Expected runs the configured masquerade handler alone on an identical request; prior is the
// number of calls the server's instance of a stateful handler (c02Abort) has seen before it.
// aborted: the handler alone aborts this request (panics with http.ErrAbortHandler).
func c02Expected(c *c02Case, remote string, prior int) (want *vh3.Response, aborted bool) {
	u, _ := url.ParseRequestURI(c.Path)
	u.Host = c.Host
	req := &http.Request{Method: c.Method, URL: u, Host: c.Host}
	req.Header = c02Header(c)
	req.RemoteAddr = remote
	req.Proto, req.ProtoMajor, req.ProtoMinor = "HTTP/3.0", 3, 0
	req.Body = http.NoBody
	rec := httptest.NewRecorder()
	var h http.Handler = http.HandlerFunc(http.NotFound)
	if mh := c02MasqHandler(c.Masq); mh != nil {
		h = mh
	}
	if ab, ok := h.(*c02Abort); ok {
		ab.calls = prior
	}
	func() {
		defer func() {
			if p := recover(); p != nil {
				if p != http.ErrAbortHandler {
					panic(p)
				}
				aborted = true
			}
		}()
		h.ServeHTTP(rec, req)
	}()
	return &vh3.Response{Status: rec.Code, Header: rec.Header(), Body: rec.Body.Bytes()}, aborted
}

func c02HeaderString(h http.Header) string {
	var ks []string
	for k := range h {
		ks = append(ks, k)
	}
	sort.Strings(ks)
	var sb strings.Builder
	for _, k := range ks {
		fmt.Fprintf(&sb, "%s=%q;", k, h[k])
	}
	return sb.String()
}

// reference: is this an accepted authentication request?
func c02Accepted(c *c02Case) bool {
	// the path component as HTTP defines it: query stripped, percent-encoding decoded
	path := c.Path
	if u, err := url.ParseRequestURI(c.Path); err == nil {
		path = u.Path
	} else if i := strings.IndexByte(path, '?'); i >= 0 {
		path = path[:i]
	}
	if c.Method != "POST" || c.Host != "hysteria" || path != "/auth" {
		return false
	}
	if c02Revoked(c.History) {
		return false // the only accepted credential was used up by the other connection
	}
	return c.History == 2 || c.Auth == "good"
}

func c02Run(c *c02Case) (clause string) {
	o := vsched.RunDefault(vsched.Options{}, func(e *vsched.Exec) {
		masq := c02Masq(c)
		abort, _ := masq.(*c02Abort)
		r := newRig(e, rigOpts{Masq: masq})
		if r.srv == nil {
			return
		}
		// histories 4 and 5: the state of OTHER connections of the same server (whatever the
		// server keeps or recycles per connection must not carry over to a new peer)
		// histories 7 and 8: the same, but the credential the other connection was accepted with is
		// one the authenticator accepts once and rejects afterwards (rig.OnceCred)
		var other *rigClient
		if c02Revoked(c.History) {
			r.OnceCred = r.GoodCred
		}
		if c.History == 4 || c.History == 5 || c02Revoked(c.History) {
			other = r.dial("Z")
			if resp, err := other.auth("good", 0); err != nil || resp.Status != protocol.StatusAuthOK {
				e.Fail("history: accepted auth on the other connection got %v %v", resp, err)
			}
			if c.History == 4 || c.History == 7 {
				other.close()
				other = nil
				e.WaitIdle()
			}
		}
		cl := r.dial("A")
		switch c.History {
		case 1:
			if resp, err := cl.auth("bad", 0); err != nil || resp.Status == protocol.StatusAuthOK {
				e.Fail("history: rejected auth got %v %v", resp, err)
			}
		case 2:
			if resp, err := cl.auth("good", 0); err != nil || resp.Status != protocol.StatusAuthOK {
				e.Fail("history: accepted auth got %v %v", resp, err)
			}
		case 3:
			_, _ = cl.request("GET", "example.com", "/", nil)
			_, _ = cl.request("POST", "hysteria", "/other", nil)
		case 6:
			// a connection that is never idle for long but grows old: a request every 20 s (virtual
			// time) for two minutes — a browser reusing its connection. No timer of the server may turn
			// the unauthenticated peer away with anything but the masquerade response.
			for i := 0; i < 6; i++ {
				_, _ = cl.request("GET", "example.com", "/", nil)
				e.Sleep(int64(20 * time.Second))
			}
		case c02HistAborted:
			// the rejected auth request is the aborting handler's first call: the peer sees that request
			// stream reset (no response), the connection stays
			if abort == nil {
				e.Fail("history: %s needs the aborting masquerade handler", c02Histories[c.History])
			}
			if resp, err := cl.auth("bad", 0); err == nil {
				e.Fail("history: rejected auth that the masquerade handler aborts got a response %v", resp)
			}
		}
		prior := 0
		if abort != nil {
			prior = abort.calls
		}
		mark := len(r.Events)
		resp, err := cl.request(c.Method, c.Host, c.Path, c02Header(c))
		// "credentials the authenticator rejects": the verdict that counts is the one on the credential
		// the request CARRIED - whenever the server consults the authenticator for this request, it asks
		// about exactly the Hysteria-Auth value sent, not a normalised spelling of it. (Added after the
		// independently seeded change C02-12: optional whitespace was stripped from the value first.)
		sent := c.Auth
		if sent == "-" {
			sent = ""
		}
		for _, ev := range r.Events[mark:] {
			if ev.Kind == "auth" && ev.A != sent {
				e.Fail("authenticator was asked about %q, the request carried Hysteria-Auth %q", ev.A, sent)
			}
		}
		if c02Accepted(c) {
			if err != nil {
				e.Fail("request failed: %v", err)
				return
			}
			if resp.Status != protocol.StatusAuthOK {
				e.Fail("accepted authentication request answered with status %d", resp.Status)
			}
		} else if want, aborted := c02Expected(c, cl.Addr(), prior); aborted {
			// the masquerade handler alone aborts this request: the peer must see exactly that - its
			// request stream reset by the HTTP/3 layer, no response (let alone a 233)
			if err == nil {
				e.Fail("status %d for a request the masquerade handler alone aborts", resp.Status)
			}
		} else {
			if err != nil {
				e.Fail("request failed: %v", err)
				return
			}
			if resp.Status == protocol.StatusAuthOK {
				e.Fail("status 233 for a request that is not an accepted authentication request")
			}
			if resp.Status != want.Status {
				e.Fail("status %d, masquerade handler alone gives %d", resp.Status, want.Status)
			}
			if c02HeaderString(resp.Header) != c02HeaderString(want.Header) {
				e.Fail("headers differ from the masquerade handler's: got %s want %s", c02HeaderString(resp.Header), c02HeaderString(want.Header))
			}
			if string(resp.Body) != string(want.Body) {
				e.Fail("body differs from the masquerade handler's: got %q want %q", resp.Body, want.Body)
			}
			for k := range resp.Header {
				if strings.HasPrefix(strings.ToLower(k), "hysteria-") {
					if _, ok := want.Header[k]; !ok {
						e.Fail("Hysteria-specific header %s in a masquerade response", k)
					}
				}
			}
		}
		// a proxy stream or datagram without authentication draws no Hysteria reply
		if c.History != 2 && !c02Accepted(c) {
			str, err := cl.rawTCP("t:80")
			if err == nil {
				e.WaitIdle()
				if str.ReadTotal > 0 || len(str.Unread()) > 0 {
					e.Fail("unauthenticated 0x401 stream received %d bytes", len(str.Unread()))
				}
			}
			_ = cl.dgram(1, "u:53", []byte("x"))
			e.WaitIdle()
			if cl.Conn.Peer().RecvDatagramCalls != 0 || cl.Conn.PendingDatagrams() != 0 {
				e.Fail("unauthenticated datagram was consumed or answered")
			}
			for _, ev := range r.Events {
				if ev.Kind == "tcp" || ev.Kind == "udp" || ev.Kind == "tcpreq" || ev.Kind == "udpreq" {
					e.Fail("outbound activity without authentication: %v", ev)
				}
			}
		}
		cl.close()
		if other != nil {
			other.close()
		}
		r.shutdown(true)
	})
	if o.Kind != "ok" {
		return o.Kind + ": " + o.Detail
	}
	if len(o.Leaked) > 0 {
		return "leaked threads: " + strings.Join(o.Leaked, "|")
	}
	return ""
}

func c02NearMiss(c *c02Case) bool {
	// near-misses of POST hysteria/auth: at most one of method/host/path deviates
	d := 0
	if c.Method != "POST" {
		d++
	}
	if c.Host != "hysteria" {
		d++
	}
	if c.Path != "/auth" && c.Path != "/auth?x=1" {
		d++
	}
	return d <= 1
}

func c02Enumerate(sh *evidence.Shard) {
	env := sh.Env()
	if env.Thorough() {
		c02Methods = append(c02Methods, "PATCH", "DELETE", "TRACE", "Post", "POSTX")
		c02Hosts = append(c02Hosts, "HYSTERIA", "hysteria:80", "hysteria..", "xhysteria", "hysteria.example.com", "[::1]", "hysteria@evil")
		c02Paths = append(c02Paths, "/%61uth", "/auth%2F", "/auth/../auth", "/auth#frag", "/auth;x=1", "/AUTH", "/auth?", "/a", "*")
		c02Auths = append(c02Auths, "GOOD", " good", "good\t", " good ", "goodx", "bad ")
		c02RXs = append(c02RXs, "18446744073709551616", "-1", "\t100000", " 0")
	}
	p := sh.Part("requests", "enum")
	p.Alphabet = map[string]any{"method": c02Methods, "host": c02Hosts, "path": c02Paths, "Hysteria-Auth": c02Auths,
		"Hysteria-CC-RX": c02RXs, "noise": c02Noises, "masquerade": c02Masqs, "history": c02Histories}
	var item int64
	for hi := range c02Histories {
		for mq := range c02Masqs {
			for _, m := range c02Methods {
				for _, h := range c02Hosts {
					for _, pa := range c02Paths {
						for _, au := range c02Auths {
							for _, rx := range c02RXs {
								for _, no := range c02Noises {
									c := c02Case{Method: m, Host: h, Path: pa, Auth: au, RX: rx, Noise: no, Masq: mq, History: hi}
									if _, err := url.ParseRequestURI(pa); err != nil {
										continue // not a request an HTTP/3 server hands to its handler
									}
									if (mq == 4 && hi != 0 && hi != c02HistAborted) || (mq != 4 && hi == c02HistAborted) {
										continue // aborting handler: its first call is this request (fresh) or the rejected auth of history 9
									}
									if mq >= 2 && (rx != "-" || no != "" || (hi > 1 && hi != c02HistAborted && !env.Thorough())) {
										continue // plain/streaming/aborting handlers: requests without CC-RX/noise variation
									}
									if !env.Thorough() {
										// quick: full product on a fresh connection for auth/rx variation only on
										// near-misses; history variants for the near-miss requests
										if hi != 0 && !c02NearMiss(&c) {
											continue
										}
										if !c02NearMiss(&c) && (rx != "-" || no != "") {
											continue
										}
										if hi != 0 && (rx == "abc" || no == "udp") {
											continue
										}
										// blank spellings (C02-12): Hysteria-Auth ones on the near-miss requests of
										// every history; Hysteria-CC-RX ones on a fresh connection, without noise
										if c02BlankSpelling(au) && !c02NearMiss(&c) {
											continue
										}
										if c02BlankSpelling(rx) && (hi != 0 || no != "") {
											continue
										}
									}
									item++
									if !env.Mine(item) {
										continue
									}
									if item&255 == 0 && env.Expired() {
										p.Exhaustive = false
										p.Note("deadline reached after %d cases of this shard", p.Evaluations)
										return
									}
									p.Evaluations++
									clause := c02Run(&c)
									p.Class(c.Method, c.Host, c.Path, c.Auth, c.Masq, c.History, clause == "")
									if p.Evaluations%4099 == 7 {
										p.Sample(c)
									}
									if clause != "" {
										cc := c
										sig := fmt.Sprintf("requests/%s/method=%s,host=%q,path=%s,auth=%s,masq=%d,history=%s", strings.SplitN(clause, ";", 2)[0], c.Method, c.Host, c.Path, c.Auth, c.Masq, c02Histories[c.History])
										sh.Violate(p.Name, sig, clause, &cc)
										if sh.NViolations() >= 6 {
											return
										}
									}
								}
							}
						}
					}
				}
			}
		}
	}
}

func TestVerifC02(t *testing.T) {
	evidence.Main(t, "C02", evidence.Seq{
		Run: c02Enumerate,
		Replay: func(part string, raw json.RawMessage) (bool, bool, string) {
			var c c02Case
			if err := json.Unmarshal(raw, &c); err != nil {
				return true, false, err.Error()
			}
			clause := c02Run(&c)
			return true, clause != "", clause
		},
	})
}
