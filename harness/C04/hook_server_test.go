package server

// C04 at the server's TCP call site with a neighbouring option switched on: a RequestHook
// (server-side sniffing). The hook reads the stream right behind ReadTCPRequest, so "reading
// consumes exactly the frame, so the first payload byte that follows is never swallowed" is
// observable there twice: in what the hook is handed, and in the order the target receives the
// client's byte stream (the hook's put-back bytes first, then the rest). The dimension that makes
// it bite is the ARRIVAL of the payload relative to the request: how many payload bytes are
// already in the server's receive buffer when the request is parsed (none = the client waited for
// the response, as every upstream test does; some/all = a fast-open client or any client that
// writes right behind the request), or the request itself arriving in two pieces with the whole
// payload behind the second. Runs over the server rig (real server, fake QUIC layer) on the
// default schedule; arrivals are separated by e.WaitIdle().
// Added after the independently seeded change C04-8 (the request was parsed through a 1 KiB
// bufio.Reader, so payload that arrived with the request was hidden from the hook and reached the
// target after the hook's put-back bytes).

import (
	"bytes"
	"encoding/json"
	"fmt"
	"io"

	"verif.local/engine/evidence"
	"verif.local/engine/vsched"
)

const (
	c04HookNone     = -1 // no RequestHook configured
	c04HookDeclines = 0  // a RequestHook is configured, its Check declines the request
	// > 0: the hook consumes that many bytes of the stream and puts them back for the target

	c04ArriveSplitRequest = -1 // first arrival ends 3 bytes before the end of the request, everything else is the second
	// >= 0: that many payload bytes arrive together with the request, the rest after the server went idle
)

var (
	c04HookPayload = []byte("first bytes of the payload")
	c04HookSecond  = []byte("AGAIN, a second chunk")
)

type c04HookCase struct {
	FT     int `json:"frame_type_width"`
	Pad    int `json:"pad"`
	Hook   int `json:"hook_consumes"`
	Arrive int `json:"payload_bytes_arriving_with_the_request"`
}

// c04Hook is the smallest hook of the sniffer's kind: consume the first n bytes, hand them back.
type c04Hook struct {
	n     int
	calls int
	addrs []string
	seen  []byte
	err   error
}

func (h *c04Hook) Check(isUDP bool, reqAddr string) bool { return !isUDP && h.n > 0 }
func (h *c04Hook) TCP(stream HyStream, reqAddr *string) ([]byte, error) {
	h.calls++
	h.addrs = append(h.addrs, *reqAddr)
	b := make([]byte, h.n)
	n, err := io.ReadFull(stream, b)
	h.seen, h.err = append([]byte(nil), b[:n]...), err
	if err != nil {
		return nil, err
	}
	return b, nil
}
func (h *c04Hook) UDP(data []byte, reqAddr *string) error { return nil }

func c04HookRun(c *c04HookCase) (clause string) {
	const addr = "target.example:80"
	o := vsched.RunDefault(vsched.Options{}, func(e *vsched.Exec) {
		hook := &c04Hook{n: c.Hook}
		opts := rigOpts{}
		if c.Hook != c04HookNone {
			opts.Mutate = func(cfg *Config) { cfg.RequestHook = hook }
		}
		r := newRig(e, opts)
		if r.srv == nil {
			return
		}
		cl := r.dial("A")
		if resp, err := cl.auth("good", 0); err != nil || resp.Status != 233 {
			e.Fail("auth: %v %v", resp, err)
			return
		}
		str, err := cl.Conn.OpenStream()
		if err != nil {
			e.Fail("OpenStream: %v", err)
			return
		}
		var w bytes.Buffer
		w.Write(c04FTVarint(0x401, c.FT))
		w.Write(c04FTVarint(uint64(len(addr)), 1))
		w.WriteString(addr)
		if c.Pad < 64 {
			w.Write(c04FTVarint(uint64(c.Pad), 1))
		} else {
			w.Write(c04FTVarint(uint64(c.Pad), 2))
		}
		w.Write(bytes.Repeat([]byte{0x5a}, c.Pad))
		reqLen := w.Len()
		w.Write(c04HookPayload)
		first := reqLen + c.Arrive
		if c.Arrive == c04ArriveSplitRequest {
			first = reqLen - 3
		}
		all := w.Bytes()
		for _, chunk := range [][]byte{all[:first], all[first:], c04HookSecond} {
			if len(chunk) > 0 {
				if _, err := str.Write(chunk); err != nil {
					e.Fail("write: %v", err)
					return
				}
			}
			e.WaitIdle()
		}
		sent := append(append([]byte(nil), c04HookPayload...), c04HookSecond...)
		where := fmt.Sprintf("frame type in %d bytes, %d bytes of padding, %s, %s", c.FT, c.Pad, c04HookText(c.Hook), c04ArriveText(c.Arrive))
		var dialled []string
		for _, ev := range r.Events {
			if ev.Kind == "tcp" {
				dialled = append(dialled, ev.A)
			}
		}
		var got []byte
		if re := r.RelayEnds[addr]; re != nil {
			got = re.Written
		}
		switch {
		case c.Hook <= 0 && hook.calls != 0:
			e.Fail("RequestHook.TCP called %d times for a request its Check declined (%s)", hook.calls, where)
		case c.Hook > 0 && hook.calls != 1:
			e.Fail("RequestHook.TCP called %d times for one hooked TCPRequest (%s)", hook.calls, where)
		case c.Hook > 0 && hook.addrs[0] != addr:
			e.Fail("RequestHook.TCP was given the address %q, the request is for %q (%s)", hook.addrs[0], addr, where)
		case c.Hook > 0 && (hook.err != nil || !bytes.Equal(hook.seen, sent[:c.Hook])):
			e.Fail("request hook not handed the first bytes behind the TCPRequest: it read %q (err %v) right after the request was parsed, the client wrote %q there - payload bytes were swallowed by the request reader (%s)", hook.seen, hook.err, sent[:c.Hook], where)
		case len(dialled) != 1 || dialled[0] != addr:
			e.Fail("a TCPRequest for %q made the server dial %q (%s)", addr, dialled, where)
		case !bytes.Equal(got, sent):
			e.Fail("the client wrote %q behind the request, the target received %q (%s)", sent, got, where)
		}
		_ = str.Close()
		cl.close()
		r.shutdown(true)
	})
	if o.Kind != "ok" {
		return o.Kind + ": " + o.Detail
	}
	return ""
}

func c04HookText(h int) string {
	switch {
	case h == c04HookNone:
		return "no request hook"
	case h == c04HookDeclines:
		return "request hook declines"
	}
	return fmt.Sprintf("request hook consumes and puts back %d bytes", h)
}

func c04ArriveText(a int) string {
	if a == c04ArriveSplitRequest {
		return "request arrives in two pieces, payload with the second"
	}
	return fmt.Sprintf("%d payload bytes arrive together with the request", a)
}

const c04HookPart = "payload-arriving-with-the-request-and-a-request-hook"

func c04HookEnumerate(sh *evidence.Shard) {
	env := sh.Env()
	p := sh.Part(c04HookPart, "enum")
	fts, pads := []int{2, 4, 8}, []int{0, 5, 63, 64}
	hooks := []int{c04HookNone, c04HookDeclines, 1, 5, len(c04HookPayload)}
	arrivals := []int{c04ArriveSplitRequest, 0, 1, 5, len(c04HookPayload)}
	p.Alphabet = map[string]any{"frame_type_width": fts, "pad": pads,
		"request_hook (-1 none, 0 declines, n consumes and puts back n bytes)":                                  hooks,
		"payload_bytes_arriving_with_the_request (-1 request split 3 bytes before its end, rest after an idle)": arrivals,
		"payload": string(c04HookPayload), "second_chunk_after_idle": string(c04HookSecond)}
	var item int64
	for _, ft := range fts {
		for _, pad := range pads {
			for _, hk := range hooks {
				for _, ar := range arrivals {
					item++
					if !env.Mine(item) {
						continue
					}
					c := c04HookCase{FT: ft, Pad: pad, Hook: hk, Arrive: ar}
					p.Evaluations++
					clause := c04HookRun(&c)
					p.Class(ft, pad, hk, ar, clause == "")
					if p.Evaluations%13 == 1 {
						p.Sample(c)
					}
					if clause != "" {
						cc := c
						short := clause
						if len(short) > 68 {
							short = short[:68]
						}
						sh.Violate(p.Name, fmt.Sprintf("%s/%s/ft=%d,pad=%d,hook=%d,arrive=%d", p.Name, short, ft, pad, hk, ar), clause, &cc)
						if sh.NViolations() >= 4 {
							p.Exhaustive = false
							return
						}
					}
				}
			}
		}
	}
}

func c04HookReplay(raw json.RawMessage) (bool, bool, string) {
	var c c04HookCase
	if err := json.Unmarshal(raw, &c); err != nil {
		return true, false, err.Error()
	}
	clause := c04HookRun(&c)
	return true, clause != "", clause
}
