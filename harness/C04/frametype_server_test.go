package server

// C04 at the server's dispatch site: the HTTP/3 layer only PEEKS the stream's frame type (0x401),
// the server consumes it and then parses the TCPRequest. PROTOCOL.md lets a peer encode every
// varint in any width that fits, the frame type included. For every width of the frame type
// (2, 4, 8 bytes) x every width of the address-length and padding-length fields, with payload
// written right behind the request: the outbound is dialled for exactly the requested address and
// the payload reaches the target intact. Runs over the server rig (real server, fake QUIC layer)
// on the default schedule. Added after the independently seeded change C04-5 (the frame type
// skipped as a fixed two bytes).

import (
	"bytes"
	"encoding/json"
	"fmt"
	"testing"

	"verif.local/engine/evidence"
	"verif.local/engine/vsched"
)

type c04FTCase struct {
	FT   int `json:"frame_type_width"`
	ALen int `json:"addr_len_width"`
	PLen int `json:"pad_len_width"`
	Pad  int `json:"pad"`
}

func c04FTVarint(v uint64, w int) []byte {
	switch w {
	case 1:
		return []byte{byte(v)}
	case 2:
		return []byte{0x40 | byte(v>>8), byte(v)}
	case 4:
		return []byte{0x80 | byte(v>>24), byte(v >> 16), byte(v >> 8), byte(v)}
	}
	return []byte{0xc0 | byte(v>>56), byte(v >> 48), byte(v >> 40), byte(v >> 32), byte(v >> 24), byte(v >> 16), byte(v >> 8), byte(v)}
}

func c04FTRun(c *c04FTCase) (clause string) {
	const addr = "target.example:80"
	payload := []byte("first bytes of the payload")
	o := vsched.RunDefault(vsched.Options{}, func(e *vsched.Exec) {
		r := newRig(e, rigOpts{})
		if r.srv == nil {
			return
		}
		cl := r.dial("A")
		if resp, err := cl.auth("good", 0); err != nil || resp.Status != 233 {
			e.Fail("auth: %v %v", resp, err)
			return
		}
		str, err := cl.Conn.OpenStream()
		if err != nil {
			e.Fail("OpenStream: %v", err)
			return
		}
		var w bytes.Buffer
		w.Write(c04FTVarint(0x401, c.FT))
		w.Write(c04FTVarint(uint64(len(addr)), c.ALen))
		w.WriteString(addr)
		w.Write(c04FTVarint(uint64(c.Pad), c.PLen))
		w.Write(bytes.Repeat([]byte{0x5a}, c.Pad))
		w.Write(payload)
		if _, err := str.Write(w.Bytes()); err != nil {
			e.Fail("write: %v", err)
			return
		}
		e.WaitIdle()
		var dialled []string
		for _, ev := range r.Events {
			if ev.Kind == "tcp" {
				dialled = append(dialled, ev.A)
			}
		}
		if len(dialled) != 1 || dialled[0] != addr {
			e.Fail("a TCPRequest for %q (frame type in %d bytes, address length in %d, padding length in %d) made the server dial %q", addr, c.FT, c.ALen, c.PLen, dialled)
		} else if re := r.RelayEnds[addr]; re == nil || !bytes.Equal(re.Written, payload) {
			var got []byte
			if re != nil {
				got = re.Written
			}
			e.Fail("payload written behind the request reached the target as %q, sent %q", got, payload)
		}
		_ = str.Close()
		cl.close()
		r.shutdown(true)
	})
	if o.Kind != "ok" {
		return o.Kind + ": " + o.Detail
	}
	return ""
}

func c04FTEnumerate(sh *evidence.Shard) {
	env := sh.Env()
	p := sh.Part("frame-type-and-length-widths-at-the-server", "enum")
	p.Alphabet = map[string]any{"frame_type_width": []int{2, 4, 8}, "addr_len_width": []int{1, 2, 4, 8}, "pad_len_width": []int{1, 2, 4, 8}, "pad": []int{0, 5, 63, 64}}
	var item int64
	for _, ft := range []int{2, 4, 8} {
		for _, al := range []int{1, 2, 4, 8} {
			for _, pl := range []int{1, 2, 4, 8} {
				for _, pad := range []int{0, 5, 63, 64} {
					if pad > 63 && pl == 1 {
						continue
					}
					item++
					if !env.Mine(item) {
						continue
					}
					c := c04FTCase{FT: ft, ALen: al, PLen: pl, Pad: pad}
					p.Evaluations++
					clause := c04FTRun(&c)
					p.Class(ft, al, pl, pad, clause == "")
					if p.Evaluations%13 == 1 {
						p.Sample(c)
					}
					if clause != "" {
						cc := c
						short := clause
						if len(short) > 80 {
							short = short[:80]
						}
						sh.Violate(p.Name, fmt.Sprintf("%s/%s/ft=%d,alen=%d,plen=%d,pad=%d", p.Name, short, ft, al, pl, pad), clause, &cc)
						if sh.NViolations() >= 4 {
							p.Exhaustive = false
							return
						}
					}
				}
			}
		}
	}
}

func TestVerifC04FrameType(t *testing.T) {
	// second part (hook_server_test.go): payload arriving with the request x a request hook; added
	// after the independently seeded change C04-8 (request parsed through a bufio.Reader)
	run := func(sh *evidence.Shard) {
		c04FTEnumerate(sh)
		c04HookEnumerate(sh)
	}
	evidence.Main(t, "C04", evidence.Seq{Run: run, Replay: func(part string, raw json.RawMessage) (bool, bool, string) {
		if part == c04HookPart {
			return c04HookReplay(raw)
		}
		if part != "frame-type-and-length-widths-at-the-server" {
			return false, false, ""
		}
		var c c04FTCase
		if err := json.Unmarshal(raw, &c); err != nil {
			return true, false, err.Error()
		}
		clause := c04FTRun(&c)
		return true, clause != "", clause
	}})
}
