package client

// C04 at the client's call sites of the response reader: Client.TCP (response read before TCP
// returns) and, with FastOpen, the first Read of the returned connection (response read lazily).
// REAL clientImpl/tcpConn over the fake QUIC layer on the default schedule; the harness owns a
// scripted server double that answers the TCPRequest with a hand-built TCPResponse (PROTOCOL.md:
// status, varint message length, message, varint padding length, padding - each varint in a width
// the peer chooses) followed by payload, delivered in the chosen chunking.
//
// New dimension: the HISTORY OF READS on a fast-open connection before the response exists. A Read
// whose deadline expires while the server is still dialling (not one byte of the response is on
// the stream) consumes nothing; the caller lifts the deadline and reads again. Whatever number of
// such empty attempts precede it, the read that finds the response must consume exactly the frame:
// status and message come back identical (DialError{message} for an error status) and the first
// payload byte that follows is the first byte the application sees - never a byte of the frame,
// never a swallowed one. Deadlines expiring in the MIDDLE of the frame are not driven: the property
// speaks about what a read of the frame consumes, not about resuming a half-consumed frame.
// Added after the independently seeded change C04-7 (the deferred response read was put behind a
// sync.Once, so after one timed-out Read the next Read handed the raw frame to the application).
//
// New dimension: HOW THE APPLICATION DRAINS the returned connection. Relay loops do not call Read
// themselves: they hand the connection to io.Copy, which uses whichever capability the value offers
// (io.WriterTo when the connection implements it, a Read loop otherwise). "read" = io.ReadFull as
// before; "io.Copy" = io.Copy(writer-only sink, conn), also for the attempts that time out before
// the response exists. The clauses are the same on both paths: the status and message of the
// response come back identical (DialError{message}) and the first byte the sink receives is the
// first payload byte behind the frame. Added after the independently seeded change C04-11 (tcpConn
// gained a WriteTo that copies straight from the QUIC stream, so with fast open an io.Copy handed
// the raw response frame to the application and an error status never became a DialError).

import (
	"bytes"
	"encoding/json"
	"errors"
	"fmt"
	"io"
	"net"
	"net/http"
	"testing"

	coreErrs "github.com/apernet/hysteria/core/v2/errors"
	"github.com/apernet/hysteria/core/v2/internal/protocol"
	"github.com/apernet/quic-go/quicvarint"
	"verif.local/engine/evidence"
	"verif.local/engine/vnet"
	"verif.local/engine/vquic"
	vh3 "verif.local/engine/vquic/http3"
	"verif.local/engine/vsched"
	"verif.local/engine/vtime"
)

type c04FOCase struct {
	FastOpen bool `json:"fast_open"`
	OK       bool `json:"status_ok"`
	MsgLen   int  `json:"msg_len"`
	MsgW     int  `json:"msg_len_width"`
	Pad      int  `json:"pad"`
	PadW     int  `json:"pad_len_width"`
	// Timeouts: Reads of the fast-open connection whose deadline expires before the server wrote
	// the first byte of the response (the outbound dial is still pending); then the deadline is lifted
	Timeouts int `json:"reads_timed_out_before_the_response_exists"`
	// Arrival: "whole" (frame and payload in one write) | "frame,payload" (two writes, the reader
	// drains in between) | "bytes" (one byte per write, the reader drains in between)
	Arrival string `json:"arrival"`
	// Payload: 0 = text; 1 = the payload itself starts with bytes that form a valid TCPResponse
	// frame (a reader that parses twice swallows them)
	Payload int `json:"payload_class"`
	// Drain: "" / "read" = the application calls Read (io.ReadFull); "io.Copy" = the application hands
	// the connection to io.Copy with a sink that only has Write, as relay loops do (C04-11)
	Drain string `json:"drain,omitempty"`
}

// c04FOSink is a writer with no capability but Write (no ReadFrom), so io.Copy(sink, conn) takes
// conn's WriteTo if it has one and a plain Read loop otherwise.
type c04FOSink struct{ b []byte }

func (s *c04FOSink) Write(p []byte) (int, error) {
	s.b = append(s.b, p...)
	return len(p), nil
}

const c04FOAddr = "fastopen.example:443"

func c04FOVarint(v uint64, w int) []byte {
	switch w {
	case 1:
		return []byte{byte(v)}
	case 2:
		return []byte{0x40 | byte(v>>8), byte(v)}
	case 4:
		return []byte{0x80 | byte(v>>24), byte(v >> 16), byte(v >> 8), byte(v)}
	}
	return []byte{0xc0 | byte(v>>56), byte(v >> 48), byte(v >> 40), byte(v >> 32), byte(v >> 24), byte(v >> 16), byte(v >> 8), byte(v)}
}

func c04FOMinWidth(v int) int {
	switch {
	case v <= 63:
		return 1
	case v <= 16383:
		return 2
	}
	return 4
}

func c04FOMessage(n int) string {
	b := make([]byte, n)
	for i := range b {
		b[i] = "connection refused: "[i%20]
	}
	return string(b)
}

func c04FOPayload(class int) []byte {
	if class == 1 {
		// status OK, message "ab", 1 byte of padding - then text
		return append([]byte{0x00, 0x02, 'a', 'b', 0x01, 0x7f}, "payload-behind-a-frame-look-alike"...)
	}
	return []byte("PAYLOAD-after-the-response-frame")
}

type c04FOFactory struct{ pcs []*vnet.PacketConn }

func (f *c04FOFactory) New(net.Addr) (net.PacketConn, error) {
	pc := vnet.NewPacketConn(fmt.Sprintf("client-sock%d", len(f.pcs)), 53000+len(f.pcs))
	f.pcs = append(f.pcs, pc)
	return pc, nil
}

func c04FOBody(e *vsched.Exec, c *c04FOCase) {
	msg := c04FOMessage(c.MsgLen)
	payload := c04FOPayload(c.Payload)
	var frame []byte
	if c.OK {
		frame = append(frame, 0x00)
	} else {
		frame = append(frame, 0x01)
	}
	frame = append(frame, c04FOVarint(uint64(c.MsgLen), c.MsgW)...)
	frame = append(frame, msg...)
	frame = append(frame, c04FOVarint(uint64(c.Pad), c.PadW)...)
	frame = append(frame, bytes.Repeat([]byte{0x5a}, c.Pad)...)
	var pieces [][]byte
	rest := payload
	if !c.OK {
		rest = nil // an error status ends the stream (PROTOCOL.md)
	}
	switch c.Arrival {
	case "whole":
		pieces = [][]byte{append(append([]byte{}, frame...), rest...)}
	case "frame,payload":
		pieces = [][]byte{frame, rest}
	default:
		for _, b := range append(append([]byte{}, frame...), rest...) {
			pieces = append(pieces, []byte{b})
		}
	}

	// ---- scripted server double ---------------------------------------------------------
	srvPC := vnet.NewPacketConn("server-sock", 443)
	srvTr := &vquic.Transport{Conn: srvPC}
	ln, err := srvTr.Listen(nil, nil)
	if err != nil {
		e.Fail("harness: server listen: %v", err)
		return
	}
	dialDone := false // the outbound "dial" of the server completes when the harness says so
	var reqAddrs []string
	var tcpStr *vquic.Stream // the server's end of the proxied stream
	vsched.GoNamed("server-accept", func() {
		for {
			conn, err := ln.Accept(nil)
			if err != nil {
				return
			}
			vsched.GoNamed("server-conn", func() {
				s := vh3.Server{
					Handler: http.HandlerFunc(func(rw http.ResponseWriter, r *http.Request) {
						protocol.AuthResponseToHeader(rw.Header(), protocol.AuthResponse{UDPEnabled: false})
						rw.WriteHeader(protocol.StatusAuthOK)
					}),
					StreamDispatcher: func(ft vh3.FrameType, str *vquic.Stream, err error) (bool, error) {
						if err != nil || ft != protocol.FrameTypeTCPRequest {
							return false, nil
						}
						if _, err := quicvarint.Read(quicvarint.NewReader(str)); err != nil {
							return false, err
						}
						a, err := protocol.ReadTCPRequest(str)
						if err != nil {
							return false, err
						}
						reqAddrs = append(reqAddrs, a)
						tcpStr = str
						e.Point("env", func() bool { return dialDone || conn.IsClosed() }, "server: outbound dial pending")
						for i, p := range pieces {
							if i > 0 {
								// the next piece arrives after the reader has drained what was written so far
								e.Point("env", func() bool { return len(str.Other().Unread()) == 0 || conn.IsClosed() }, "server: next piece of the response")
							}
							if _, err := str.Write(p); err != nil {
								return true, nil
							}
						}
						_ = str.Close()
						return true, nil
					},
				}
				_ = s.ServeQUICConn(conn)
			})
		}
	})
	teardown := func(cl Client) {
		dialDone = true
		if cl != nil {
			_ = cl.Close()
		}
		_ = srvTr.Close()
		_ = srvPC.Close()
		e.WaitIdle()
	}

	// ---- the application ----------------------------------------------------------------
	f := &c04FOFactory{}
	cl, _, err := NewClient(&Config{ConnFactory: f, ServerAddr: srvPC.LocalAddr(), Auth: "x", FastOpen: c.FastOpen})
	if err != nil {
		e.Fail("harness: NewClient: %v", err)
		teardown(nil)
		return
	}
	if !c.FastOpen {
		dialDone = true // Client.TCP itself waits for the response
	}
	conn, tcpErr := cl.TCP(c04FOAddr)
	firstErr := tcpErr // where the status of the response surfaces
	if tcpErr == nil && c.FastOpen {
		buf := make([]byte, 64)
		for i := 0; i < c.Timeouts; i++ {
			_ = conn.SetReadDeadline(vtime.Now().Add(100 * vtime.Millisecond))
			var n int
			var err error
			if c.Drain == "io.Copy" {
				sink := &c04FOSink{}
				_, err = io.Copy(sink, conn)
				n = len(sink.b)
			} else {
				n, err = conn.Read(buf)
			}
			if n != 0 || err == nil {
				e.Fail("drain attempt #%d returned (%d bytes, %v) before the server wrote the first byte of its response", i+1, n, err)
			}
			if tcpStr != nil && tcpStr.WrittenTotal() != 0 {
				e.Fail("harness: the server double wrote before the dial was released")
			}
		}
		_ = conn.SetReadDeadline(vtime.Time{})
		dialDone = true
	}
	if tcpErr == nil {
		var got []byte
		var n int
		var err error
		if c.Drain == "io.Copy" {
			// the whole stream up to its end; io.Copy reports the end of the stream as a nil error
			sink := &c04FOSink{}
			_, err = io.Copy(sink, conn)
			got, n = sink.b, len(sink.b)
		} else {
			got = make([]byte, len(payload))
			n, err = io.ReadFull(conn, got)
			got = got[:n]
		}
		if c.OK {
			switch {
			case err != nil && n == 0:
				e.Fail("response (ok, %d-byte message) read as an error: %v", c.MsgLen, err)
			case !bytes.Equal(got, payload):
				k := 0
				for k < len(got) && k < len(payload) && got[k] == payload[k] {
					k++
				}
				what := "payload bytes swallowed or altered"
				if bytes.HasPrefix(frame, got[:min(len(got), len(frame))]) {
					what = "the bytes of the response frame were handed to the application as payload"
				}
				e.Fail("%s: what the application read behind the response differs from the payload at offset %d (%d of %d bytes delivered, err %v)", what, k, len(got), len(payload), err)
			default:
				// exactly the payload, then the end of the stream
				one := make([]byte, 1)
				if n, err := conn.Read(one); n != 0 || err != io.EOF {
					e.Fail("after the payload the stream ended, Read returned (%d, %v)", n, err)
				}
			}
		} else {
			firstErr = err
			if n != 0 {
				e.Fail("%d bytes delivered to the application from a stream that carries only an error response", n)
			}
		}
	}
	if c.OK {
		if tcpErr != nil {
			e.Fail("Client.TCP failed on an OK response: %v", tcpErr)
		}
	} else {
		var de coreErrs.DialError
		if !errors.As(firstErr, &de) {
			e.Fail("error response (%d-byte message) surfaced as %v, expected a DialError", c.MsgLen, firstErr)
		} else if de.Message != msg {
			e.Fail("error response message differs: sent %d bytes, DialError carries %d bytes", len(msg), len(de.Message))
		}
	}
	if len(reqAddrs) != 1 || reqAddrs[0] != c04FOAddr {
		e.Fail("server read request addresses %q, client asked for %q", reqAddrs, c04FOAddr)
	}
	if conn != nil {
		_ = conn.Close()
	}
	teardown(cl)
}

func c04FORun(c *c04FOCase) string {
	o := vsched.RunDefault(vsched.Options{}, func(e *vsched.Exec) { c04FOBody(e, c) })
	if o.Kind != "ok" {
		return o.Kind + ": " + o.Detail
	}
	return ""
}

func c04FOEnumerate(sh *evidence.Shard) {
	env := sh.Env()
	th := env.Thorough()
	p := sh.Part("response-at-the-client-call-sites", "enum")
	msgLens := []int{0, 1, 63, 64}
	pads := []int{0, 63, 64}
	timeouts := []int{0, 1, 2}
	// encodings of the two length fields (0 = minimal width)
	encs := [][2]int{{0, 0}, {2, 4}, {8, 8}}
	if th {
		msgLens = []int{0, 1, 63, 64, 2047, 2048}
		pads = []int{0, 1, 63, 64, 4096}
		timeouts = []int{0, 1, 2, 3}
		encs = [][2]int{{0, 0}, {2, 4}, {4, 2}, {8, 8}}
	}
	arrivals := []string{"whole", "frame,payload", "bytes"}
	// how the application drains the connection (added after the independently seeded change C04-11:
	// a WriteTo on tcpConn that bypassed the deferred fast-open response read)
	drains := []string{"read", "io.Copy"}
	p.Alphabet = map[string]any{
		"fast_open": []bool{true, false}, "status_ok": []bool{true, false}, "msg_len": msgLens, "pad": pads,
		"length_field_widths(msg,pad; 0=minimal)":                     encs,
		"reads_timed_out_before_the_response_exists (fast open only)": timeouts,
		"arrival": arrivals, "payload_class": []string{"text", "starts with a valid TCPResponse frame"},
		"drain (Read by the application | io.Copy into a Write-only sink: WriterTo if the connection offers it)": drains,
	}
	var item int64
	for _, fo := range []bool{true, false} {
		for _, okv := range []bool{true, false} {
			for _, ml := range msgLens {
				for _, pad := range pads {
					for _, enc := range encs {
						mw, pw := enc[0], enc[1]
						if mw == 0 {
							mw = c04FOMinWidth(ml)
						}
						if pw == 0 {
							pw = c04FOMinWidth(pad)
						}
						if mw < c04FOMinWidth(ml) || pw < c04FOMinWidth(pad) {
							continue
						}
						for _, to := range timeouts {
							if to > 0 && !fo {
								continue // without fast open the response is read inside Client.TCP, which has no deadline
							}
							for _, arr := range arrivals {
								for pc := 0; pc < 2; pc++ {
									if !okv && (pc > 0 || arr == "frame,payload") {
										continue // an error response is followed by nothing
									}
									for _, dr := range drains {
										item++
										if !env.Mine(item) {
											continue
										}
										if item&63 == 0 && env.Expired() {
											p.Exhaustive = false
											p.Note("deadline: stopped at case %d", item)
											return
										}
										c := c04FOCase{FastOpen: fo, OK: okv, MsgLen: ml, MsgW: mw, Pad: pad, PadW: pw, Timeouts: to, Arrival: arr, Payload: pc, Drain: dr}
										p.Evaluations++
										clause := c04FORun(&c)
										p.Class(fo, okv, ml, mw, pad, pw, to, arr, pc, dr, clause == "")
										if p.Evaluations%29 == 1 {
											p.Sample(c)
										}
										if clause != "" {
											cc := c
											short := clause
											if len(short) > 100 {
												short = short[:100]
											}
											sh.Violate(p.Name, fmt.Sprintf("%s/%s/fastopen=%v,ok=%v,msg=%d(w%d),pad=%d(w%d),timeouts=%d,arrival=%s,payload=%d,drain=%s", p.Name, short, fo, okv, ml, mw, pad, pw, to, arr, pc, dr), clause, &cc)
											if sh.NViolations() >= 4 {
												p.Exhaustive = false
												return
											}
										}
									}
								}
							}
						}
					}
				}
			}
		}
	}
}

func TestVerifC04ClientFastOpen(t *testing.T) {
	evidence.Main(t, "C04", evidence.Seq{Run: c04FOEnumerate, Replay: func(part string, raw json.RawMessage) (bool, bool, string) {
		if part != "response-at-the-client-call-sites" {
			return false, false, ""
		}
		var c c04FOCase
		if err := json.Unmarshal(raw, &c); err != nil {
			return true, false, err.Error()
		}
		clause := c04FORun(&c)
		return true, clause != "", clause
	}})
}
