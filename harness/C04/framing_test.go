package protocol

// C04 harness (injected by overlay into core/internal/protocol).

import (
	"bytes"
	"encoding/json"
	"errors"
	"fmt"
	"io"
	"strings"
	"testing"

	hyerrors "github.com/apernet/hysteria/core/v2/errors"
	"verif.local/engine/enum"
	"verif.local/engine/evidence"
)

type c04Case struct {
	Kind     string `json:"kind"` // req-rt | resp-rt | req-chunk | resp-chunk | req-enc | resp-enc | req-seq | resp-seq
	Addr     []byte `json:"addr,omitempty"`
	OK       bool   `json:"ok,omitempty"`
	Pad      int    `json:"pad"`
	Trailing []byte `json:"trailing,omitempty"`
	Cuts     []int  `json:"cuts,omitempty"`
	Zero     bool   `json:"zero_reads,omitempty"`
	EOFLast  bool   `json:"eof_with_last_bytes,omitempty"` // the frame ends the stream and its last bytes arrive together with io.EOF
	Stream   []byte `json:"stream,omitempty"`              // for *-enc: the raw stream fed to the reader
	// Bystander: another request frame and another response frame are parsed between any two reads of this stream
	Bystander bool `json:"other_streams_parsed_between_reads,omitempty"`
	// for *-seq: the addresses/messages of 2-3 frames read one after the other in the same process,
	// each on its own stream (frame + Trailing) or, with SameStream, back to back on one stream
	// (Trailing after the last); Bytewise delivers every stream one byte per read
	Seq        [][]byte `json:"seq,omitempty"`
	SameStream bool     `json:"same_stream,omitempty"`
	Bytewise   bool     `json:"byte_at_a_time,omitempty"`
}

func c04Content(class, n int) []byte {
	b := make([]byte, n)
	for i := range b {
		switch class {
		case 0:
			b[i] = "example.com:443/"[i%16]
		case 1:
			b[i] = 0x00
		case 2:
			b[i] = 0xff
		case 3:
			b[i] = []byte{0x40, 0x80, 0xc0, 0x3f}[i%4]
		}
	}
	return b
}

// varint encodes v in exactly w bytes (w in 1,2,4,8); ok=false if it does not fit.
func c04Varint(v uint64, w int) ([]byte, bool) {
	switch w {
	case 1:
		if v > 63 {
			return nil, false
		}
		return []byte{byte(v)}, true
	case 2:
		if v > 16383 {
			return nil, false
		}
		return []byte{0x40 | byte(v>>8), byte(v)}, true
	case 4:
		if v > 1073741823 {
			return nil, false
		}
		return []byte{0x80 | byte(v>>24), byte(v >> 16), byte(v >> 8), byte(v)}, true
	case 8:
		if v > 4611686018427387903 {
			return nil, false
		}
		return []byte{0xc0 | byte(v>>56), byte(v >> 48), byte(v >> 40), byte(v >> 32), byte(v >> 24), byte(v >> 16), byte(v >> 8), byte(v)}, true
	}
	return nil, false
}

// c04Bystander: other streams of the same process are parsed between any two reads of the stream
// under test (the server parses every stream in its own goroutine). Whatever the parsers share
// across calls, the frame under test must still read back identical. Added after the independently
// seeded change C04-4 (address read into a pooled buffer that is released before the string is made).
var c04ByReq, c04ByResp []byte

func c04Bystander(c *c04Case) func() {
	if !c.Bystander {
		return nil
	}
	if c04ByReq == nil {
		var w bytes.Buffer
		_ = WriteTCPRequest(&w, strings.Repeat("bystander.invalid:1/", 40))
		c04ByReq = append([]byte(nil), w.Bytes()[2:]...)
		w.Reset()
		_ = WriteTCPResponse(&w, false, strings.Repeat("bystander says no. ", 40))
		c04ByResp = append([]byte(nil), w.Bytes()...)
	}
	return func() {
		_, _ = ReadTCPRequest(bytes.NewReader(c04ByReq))
		_, _, _ = ReadTCPResponse(bytes.NewReader(c04ByResp))
	}
}

// c04Run executes one case on the real code and returns "" or the violated clause.
func c04Run(c *c04Case) (clause string) {
	val, stack := evidence.Catch(func() { clause = c04RunInner(c) })
	if val != nil {
		return fmt.Sprintf("panic: %v at %s", val, evidence.PanicSite(stack))
	}
	return clause
}

func c04RunInner(c *c04Case) string {
	switch c.Kind {
	case "req-rt", "req-chunk":
		saved := tcpRequestPadding
		defer func() { tcpRequestPadding = saved }()
		tcpRequestPadding = padding{Min: c.Pad, Max: c.Pad + 1}
		var w bytes.Buffer
		if err := WriteTCPRequest(&w, string(c.Addr)); err != nil {
			return "write error: " + err.Error()
		}
		frame := w.Bytes()
		// the frame type is consumed by the dispatcher on the server; ReadTCPRequest starts after it
		if len(frame) < 2 || frame[0] != 0x44 || frame[1] != 0x01 {
			return fmt.Sprintf("frame does not start with varint 0x401: % x", frame[:2])
		}
		body := frame[2:]
		wantLen := c04VarintLen(uint64(len(c.Addr))) + len(c.Addr) + c04VarintLen(uint64(c.Pad)) + c.Pad
		if len(body) != wantLen {
			return fmt.Sprintf("frame length %d, expected %d (padding length not as drawn?)", len(body), wantLen)
		}
		stream := append(append([]byte{}, body...), c.Trailing...)
		r := &enum.ChunkReader{Data: stream, Cuts: c.Cuts, Err: io.EOF, ZeroReads: c.Zero, EOFWithLast: c.EOFLast, Before: c04Bystander(c)}
		got, err := ReadTCPRequest(r)
		if err != nil {
			return "read error on a valid frame: " + err.Error()
		}
		if got != string(c.Addr) {
			return fmt.Sprintf("address differs: wrote %d bytes, read %d bytes", len(c.Addr), len(got))
		}
		if r.Pos != len(body) {
			return fmt.Sprintf("reader consumed %d bytes, frame is %d bytes (trailing payload %d)", r.Pos, len(body), len(c.Trailing))
		}
		rest, _ := io.ReadAll(r)
		if !bytes.Equal(rest, c.Trailing) {
			return "trailing payload not intact after reading the frame"
		}
	case "resp-rt", "resp-chunk":
		saved := tcpResponsePadding
		defer func() { tcpResponsePadding = saved }()
		tcpResponsePadding = padding{Min: c.Pad, Max: c.Pad + 1}
		var w bytes.Buffer
		if err := WriteTCPResponse(&w, c.OK, string(c.Addr)); err != nil {
			return "write error: " + err.Error()
		}
		body := w.Bytes()
		wantLen := 1 + c04VarintLen(uint64(len(c.Addr))) + len(c.Addr) + c04VarintLen(uint64(c.Pad)) + c.Pad
		if len(body) != wantLen {
			return fmt.Sprintf("frame length %d, expected %d", len(body), wantLen)
		}
		stream := append(append([]byte{}, body...), c.Trailing...)
		r := &enum.ChunkReader{Data: stream, Cuts: c.Cuts, Err: io.EOF, ZeroReads: c.Zero, EOFWithLast: c.EOFLast, Before: c04Bystander(c)}
		ok, msg, err := ReadTCPResponse(r)
		if err != nil {
			return "read error on a valid frame: " + err.Error()
		}
		if ok != c.OK || msg != string(c.Addr) {
			return fmt.Sprintf("response differs: wrote (%v,%d bytes), read (%v,%d bytes)", c.OK, len(c.Addr), ok, len(msg))
		}
		if r.Pos != len(body) {
			return fmt.Sprintf("reader consumed %d bytes, frame is %d bytes (trailing payload %d)", r.Pos, len(body), len(c.Trailing))
		}
		rest, _ := io.ReadAll(r)
		if !bytes.Equal(rest, c.Trailing) {
			return "trailing payload not intact after reading the frame"
		}
	case "req-enc", "resp-enc":
		return c04Enc(c)
	case "req-seq", "resp-seq":
		return c04RunSeq(c)
	default:
		return "unknown case kind " + c.Kind
	}
	return ""
}

// c04SeqSpellings is the alphabet of the histories of several frames: spellings that are equal, that
// have the same length and differ only in letter case (ASCII, hex digits of an IPv6 literal, a
// two-byte UTF-8 letter), that differ only in bit 0x20 of a non-letter, that have the same length and
// are unrelated, and that extend one another. The property quantifies over every address/message
// content: whatever was read before, each frame is read back byte-identical. Added after the
// independently seeded change C04-13 (ReadTCPRequest returned the previous request's spelling when
// the address matched it case-insensitively).
var c04SeqSpellings = []string{
	"Example.com:443", "example.com:443", "EXAMPLE.COM:443", "example.net:443", "example.com:4430",
	"[2001:DB8::1]:80", "[2001:db8::1]:80",
	"caf\u00e9.example:80", "caf\u00c9.example:80",
	"A@b.example:1", "a`b.example:1",
}

// c04SeqRelation names how two spellings relate (for the distinct-class shape).
func c04SeqRelation(a, b []byte) byte {
	switch {
	case bytes.Equal(a, b):
		return 'I'
	case len(a) != len(b):
		return 'D'
	case bytes.EqualFold(a, b):
		return 'F'
	}
	for i := range a {
		if a[i]|0x20 != b[i]|0x20 {
			return 'L'
		}
	}
	return 'B'
}

// c04RunSeq reads the frames of c.Seq one after the other in the same process and judges every one
// of them with the clauses of the single round trip: value identical, exactly the frame consumed,
// what follows intact.
func c04RunSeq(c *c04Case) string {
	isReq := c.Kind == "req-seq"
	if isReq {
		saved := tcpRequestPadding
		defer func() { tcpRequestPadding = saved }()
		tcpRequestPadding = padding{Min: c.Pad, Max: c.Pad + 1}
	} else {
		saved := tcpResponsePadding
		defer func() { tcpResponsePadding = saved }()
		tcpResponsePadding = padding{Min: c.Pad, Max: c.Pad + 1}
	}
	status := func(i int) bool { return c.OK == (i%2 == 0) }
	var bodies [][]byte
	for i, a := range c.Seq {
		var w bytes.Buffer
		if isReq {
			if err := WriteTCPRequest(&w, string(a)); err != nil {
				return fmt.Sprintf("frame #%d: write error: %v", i+1, err)
			}
			frame := w.Bytes()
			if len(frame) < 2 || frame[0] != 0x44 || frame[1] != 0x01 {
				return fmt.Sprintf("frame #%d does not start with varint 0x401", i+1)
			}
			bodies = append(bodies, append([]byte(nil), frame[2:]...))
		} else {
			if err := WriteTCPResponse(&w, status(i), string(a)); err != nil {
				return fmt.Sprintf("frame #%d: write error: %v", i+1, err)
			}
			bodies = append(bodies, append([]byte(nil), w.Bytes()...))
		}
	}
	var r *enum.ChunkReader
	end := 0
	for i, a := range c.Seq {
		if i == 0 || !c.SameStream {
			var data []byte
			if c.SameStream {
				for _, b := range bodies {
					data = append(data, b...)
				}
			} else {
				data = append(data, bodies[i]...)
			}
			data = append(data, c.Trailing...)
			data = data[:len(data):len(data)]
			r = &enum.ChunkReader{Data: data, Err: io.EOF, EOFWithLast: c.EOFLast, Before: c04Bystander(c)}
			if c.Bytewise {
				for k := 1; k < len(data); k++ {
					r.Cuts = append(r.Cuts, k)
				}
			}
			end = 0
		}
		end += len(bodies[i])
		if isReq {
			got, err := ReadTCPRequest(r)
			if err != nil {
				return fmt.Sprintf("frame #%d of the history: read error on a valid frame: %v", i+1, err)
			}
			if got != string(a) {
				return fmt.Sprintf("frame #%d of the history: address differs: wrote %q, read %q", i+1, a, got)
			}
		} else {
			ok, msg, err := ReadTCPResponse(r)
			if err != nil {
				return fmt.Sprintf("frame #%d of the history: read error on a valid frame: %v", i+1, err)
			}
			if ok != status(i) || msg != string(a) {
				return fmt.Sprintf("frame #%d of the history: response differs: wrote (%v,%q), read (%v,%q)", i+1, status(i), a, ok, msg)
			}
		}
		if r.Pos != end {
			return fmt.Sprintf("frame #%d of the history: reader at byte %d, frame ends at byte %d", i+1, r.Pos, end)
		}
		if !c.SameStream || i == len(c.Seq)-1 {
			rest, _ := io.ReadAll(r)
			if !bytes.Equal(rest, c.Trailing) {
				return fmt.Sprintf("frame #%d of the history: trailing payload not intact after reading the frame", i+1)
			}
		}
	}
	return ""
}

func c04VarintLen(v uint64) int {
	switch {
	case v <= 63:
		return 1
	case v <= 16383:
		return 2
	case v <= 1073741823:
		return 4
	}
	return 8
}

// reference reader of one varint: value, width; ok=false if truncated
func c04RefVarint(b []byte) (uint64, int, bool) {
	if len(b) == 0 {
		return 0, 0, false
	}
	w := 1 << (b[0] >> 6)
	if len(b) < w {
		return 0, 0, false
	}
	v := uint64(b[0] & 0x3f)
	for i := 1; i < w; i++ {
		v = v<<8 | uint64(b[i])
	}
	return v, w, true
}

// c04Ref is the reference decoder written from PROTOCOL.md: returns (accept, rejectOffset, frameEnd,
// value). rejectOffset is the number of stream bytes up to and including the offending varint.
type c04RefResult struct {
	accept    bool
	protoErr  bool // rejected by a limit (ProtocolError expected)
	rejectOff int
	frameEnd  int
	val       []byte
	ok        bool
}

func c04Ref(kind string, s []byte) c04RefResult {
	off := 0
	var res c04RefResult
	if kind == "resp-enc" {
		if len(s) < 1 {
			return res
		}
		res.ok = s[0] == 0
		off = 1
	}
	l, w, good := c04RefVarint(s[off:])
	if !good {
		return res
	}
	off += w
	maxLen, minLen := uint64(MaxAddressLength), uint64(1)
	if kind == "resp-enc" {
		maxLen, minLen = MaxMessageLength, 0
	}
	if l < minLen || l > maxLen {
		res.protoErr, res.rejectOff = true, off
		return res
	}
	if uint64(len(s)-off) < l {
		return res
	}
	res.val = s[off : off+int(l)]
	off += int(l)
	p, w, good := c04RefVarint(s[off:])
	if !good {
		return res
	}
	off += w
	if p > MaxPaddingLength {
		res.protoErr, res.rejectOff = true, off
		return res
	}
	if uint64(len(s)-off) < p {
		return res
	}
	off += int(p)
	res.accept, res.frameEnd = true, off
	return res
}

func c04Enc(c *c04Case) string {
	ref := c04Ref(c.Kind, c.Stream)
	r := &enum.ChunkReader{Data: c.Stream, Err: io.EOF}
	var err error
	var got string
	var gotOK bool
	if c.Kind == "req-enc" {
		got, err = ReadTCPRequest(r)
	} else {
		gotOK, got, err = ReadTCPResponse(r)
	}
	switch {
	case ref.accept:
		if err != nil {
			return "valid frame rejected: " + err.Error()
		}
		if got != string(ref.val) || (c.Kind == "resp-enc" && gotOK != ref.ok) {
			return "decoded value differs from the reference decoder"
		}
		if r.Pos != ref.frameEnd {
			return fmt.Sprintf("reader consumed %d bytes, frame ends at %d", r.Pos, ref.frameEnd)
		}
	case ref.protoErr:
		if err == nil {
			return fmt.Sprintf("over-limit or empty length field accepted (value read: %d bytes)", len(got))
		}
		var pe hyerrors.ProtocolError
		if !errors.As(err, &pe) {
			return "over-limit length field rejected with a non-protocol error: " + err.Error()
		}
		if r.Requested > int64(ref.rejectOff) {
			return fmt.Sprintf("reader requested %d bytes before rejecting; the offending length field ends at byte %d (declared amount read or allocated before the check)", r.Requested, ref.rejectOff)
		}
	default: // truncated
		if err == nil {
			return "truncated frame accepted"
		}
	}
	return ""
}

func c04Shape(c *c04Case, clause string) string {
	if c.Kind == "req-enc" || c.Kind == "resp-enc" {
		n := len(c.Stream)
		if n > 10 {
			n = 10
		}
		return fmt.Sprintf("%s|%x|%d|%v", c.Kind, c.Stream[:n], len(c.Stream), clause == "")
	}
	if c.Seq != nil {
		var rel []byte
		for j := range c.Seq {
			for i := 0; i < j; i++ {
				rel = append(rel, c04SeqRelation(c.Seq[i], c.Seq[j]))
			}
		}
		return fmt.Sprintf("%s|%d|%s|%d|%d|%v|%v|%v|%v", c.Kind, len(c.Seq), rel, c.Pad, len(c.Trailing), c.SameStream, c.Bytewise, c.EOFLast, c.Bystander)
	}
	return fmt.Sprintf("%s|%d|%d|%d|%d|%v|%v", c.Kind, len(c.Addr), c.Pad, len(c.Trailing), len(c.Cuts), c.Zero, c.EOFLast)
}

func c04Sig(c *c04Case, clause string) string {
	// specific: kind + clause + the structural minimal case
	if c.Kind == "req-enc" || c.Kind == "resp-enc" {
		n := len(c.Stream)
		if n > 12 {
			n = 12
		}
		return fmt.Sprintf("%s/%s/stream=%x..(%d)", c.Kind, clause, c.Stream[:n], len(c.Stream))
	}
	if c.Seq != nil {
		var sp []string
		for _, a := range c.Seq {
			sp = append(sp, string(a))
		}
		return fmt.Sprintf("%s/%s/seq=%q,pad=%d,trail=%d,same-stream=%v,byte-at-a-time=%v,eof-with-last=%v,bystander=%v", c.Kind, clause, sp, c.Pad, len(c.Trailing), c.SameStream, c.Bytewise, c.EOFLast, c.Bystander)
	}
	return fmt.Sprintf("%s/%s/len=%d,pad=%d,trail=%d,cuts=%v,zero=%v,eof-with-last=%v,bystander=%v", c.Kind, clause, len(c.Addr), c.Pad, len(c.Trailing), c.Cuts, c.Zero, c.EOFLast, c.Bystander)
}

func c04Run1(sh *evidence.Shard, p *evidence.Part, c *c04Case) {
	if len(c.Trailing) == 0 && !c.EOFLast && !c.Bystander && c.Stream == nil && (strings.HasSuffix(c.Kind, "-rt") || len(c.Cuts) <= 1) {
		// the same case once more with other streams parsed between any two reads of this one
		cb := *c
		cb.Bystander = true
		c04Run1(sh, p, &cb)
	}
	if len(c.Trailing) == 0 && !c.EOFLast && !c.Bystander && c.Stream == nil {
		// the frame is the last thing on the stream (e.g. a refused dial: response, then FIN):
		// the same case once more with the final bytes delivered together with io.EOF
		cc := *c
		cc.EOFLast = true
		c04Run1(sh, p, &cc)
	}
	p.Evaluations++
	clause := c04Run(c)
	p.Class(c04Shape(c, clause))
	if len(p.Samples) < 2 && p.Evaluations%97 == 3 {
		p.Sample(c)
	}
	if clause != "" {
		cc := *c
		sh.Violate(p.Name, c04Sig(c, clause), clause, &cc)
	}
}

func c04Enumerate(sh *evidence.Shard) {
	env := sh.Env()
	th := env.Thorough()
	var item int64
	mine := func() bool { item++; return env.Mine(item) }

	addrLens := []int{1, 2, 62, 63, 64, 65, 2047, 2048}
	msgLens := []int{0, 1, 63, 64, 2047, 2048}
	if th {
		// thorough: EVERY address length 1..2048 and message length 0..2048
		addrLens, msgLens = nil, nil
		for l := 1; l <= MaxAddressLength; l++ {
			addrLens = append(addrLens, l)
		}
		for l := 0; l <= MaxMessageLength; l++ {
			msgLens = append(msgLens, l)
		}
	}
	boundary := map[int]bool{0: true, 1: true, 2: true, 62: true, 63: true, 64: true, 65: true, 2047: true, 2048: true}
	// quick, second sweep: EVERY length with a sparse padding set — the ends of the range and every
	// padding that brings length+padding (or the whole frame) within 8 of a power of two, where
	// fixed-size scratch buffers, pooled buffers and size classes change behaviour
	nearPow2 := func(v int) bool {
		for b := 64; b <= 8192; b <<= 1 {
			if v >= b-8 && v <= b+8 {
				return true
			}
		}
		return false
	}
	sparsePads := func(l, min, max int) []int {
		var out []int
		for pad := min; pad < max; pad++ {
			if pad <= min+1 || pad >= max-2 || nearPow2(l+pad) || nearPow2(l+pad+6) {
				out = append(out, pad)
			}
		}
		return out
	}
	trailings := [][]byte{nil, {0x44}, {0x44, 0x01, 0x05}}
	classes := []int{0, 1, 2, 3}

	// (1) round trips over every padding length the writer can draw
	p1 := sh.Part("request-roundtrip", "enum")
	p1.Alphabet = map[string]any{"addr_len": addrLens, "content_classes": 4, "padding": "every value of tcpRequestPadding [Min,Max)", "trailing_len": []int{0, 1, 3}}
	for _, al := range addrLens {
		for _, cl := range classes {
			if !th && cl >= 2 && al != 63 && al != 2048 {
				continue
			}
			if th && !boundary[al] && cl != al%4 {
				continue // non-boundary lengths: one content class each (rotating), every padding
			}
			for pad := tcpRequestPadding.Min; pad < tcpRequestPadding.Max; pad++ {
				for _, tr := range trailings {
					if !mine() {
						continue
					}
					c04Run1(sh, p1, &c04Case{Kind: "req-rt", Addr: c04Content(cl, al), Pad: pad, Trailing: tr})
				}
			}
		}
	}
	if !th {
		p1.Alphabet.(map[string]any)["every_length_sweep"] = "addr_len 1..2048 (content class rotating) x padding {Min,Min+1,Max-2,Max-1} and every padding with addr_len+padding(+6) within 8 of a power of two x trailing_len"
		for al := 1; al <= MaxAddressLength; al++ {
			for _, pad := range sparsePads(al, tcpRequestPadding.Min, tcpRequestPadding.Max) {
				for _, tr := range trailings {
					if !mine() {
						continue
					}
					c04Run1(sh, p1, &c04Case{Kind: "req-rt", Addr: c04Content(al%4, al), Pad: pad, Trailing: tr})
				}
			}
		}
	}
	p2 := sh.Part("response-roundtrip", "enum")
	p2.Alphabet = map[string]any{"msg_len": msgLens, "content_classes": 4, "status": []bool{true, false}, "padding": "every value of tcpResponsePadding [Min,Max)", "trailing_len": []int{0, 1, 3}}
	for _, ml := range msgLens {
		for _, cl := range classes {
			if !th && cl >= 2 && ml != 64 && ml != 2048 {
				continue
			}
			if th && !boundary[ml] && cl != ml%4 {
				continue
			}
			for _, okv := range []bool{true, false} {
				for pad := tcpResponsePadding.Min; pad < tcpResponsePadding.Max; pad++ {
					for _, tr := range trailings {
						if !mine() {
							continue
						}
						c04Run1(sh, p2, &c04Case{Kind: "resp-rt", Addr: c04Content(cl, ml), OK: okv, Pad: pad, Trailing: tr})
					}
				}
			}
		}
	}

	if !th {
		p2.Alphabet.(map[string]any)["every_length_sweep"] = "msg_len 0..2048 (content class rotating) x status x padding {Min,Min+1,Max-2,Max-1} and every padding with msg_len+padding(+6) within 8 of a power of two x trailing_len"
		for ml := 0; ml <= MaxMessageLength; ml++ {
			for _, okv := range []bool{true, false} {
				for _, pad := range sparsePads(ml, tcpResponsePadding.Min, tcpResponsePadding.Max) {
					for _, tr := range trailings {
						if !mine() {
							continue
						}
						c04Run1(sh, p2, &c04Case{Kind: "resp-rt", Addr: c04Content(ml%4, ml), OK: okv, Pad: pad, Trailing: tr})
					}
				}
			}
		}
	}
	// (1b) histories: 2 and 3 frames read one after the other in the same process. Every framing case
	// above reads ONE frame; here every ordered pair and triple over the spelling alphabet is read, each
	// frame on its own stream or all back to back on one, whole or byte-at-a-time, with and without
	// payload behind. Added after the independently seeded change C04-13 (ReadTCPRequest interned the
	// address through a case-insensitive one-entry cache and returned the previous request's spelling).
	p5 := sh.Part("frame-histories", "enum")
	p5.Alphabet = map[string]any{"history": "every ordered pair and triple of frames read one after the other in the same process", "spellings": c04SeqSpellings,
		"kinds": "requests (address) | responses (message, status alternating from ok/error)", "streams": "each frame on its own stream | all frames back to back on one stream",
		"padding": "tcpRequestPadding/tcpResponsePadding {Min, Max-1}", "trailing_len": []int{0, 3}, "delivery": "one read | byte-at-a-time",
		"also": "frames without trailing payload once more with the last bytes delivered together with io.EOF, and once more with other streams parsed between any two reads"}
	for _, kind := range []string{"req-seq", "resp-seq"} {
		pmin, pmax := tcpRequestPadding.Min, tcpRequestPadding.Max-1
		if kind == "resp-seq" {
			pmin, pmax = tcpResponsePadding.Min, tcpResponsePadding.Max-1
		}
		ns := len(c04SeqSpellings)
		for depth, total := 2, ns*ns; depth <= 3; depth, total = depth+1, total*ns {
			for t := 0; t < total; t++ {
				var seq [][]byte
				for k, v := 0, t; k < depth; k, v = k+1, v/ns {
					seq = append(seq, []byte(c04SeqSpellings[v%ns]))
				}
				for _, pad := range []int{pmin, pmax} {
					for _, tr := range [][]byte{nil, {0x44, 0x01, 0x05}} {
						for _, same := range []bool{false, true} {
							for _, bw := range []bool{false, true} {
								if !mine() {
									continue
								}
								c04Run1(sh, p5, &c04Case{Kind: kind, Seq: seq, OK: true, Pad: pad, Trailing: tr, SameStream: same, Bytewise: bw})
							}
						}
					}
				}
			}
		}
	}

	// (2) chunkings
	p3 := sh.Part("chunkings", "enum")
	p3.Alphabet = map[string]any{"short_frames": "addr/msg len 1..4 x pad 0..3 x trailing 0/2: all 2^(n-1) splits, with and without zero-length reads", "long_frames": "lens {63,64,2048} x pad {63,64,4096 via pinned padding}: all <=2-cut splits over field boundaries +-1, plus byte-at-a-time"}
	for _, kind := range []string{"req-chunk", "resp-chunk"} {
		for al := 1; al <= 4; al++ {
			for pad := 0; pad <= 3; pad++ {
				for _, tr := range [][]byte{nil, {0x44, 0x01}} {
					c := c04Case{Kind: kind, Addr: c04Content(3, al), OK: true, Pad: pad, Trailing: tr}
					n := c04VarintLen(uint64(al)) + al + 1 + pad + len(tr)
					if kind == "resp-chunk" {
						n++
					}
					if n > 12 && !th {
						continue
					}
					enum.Splits(n, 14, nil, 0, func(cuts []int) bool {
						for _, z := range []bool{false, true} {
							if !mine() {
								continue
							}
							cc := c
							cc.Cuts = append([]int{}, cuts...)
							cc.Zero = z
							c04Run1(sh, p3, &cc)
						}
						return true
					})
				}
			}
		}
		for _, al := range []int{63, 64, 2048} {
			for _, pad := range []int{63, 64, 4096} {
				c := c04Case{Kind: kind, Addr: c04Content(0, al), OK: false, Pad: pad, Trailing: []byte{0x44, 0x01, 0x05}}
				hdr := 0
				if kind == "resp-chunk" {
					hdr = 1
				}
				b1 := hdr + c04VarintLen(uint64(al))
				b2 := b1 + al
				b3 := b2 + c04VarintLen(uint64(pad))
				b4 := b3 + pad
				n := b4 + 3
				var offs []int
				for _, b := range []int{hdr, b1, b2, b3, b4} {
					offs = append(offs, b-1, b, b+1)
				}
				offs = append(offs, 1, 2, n-1)
				enum.Splits(n, 0, offs, 2, func(cuts []int) bool {
					if !mine() {
						return true
					}
					cc := c
					cc.Cuts = append([]int{}, cuts...)
					c04Run1(sh, p3, &cc)
					return true
				})
				if mine() {
					cc := c
					for i := 1; i < n; i++ {
						cc.Cuts = append(cc.Cuts, i)
					}
					c04Run1(sh, p3, &cc)
				}
			}
		}
	}

	// (3) peer-chosen encodings
	p4 := sh.Part("peer-encodings", "enum")
	vals := []uint64{0, 1, 63, 64, 2047, 2048, 2049, 4095, 4096, 4097, 16383, 16384, 1<<30 - 1, 1 << 30, 1<<62 - 1}
	widths := []int{1, 2, 4, 8}
	p4.Alphabet = map[string]any{"length_values": vals, "varint_widths": widths, "fields": "address/message length x padding length, each in every width that fits", "body": "exactly the declared bytes (capped at 5000) + 2 trailing bytes, and every truncation class (0, 1, declared-1 bytes)"}
	for _, kind := range []string{"req-enc", "resp-enc"} {
		for _, v1 := range vals {
			for _, w1 := range widths {
				e1, ok := c04Varint(v1, w1)
				if !ok {
					continue
				}
				for _, v2 := range vals {
					for _, w2 := range widths {
						e2, ok := c04Varint(v2, w2)
						if !ok {
							continue
						}
						for _, trunc := range []int{0, 1, 2, 3} {
							if !mine() {
								continue
							}
							var s []byte
							if kind == "resp-enc" {
								s = append(s, byte(v1&1))
							}
							s = append(s, e1...)
							n1 := int(min(v1, 5000))
							s = append(s, c04Content(3, n1)...)
							s = append(s, e2...)
							n2 := int(min(v2, 5000))
							s = append(s, c04Content(0, n2)...)
							s = append(s, 0x44, 0x01)
							switch trunc {
							case 1:
								s = s[:len(s)-2]
							case 2:
								s = s[:len(s)-3]
							case 3:
								s = s[:len(e1)+(len(s)-len(e1))/2]
							}
							c04Run1(sh, p4, &c04Case{Kind: kind, Stream: s})
						}
					}
				}
			}
		}
	}
}

func TestVerifC04(t *testing.T) {
	evidence.Main(t, "C04", evidence.Seq{
		Run: c04Enumerate,
		Replay: func(part string, raw json.RawMessage) (bool, bool, string) {
			var c c04Case
			if err := json.Unmarshal(raw, &c); err != nil {
				return true, false, err.Error()
			}
			clause := c04Run(&c)
			return true, clause != "", clause
		},
	})
}
