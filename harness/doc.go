// Package harness holds the per-property harness sources. Most of them are injected into
// packages of /repo through the build overlay (see bin/vcheck); they are not compiled here.
package harness
